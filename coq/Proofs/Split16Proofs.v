(* Proofs for C16: the JS-string tokenizer and the attribute splitter.
   Every lemma used by Props/C16.v is here. *)
From Coq Require Import ZArith NArith List Bool Lia ZifyBool Arith.
From Lithium Require Import PyBase TcRecord Markers SplitJs SplitAttrs SplitSpec Spec16.
Import ListNotations.
Local Open Scope nat_scope.

(* ------------------------------------------------------------------------------------ *)
(* generic list facts                                                                   *)
(* ------------------------------------------------------------------------------------ *)

Lemma firstn_ne {A} : forall n (d : list A), 1 <= n -> d <> [] -> firstn n d <> [].
Proof.
  intros n d Hn Hd. destruct n as [|n]; [lia|]. destruct d as [|a d]; [congruence|].
  cbn [firstn]. discriminate.
Qed.

Lemma skipn_shorter {A} : forall n (d : list A), 1 <= n -> d <> [] -> length (skipn n d) < length d.
Proof.
  intros n d Hn Hd. rewrite skipn_length. destruct d as [|a d]; [congruence|]. cbn [length]. lia.
Qed.

Lemma concat_snoc16 : forall (ls : list bytes) (l : bytes), concat (ls ++ [l]) = concat ls ++ l.
Proof.
  intros ls l. rewrite concat_app. cbn [concat]. rewrite app_nil_r. reflexivity.
Qed.

Lemma Forall_snoc {A} (P : A -> Prop) : forall l x, Forall P l -> P x -> Forall P (l ++ [x]).
Proof.
  intros l x Hl Hx. apply Forall_app. split; [exact Hl|]. constructor; [exact Hx|constructor].
Qed.

(* ------------------------------------------------------------------------------------ *)
(* 1. tok_len                                                                           *)
(* ------------------------------------------------------------------------------------ *)

Lemma hex_prefix_len : forall n l, hex_prefix n l = true -> n <= length l.
Proof.
  induction n as [|n IH]; intros l H; [lia|].
  destruct l as [|b r]; [discriminate H|].
  cbn [hex_prefix] in H. apply andb_prop in H. destruct H as [_ H]. apply IH in H.
  cbn [length]. lia.
Qed.

Lemma braced_len : forall l n, braced l = Some n -> n <= length l.
Proof.
  intros l n H. unfold braced in H.
  destruct l as [|c r]; [discriminate H|].
  destruct (c =? 123)%N; [|discriminate H].
  destruct (hexrun r) as [|k] eqn:Ek; [discriminate H|].
  destruct (nth_error r (S k)) as [e|] eqn:En; [|discriminate H].
  destruct (e =? 125)%N; [|discriminate H].
  injection H as H. subst n.
  assert (Hlt : S k < length r) by (apply nth_error_Some; congruence).
  cbn [length]. lia.
Qed.

Lemma tok_len_bounds : forall d, d <> [] -> 1 <= tok_len d <= length d.
Proof.
  intros d Hd. destruct d as [|b0 r0]; [congruence|].
  unfold tok_len. destruct (b0 =? 92)%N; [|cbn [length]; lia].
  destruct r0 as [|b1 r1]; [cbn [length]; lia|].
  destruct ((b1 =? 117)%N && hex_prefix 4 r1) eqn:E1.
  { apply andb_prop in E1. destruct E1 as [_ E1]. apply hex_prefix_len in E1. cbn [length]. lia. }
  destruct ((b1 =? 120)%N && hex_prefix 2 r1) eqn:E2.
  { apply andb_prop in E2. destruct E2 as [_ E2]. apply hex_prefix_len in E2. cbn [length]. lia. }
  destruct (b1 =? 117)%N; [|cbn [length]; lia].
  destruct (braced r1) as [n|] eqn:E3; [|cbn [length]; lia].
  apply braced_len in E3. cbn [length]. lia.
Qed.

Lemma hexrun_app : forall hs r, forallb is_hex hs = true ->
  hexrun (hs ++ 125%N :: r) = length hs.
Proof.
  induction hs as [|h hs IH]; intros r H.
  - reflexivity.
  - cbn [forallb] in H. apply andb_prop in H. destruct H as [H1 H2].
    cbn [app hexrun length]. rewrite H1. rewrite IH by exact H2. reflexivity.
Qed.

Lemma nth_error_mid {A} : forall (hs : list A) x r, nth_error (hs ++ x :: r) (length hs) = Some x.
Proof.
  induction hs as [|h hs IH]; intros x r; [reflexivity|]. cbn [app length nth_error]. apply IH.
Qed.

Lemma tok_len_cases :
  forall d, d <> [] ->
    (1 <= tok_len d <= length d)%nat /\
    (forall r, d = 92%N :: r -> r <> [] -> (2 <= tok_len d)%nat) /\
    (forall h1 h2 r, d = 92%N :: 120%N :: h1 :: h2 :: r -> is_hex h1 = true -> is_hex h2 = true ->
        tok_len d = 4%nat) /\
    (forall h1 h2 h3 h4 r, d = 92%N :: 117%N :: h1 :: h2 :: h3 :: h4 :: r ->
        is_hex h1 = true -> is_hex h2 = true -> is_hex h3 = true -> is_hex h4 = true ->
        tok_len d = 6%nat) /\
    (forall hs r, d = 92%N :: 117%N :: 123%N :: hs ++ 125%N :: r -> hs <> [] ->
        forallb is_hex hs = true -> tok_len d = (4 + length hs)%nat).
Proof.
  intros d Hd. split; [apply tok_len_bounds; exact Hd|]. split; [|split; [|split]].
  - intros r E Hr. subst d. unfold tok_len. change (92 =? 92)%N with true. cbv iota.
    destruct r as [|b1 r1]; [congruence|].
    destruct ((b1 =? 117)%N && hex_prefix 4 r1); [lia|].
    destruct ((b1 =? 120)%N && hex_prefix 2 r1); [lia|].
    destruct (b1 =? 117)%N; [|lia].
    destruct (braced r1); lia.
  - intros h1 h2 r E H1 H2. subst d. unfold tok_len.
    change (92 =? 92)%N with true. change (120 =? 117)%N with false.
    change (120 =? 120)%N with true. cbn [andb hex_prefix]. rewrite H1, H2. reflexivity.
  - intros h1 h2 h3 h4 r E H1 H2 H3 H4. subst d. unfold tok_len.
    change (92 =? 92)%N with true. change (117 =? 117)%N with true.
    cbn [andb hex_prefix]. rewrite H1, H2, H3, H4. reflexivity.
  - intros hs r E Hne Hh. subst d. unfold tok_len.
    change (92 =? 92)%N with true. change (117 =? 117)%N with true.
    change (117 =? 120)%N with false.
    cbn [andb hex_prefix]. change (is_hex 123) with false. cbn [andb].
    unfold braced. change (123 =? 123)%N with true. cbv iota.
    rewrite hexrun_app by exact Hh.
    destruct hs as [|h hs']; [congruence|].
    rewrite nth_error_mid. change (125 =? 125)%N with true. cbv iota.
    cbn [length]. lia.
Qed.

(* ------------------------------------------------------------------------------------ *)
(* 2. split_attrs: tiling, non-empty atoms, no internal error                           *)
(* ------------------------------------------------------------------------------------ *)

Lemma a1_at_ge2 : forall ls d n, a1_at ls d = Some n -> 2 <= n.
Proof.
  intros ls d n H. unfold a1_at in H.
  destruct (Nat.eqb (run is_ws d) 0 && negb ls); [discriminate H|].
  destruct (skipn (run is_ws d) d) as [|b r]; [discriminate H|].
  destruct (is_alpha b); [|discriminate H].
  destruct (skipn (run is_namechar r) r) as [|t r']; [discriminate H|].
  destruct ((t =? 61)%N || (t =? 62)%N || is_ws t); [|discriminate H].
  injection H as H. lia.
Qed.

Lemma a2_at_ge1 : forall d n, a2_at d = Some n -> 1 <= n.
Proof.
  intros d n H. unfold a2_at in H.
  destruct (skipn (run is_ws d) d) as [|t r]; [discriminate H|].
  destruct (t =? 62)%N; [|discriminate H]. injection H as H. lia.
Qed.

Lemma attr_search_from_ge : forall d prev pos p k n,
  attr_search_from prev pos d = Some (p, k, n) -> pos <= p.
Proof.
  induction d as [|b r IH]; intros prev pos p k n H; [discriminate H|].
  cbn [attr_search_from] in H.
  destruct (a1_at (prev =? 10)%N (b :: r)) as [n1|].
  { injection H as H1 H2 H3. lia. }
  destruct (a2_at (b :: r)) as [n2|].
  { injection H as H1 H2 H3. lia. }
  apply IH in H. lia.
Qed.

Lemma attr_search_ge1 : forall d p k n, attr_search d = Some (p, k, n) -> 1 <= p.
Proof.
  intros d p k n H. unfold attr_search in H. destruct d as [|b r]; [discriminate H|].
  apply attr_search_from_ge in H. exact H.
Qed.

Lemma tag_at_ge2 : forall d n, tag_at d = Some n -> 2 <= n.
Proof.
  intros d n H. unfold tag_at in H. destruct d as [|c r]; [discriminate H|].
  destruct (c =? 60)%N; [|discriminate H].
  destruct (skipn (run is_ws r) r) as [|b r2]; [discriminate H|].
  destruct (is_alpha b); [|discriminate H]. injection H as H. lia.
Qed.

Lemma tag_search_ge : forall d pos e, tag_search pos d = Some e -> pos + 2 <= e.
Proof.
  induction d as [|c r IH]; intros pos e H; [discriminate H|].
  cbn [tag_search] in H. destruct (tag_at (c :: r)) as [n|] eqn:E.
  - apply tag_at_ge2 in E. injection H as H. lia.
  - apply IH in H. lia.
Qed.

Definition ne_parts (ps : list bytes) : Prop := Forall (fun p : bytes => p <> []) ps.

Definition attrs_post (parts : list bytes) (red : list bool) (d : bytes)
           (L : res (list bytes * list bool)) : Prop :=
  exists parts' red', L = Ok (parts', red') /\
    concat parts' = concat parts ++ d /\
    (ne_parts parts -> ne_parts parts') /\
    (length parts = length red -> length parts' = length red').

Lemma attrs_post_step : forall parts red d x r d' L,
  attrs_post (parts ++ [x]) (red ++ [r]) d' L -> x ++ d' = d -> x <> [] ->
  attrs_post parts red d L.
Proof.
  intros parts red d x r d' L [parts' [red' [HL [Hc [Hn Hl]]]]] Hx Hne.
  exists parts', red'. split; [exact HL|]. split; [|split].
  - rewrite Hc. rewrite (concat_snoc16 parts x). rewrite <- app_assoc. rewrite Hx. reflexivity.
  - intros Hp. apply Hn. apply Forall_snoc; assumption.
  - intros Hp. apply Hl. rewrite !app_length. cbn [length]. lia.
Qed.

Lemma attrs_loop_unfold : forall f in_tag parts red b r,
  attrs_loop (S f) in_tag parts red (b :: r) =
  let d := b :: r in
          if in_tag then
            match attr_match d with
            | None =>
                match attr_search d with
                | Some (p, A1, _) =>
                    attrs_loop f true (parts ++ [firstn p d]) (red ++ [false]) (skipn p d)
                | Some (p, A2, n) =>
                    attrs_loop f false (parts ++ [firstn (p + n) d]) (red ++ [false])
                               (skipn (p + n) d)
                | None => attrs_loop f false parts red d
                end
            | Some (A2, n) =>
                attrs_loop f false (parts ++ [firstn n d]) (red ++ [false]) (skipn n d)
            | Some (A1, n) =>
                let g := firstn n d in
                if negb (last g 0%N =? 61)%N then
                  attrs_loop f true (parts ++ [firstn (n - 1) d]) (red ++ [true])
                             (skipn (n - 1) d)
                else
                  let d1 := skipn n d in
                  match d1 with
                  | q :: d2 =>
                      if ((q =? 39) || (q =? 34))%N then
                        match find_byte (fun b => (b =? q)%N) d2 with
                        | None => attrs_loop f false parts red d
                        | Some i =>
                            attrs_loop f true (parts ++ [g ++ [q] ++ firstn (S i) d2])
                                       (red ++ [true]) (skipn (S i) d2)
                        end
                      else
                        match find_byte (fun b => is_ws b || (b =? 62)%N) d1 with
                        | None => attrs_loop f false parts red d
                        | Some i =>
                            attrs_loop f true (parts ++ [g ++ firstn i d1]) (red ++ [true])
                                       (skipn i d1)
                        end
                  | [] => attrs_loop f false parts red d
                  end
            end
          else
            match tag_search 0 d with
            | None => Ok (parts ++ [d], red ++ [false])
            | Some e => attrs_loop f true (parts ++ [firstn e d]) (red ++ [false]) (skipn e d)
            end.
Proof. reflexivity. Qed.

Lemma attr_match_ge : forall d k n, attr_match d = Some (k, n) ->
  1 <= n /\ (k = A1 -> 2 <= n).
Proof.
  intros d k n H. unfold attr_match in H.
  destruct (a1_at true d) as [n1|] eqn:E1.
  - injection H as H1 H2. subst. apply a1_at_ge2 in E1. split; [lia|intros _; lia].
  - destruct (a2_at d) as [n2|] eqn:E2; [|discriminate H].
    injection H as H1 H2. subst. apply a2_at_ge1 in E2. split; [lia|intros E; discriminate E].
Qed.

Lemma attrs_loop_ok : forall fuel (in_tag : bool) parts red d,
  2 * length d + (if in_tag then 1 else 0) + 1 <= fuel ->
  attrs_post parts red d (attrs_loop fuel in_tag parts red d).
Proof.
  induction fuel as [|f IH]; intros in_tag parts red d Hf; [lia|].
  destruct d as [|b r].
  { cbn [attrs_loop]. exists parts, red. split; [reflexivity|].
    split; [rewrite app_nil_r; reflexivity|]. split; intros H; exact H. }
  rewrite attrs_loop_unfold. cbv zeta.
  set (d := b :: r) in *.
  assert (Hd : d <> []) by (unfold d; discriminate).
  assert (Hlen : 1 <= length d) by (unfold d; cbn [length]; lia).
  destruct in_tag.
  - destruct (attr_match d) as [[[|] n]|] eqn:Em.
    + (* A1 *)
      apply attr_match_ge in Em. destruct Em as [_ Hn]. specialize (Hn eq_refl).
      destruct (negb (last (firstn n d) 0%N =? 61)%N).
      * apply attrs_post_step with (x := firstn (n - 1) d) (r := true) (d' := skipn (n - 1) d).
        -- apply IH. assert (Hk : 1 <= (n - 1)) by lia. pose proof (skipn_shorter (n - 1) d Hk Hd). lia.
        -- apply firstn_skipn.
        -- apply firstn_ne; [lia|exact Hd].
      * destruct (skipn n d) as [|q d2] eqn:Es.
        { apply IH. lia. }
        assert (Hl2 : length d2 + 1 + n = length d).
        { apply (f_equal (@length N)) in Es. rewrite skipn_length in Es. cbn [length] in Es. lia. }
        destruct ((q =? 39) || (q =? 34))%N.
        -- destruct (find_byte (fun b0 => (b0 =? q)%N) d2) as [i|].
           ++ apply attrs_post_step with (x := firstn n d ++ [q] ++ firstn (S i) d2) (r := true)
                                         (d' := skipn (S i) d2).
              ** apply IH. rewrite skipn_length. lia.
              ** rewrite <- !app_assoc. rewrite firstn_skipn.
                 change ([q] ++ d2) with (q :: d2). rewrite <- Es. apply firstn_skipn.
              ** intros E. apply app_eq_nil in E. destruct E as [_ E]. discriminate E.
           ++ apply IH. lia.
        -- destruct (find_byte (fun b0 => is_ws b0 || (b0 =? 62)%N) (q :: d2)) as [i|].
           ++ apply attrs_post_step with (x := firstn n d ++ firstn i (q :: d2)) (r := true)
                                         (d' := skipn i (q :: d2)).
              ** apply IH. rewrite skipn_length. cbn [length]. lia.
              ** rewrite <- app_assoc. rewrite firstn_skipn. rewrite <- Es. apply firstn_skipn.
              ** intros E. apply app_eq_nil in E. destruct E as [E _].
                 revert E. apply firstn_ne; [lia|exact Hd].
           ++ apply IH. lia.
    + (* A2 *)
      apply attr_match_ge in Em. destruct Em as [Hn _].
      apply attrs_post_step with (x := firstn n d) (r := false) (d' := skipn n d).
      * apply IH. pose proof (skipn_shorter n d Hn Hd). lia.
      * apply firstn_skipn.
      * apply firstn_ne; [lia|exact Hd].
    + destruct (attr_search d) as [[[p [|]] n]|] eqn:Es.
      * apply attr_search_ge1 in Es.
        apply attrs_post_step with (x := firstn p d) (r := false) (d' := skipn p d).
        -- apply IH. pose proof (skipn_shorter p d Es Hd). lia.
        -- apply firstn_skipn.
        -- apply firstn_ne; [lia|exact Hd].
      * apply attr_search_ge1 in Es.
        apply attrs_post_step with (x := firstn (p + n) d) (r := false) (d' := skipn (p + n) d).
        -- apply IH. assert (Hk : 1 <= (p + n)) by lia. pose proof (skipn_shorter (p + n) d Hk Hd). lia.
        -- apply firstn_skipn.
        -- apply firstn_ne; [lia|exact Hd].
      * apply IH. lia.
  - destruct (tag_search 0 d) as [e|] eqn:Et.
    + apply tag_search_ge in Et.
      apply attrs_post_step with (x := firstn e d) (r := false) (d' := skipn e d).
      * apply IH. assert (Hk : 1 <= e) by lia. pose proof (skipn_shorter e d Hk Hd). lia.
      * apply firstn_skipn.
      * apply firstn_ne; [lia|exact Hd].
    + exists (parts ++ [d]), (red ++ [false]). split; [reflexivity|]. split; [|split].
      * apply concat_snoc16.
      * intros Hp. apply Forall_snoc; assumption.
      * intros Hp. rewrite !app_length. cbn [length]. lia.
Qed.

Lemma split_attrs_ok : splitter_ok split_attrs /\ (forall d e, split_attrs d = Err e -> False).
Proof.
  assert (Hmain : forall d, attrs_post [] [] d (attrs_loop (2 * length d + 2) false [] [] d)).
  { intros d. apply attrs_loop_ok. lia. }
  split.
  - intros d s Hs. unfold split_attrs in Hs.
    destruct (Hmain d) as [parts' [red' [HL [Hc [Hn Hl]]]]].
    rewrite HL in Hs. cbn [bind] in Hs. injection Hs as Hs. subst s.
    unfold split_content. cbn [sp_before sp_parts sp_red sp_after].
    split; [|split].
    + rewrite app_nil_r. cbn [app]. rewrite Hc. reflexivity.
    + apply Hn. constructor.
    + apply Hl. reflexivity.
  - intros d e Hs. unfold split_attrs in Hs.
    destruct (Hmain d) as [parts' [red' [HL _]]].
    rewrite HL in Hs. cbn [bind] in Hs. discriminate Hs.
Qed.

(* ------------------------------------------------------------------------------------ *)
(* 3./5. split_jsstr                                                                    *)
(* ------------------------------------------------------------------------------------ *)
(* The (parts, chars) state of the tokenizer is represented by a list of flagged parts:  *)
(* parts = map fst, chars = the indices of the parts flagged true.                       *)

Definition fparts (fl : list ((list N) * bool)) : list (list N) := map fst fl.
Definition fflags (fl : list ((list N) * bool)) : list bool := map snd fl.

Fixpoint cidx (off : nat) (bs : list bool) : list nat :=
  match bs with
  | [] => []
  | b :: r => if b then off :: cidx (S off) r else cidx (S off) r
  end.

Definition fchars (fl : list ((list N) * bool)) : list nat := cidx 0 (fflags fl).
Definition tflag (tk : list (list N)) : list ((list N) * bool) := map (fun t => (t, true)) tk.
Definition clen (fl : list ((list N) * bool)) : nat := length (concat (fparts fl)).
Definition spans_fl (pos : nat) (fl : list ((list N) * bool)) : list (nat * nat) :=
  spans_from pos (fparts fl) (fflags fl).
Definition allF (fl : list ((list N) * bool)) : Prop := Forall (fun x => snd x = false) fl.

Lemma fparts_app : forall a b, fparts (a ++ b) = fparts a ++ fparts b.
Proof. intros a b. apply map_app. Qed.
Lemma fflags_app : forall a b, fflags (a ++ b) = fflags a ++ fflags b.
Proof. intros a b. apply map_app. Qed.
Lemma fparts_length : forall a, length (fparts a) = length a.
Proof. intros a. apply map_length. Qed.
Lemma fflags_length : forall a, length (fflags a) = length a.
Proof. intros a. apply map_length. Qed.
Lemma fparts_tflag : forall tk, fparts (tflag tk) = tk.
Proof.
  induction tk as [|t tk IH]; [reflexivity|].
  unfold fparts, tflag in *. cbn [map fst]. rewrite IH. reflexivity.
Qed.
Lemma tflag_length : forall tk, length (tflag tk) = length tk.
Proof. intros tk. apply map_length. Qed.

Lemma cidx_app : forall a b off, cidx off (a ++ b) = cidx off a ++ cidx (off + length a) b.
Proof.
  induction a as [|x a IH]; intros b off.
  - cbn [app cidx length]. rewrite Nat.add_0_r. reflexivity.
  - cbn [app cidx length]. rewrite IH.
    replace (S off + length a) with (off + S (length a)) by lia.
    destruct x; reflexivity.
Qed.

Lemma fchars_app : forall a b, fchars (a ++ b) = fchars a ++ cidx (length a) (fflags b).
Proof.
  intros a b. unfold fchars. rewrite fflags_app, cidx_app. rewrite fflags_length. reflexivity.
Qed.

Lemma fchars_snoc_true : forall fl t, fchars (fl ++ [(t, true)]) = fchars fl ++ [length (fparts fl)].
Proof. intros fl t. rewrite fchars_app. rewrite fparts_length. reflexivity. Qed.

Lemma fchars_snoc_false : forall fl t, fchars (fl ++ [(t, false)]) = fchars fl.
Proof. intros fl t. rewrite fchars_app. cbn [fflags map snd cidx]. apply app_nil_r. Qed.

Lemma fparts_snoc : forall fl t b, fparts (fl ++ [(t, b)]) = fparts fl ++ [t].
Proof. intros fl t b. rewrite fparts_app. reflexivity. Qed.

Lemma cidx_bounds : forall bs off c, In c (cidx off bs) -> off <= c < off + length bs.
Proof.
  induction bs as [|b bs IH]; intros off c H; [contradiction|].
  cbn [cidx] in H. cbn [length].
  destruct b.
  - destruct H as [H|H]; [lia|]. apply IH in H. lia.
  - apply IH in H. lia.
Qed.

Lemma cidx_shift : forall bs off k, map (fun c => c - k) (cidx (off + k) bs) = cidx off bs.
Proof.
  induction bs as [|b bs IH]; intros off k; [reflexivity|].
  cbn [cidx]. destruct b.
  - cbn [map]. replace (off + k - k) with off by lia.
    change (S (off + k)) with (S off + k). rewrite IH. reflexivity.
  - change (S (off + k)) with (S off + k). apply IH.
Qed.

Lemma allF_cidx : forall fl off, allF fl -> cidx off (fflags fl) = [].
Proof.
  induction fl as [|[p b] fl IH]; intros off H; [reflexivity|].
  inversion H as [|x l Hb Hr]; subst. cbn [snd] in Hb. subst b.
  cbn [fflags map snd cidx]. apply IH. exact Hr.
Qed.

Lemma cidx_nil_allF : forall fl off, cidx off (fflags fl) = [] -> allF fl.
Proof.
  induction fl as [|[p b] fl IH]; intros off H; [constructor|].
  cbn [fflags map snd cidx] in H. destruct b; [discriminate H|].
  constructor; [reflexivity|]. apply IH with (off := S off). exact H.
Qed.

Lemma allF_app : forall a b, allF a -> allF b -> allF (a ++ b).
Proof. intros a b Ha Hb. apply Forall_app. split; assumption. Qed.

(* spans *)
Lemma spans_fl_nil : forall pos, spans_fl pos [] = [].
Proof. reflexivity. Qed.

Lemma spans_fl_cons : forall pos p b fl,
  spans_fl pos ((p, b) :: fl) =
  if b then (pos, pos + length p) :: spans_fl (pos + length p) fl
  else spans_fl (pos + length p) fl.
Proof. reflexivity. Qed.

Lemma clen_nil : clen [] = 0.
Proof. reflexivity. Qed.
Lemma clen_cons : forall p b fl, clen ((p, b) :: fl) = length p + clen fl.
Proof. intros p b fl. unfold clen. cbn [fparts map fst concat]. apply app_length. Qed.
Lemma clen_app : forall a b, clen (a ++ b) = clen a + clen b.
Proof.
  intros a b. unfold clen. rewrite fparts_app, concat_app, app_length. reflexivity.
Qed.
Lemma clen_tflag : forall tk, clen (tflag tk) = length (concat tk).
Proof. intros tk. unfold clen. rewrite fparts_tflag. reflexivity. Qed.

Lemma spans_fl_app : forall a b pos,
  spans_fl pos (a ++ b) = spans_fl pos a ++ spans_fl (pos + clen a) b.
Proof.
  induction a as [|[p f] a IH]; intros b pos.
  - cbn [app]. rewrite spans_fl_nil, clen_nil, Nat.add_0_r. reflexivity.
  - cbn [app]. rewrite !spans_fl_cons, clen_cons, IH.
    replace (pos + length p + clen a) with (pos + (length p + clen a)) by lia.
    destruct f; reflexivity.
Qed.

Lemma allF_spans : forall fl pos, allF fl -> spans_fl pos fl = [].
Proof.
  induction fl as [|[p b] fl IH]; intros pos H; [reflexivity|].
  inversion H as [|x l Hb Hr]; subst. cbn [snd] in Hb. subst b.
  rewrite spans_fl_cons. apply IH. exact Hr.
Qed.

(* mem_nat on index lists *)
Lemma mem_nat_In : forall l x, mem_nat x l = true <-> In x l.
Proof.
  induction l as [|y l IH]; intros x; cbn [mem_nat In].
  - split; [discriminate|contradiction].
  - rewrite orb_true_iff, Nat.eqb_eq, IH. split; intros [H|H]; auto.
Qed.

Lemma mem_nat_cidx_lt : forall bs off j, j < off -> mem_nat j (cidx off bs) = false.
Proof.
  intros bs off j Hj. destruct (mem_nat j (cidx off bs)) eqn:E; [|reflexivity].
  apply mem_nat_In in E. apply cidx_bounds in E. lia.
Qed.

Lemma mem_nat_cidx : forall bs off j, mem_nat (off + j) (cidx off bs) = nth j bs false.
Proof.
  induction bs as [|b bs IH]; intros off j.
  - destruct j; reflexivity.
  - destruct j as [|j].
    + rewrite Nat.add_0_r. cbn [cidx nth]. destruct b.
      * cbn [mem_nat]. rewrite Nat.eqb_refl. reflexivity.
      * apply mem_nat_cidx_lt. lia.
    + cbn [nth]. replace (off + S j) with (S off + j) by lia. cbn [cidx].
      destruct b.
      * cbn [mem_nat]. rewrite IH.
        replace (Nat.eqb (S off + j) off) with false; [reflexivity|].
        symmetry. apply Nat.eqb_neq. lia.
      * apply IH.
Qed.

Lemma red_of_chars : forall bs off,
  map (fun i => mem_nat i (cidx off bs)) (seq off (length bs)) = bs.
Proof.
  induction bs as [|b bs IH]; intros off; [reflexivity|].
  cbn [length seq map]. f_equal.
  - pose proof (mem_nat_cidx (b :: bs) off 0) as H. rewrite Nat.add_0_r in H. exact H.
  - rewrite <- (IH (S off)) at 2. apply map_ext_in. intros i Hi. apply in_seq in Hi.
    cbn [cidx]. destruct b; [|reflexivity].
    cbn [mem_nat]. replace (Nat.eqb i off) with false; [reflexivity|].
    symmetry. apply Nat.eqb_neq. lia.
Qed.

Lemma firstn_len_app {A} : forall (a b : list A), firstn (length a) (a ++ b) = a.
Proof.
  intros a b. replace (length a) with (length a + 0) by lia.
  rewrite firstn_app_2. cbn [firstn]. apply app_nil_r.
Qed.

Lemma skipn_len_app {A} : forall (a b : list A), skipn (length a) (a ++ b) = b.
Proof.
  induction a as [|x a IH]; intros b; [reflexivity|]. cbn [length app skipn]. apply IH.
Qed.

(* --- one-step unfoldings of js_inner on flagged lists --- *)
Lemma js_inner_some_step : forall f q fl b r,
  js_inner (S f) (Some q) (fparts fl) (fchars fl) (b :: r) =
  let d := b :: r in
  let tok := firstn (tok_len d) d in
  if bytes_eqb tok [q]
  then js_inner f None (fparts (fl ++ [(tok, false)])) (fchars (fl ++ [(tok, false)]))
                (skipn (tok_len d) d)
  else js_inner f (Some q) (fparts (fl ++ [(tok, true)])) (fchars (fl ++ [(tok, true)]))
                (skipn (tok_len d) d).
Proof.
  intros f q fl b r. cbv zeta.
  rewrite !fparts_snoc, fchars_snoc_true, fchars_snoc_false. reflexivity.
Qed.

Lemma js_inner_none_step : forall f fl d,
  js_inner (S f) None (fparts fl) (fchars fl) d =
  match find_quote d with
  | None => (None, fparts fl, fchars fl, d)
  | Some i => js_inner f (Some (nth i d 0%N))
                       (fparts (fl ++ [(firstn (S i) d, false)]))
                       (fchars (fl ++ [(firstn (S i) d, false)])) (skipn (S i) d)
  end.
Proof.
  intros f fl d. cbn [js_inner].
  destruct (find_quote d) as [i|]; [|reflexivity].
  rewrite fparts_snoc, fchars_snoc_false. reflexivity.
Qed.

Lemma close_test : forall b r q,
  bytes_eqb (firstn (tok_len (b :: r)) (b :: r)) [q] =
  Nat.eqb (tok_len (b :: r)) 1 && (b =? q)%N.
Proof.
  intros b r q.
  assert (Hb : 1 <= tok_len (b :: r) <= length (b :: r)) by (apply tok_len_bounds; discriminate).
  destruct (tok_len (b :: r)) as [|[|n]]; [lia| |].
  - cbn [firstn bytes_eqb Nat.eqb]. destruct (b =? q)%N; reflexivity.
  - cbn [length] in Hb. destruct r as [|x r]; [cbn [length] in Hb; lia|].
    cbn [firstn bytes_eqb Nat.eqb]. destruct (b =? q)%N; reflexivity.
Qed.

(* --- facts about the reference tokenizer --- *)
Lemma ref_string_rest : forall f q pos d sp e rest,
  ref_string f q pos d = Some (sp, e, rest) -> length rest < length d.
Proof.
  induction f as [|f IH]; intros q pos d sp e rest H; [discriminate H|].
  destruct d as [|b r]; [discriminate H|].
  cbn [ref_string] in H.
  assert (Hb : 1 <= tok_len (b :: r) <= length (b :: r)) by (apply tok_len_bounds; discriminate).
  destruct (Nat.eqb (tok_len (b :: r)) 1 && (b =? q)%N).
  - injection H as H1 H2 H3. subst rest. cbn [skipn length]. lia.
  - destruct (ref_string f q (pos + tok_len (b :: r)) (skipn (tok_len (b :: r)) (b :: r)))
      as [[[sp' e'] rest']|] eqn:E; [|discriminate H].
    injection H as H1 H2 H3. subst rest'. apply IH in E. rewrite skipn_length in E. lia.
Qed.

Lemma ref_js_fuel : forall F1 F2 pos d, length d < F1 -> length d < F2 ->
  ref_js F1 pos d = ref_js F2 pos d.
Proof.
  induction F1 as [|F1 IH]; intros F2 pos d H1 H2; [lia|].
  destruct F2 as [|F2]; [lia|].
  destruct d as [|b r]; [reflexivity|].
  cbn [ref_js]. cbn [length] in H1, H2.
  destruct (is_quote b).
  - destruct (ref_string (S (length r)) b (S pos) r) as [[[sp e] rest]|] eqn:E.
    + apply ref_string_rest in E. f_equal. apply IH; lia.
    + apply IH; lia.
  - apply IH; lia.
Qed.

Lemma ref_js_S : forall F pos b r,
  ref_js (S F) pos (b :: r) =
  if is_quote b then
    match ref_string (S (length r)) b (S pos) r with
    | Some (sp, e, rest) => sp ++ ref_js F e rest
    | None => ref_js F (S pos) r
    end
  else ref_js F (S pos) r.
Proof. reflexivity. Qed.

Lemma ref_js_noquote : forall d F pos, find_quote d = None -> ref_js F pos d = [].
Proof.
  induction d as [|b r IH]; intros F pos H; [destruct F; reflexivity|].
  cbn [find_quote] in H. destruct (is_quote b) eqn:Eb; [discriminate H|].
  destruct (find_quote r) as [i|] eqn:Er; [discriminate H|].
  destruct F as [|F]; [reflexivity|]. cbn [ref_js]. rewrite Eb. apply IH. reflexivity.
Qed.

Lemma ref_js_skip : forall d i F pos, find_quote d = Some i -> length d < F ->
  ref_js F pos d = ref_js F (pos + i) (skipn i d).
Proof.
  induction d as [|b r IH]; intros i F pos H HF; [discriminate H|].
  cbn [find_quote] in H. destruct (is_quote b) eqn:Eb.
  - injection H as H. subst i. rewrite Nat.add_0_r. reflexivity.
  - destruct (find_quote r) as [i'|] eqn:Er; [|discriminate H].
    cbn [option_map] in H. injection H as H. subst i.
    destruct F as [|F]; [lia|]. cbn [length] in HF.
    rewrite ref_js_S. rewrite Eb. cbn [skipn].
    rewrite (IH i' F (S pos) eq_refl) by lia.
    replace (S pos + i') with (pos + S i') by lia.
    apply ref_js_fuel; rewrite skipn_length; lia.
Qed.

Lemma ref_js_quote_closed : forall q r F pos sp e rest,
  is_quote q = true -> length (q :: r) < F ->
  ref_string (S (length r)) q (S pos) r = Some (sp, e, rest) ->
  ref_js F pos (q :: r) = sp ++ ref_js F e rest.
Proof.
  intros q r F pos sp e rest Hq HF E.
  destruct F as [|F]; [lia|]. cbn [length] in HF.
  rewrite ref_js_S. rewrite Hq, E. f_equal.
  apply ref_string_rest in E. apply ref_js_fuel; lia.
Qed.

Lemma ref_js_quote_open : forall q r F pos,
  is_quote q = true -> length (q :: r) < F ->
  ref_string (S (length r)) q (S pos) r = None ->
  ref_js F pos (q :: r) = ref_js F (S pos) r.
Proof.
  intros q r F pos Hq HF E.
  destruct F as [|F]; [lia|]. cbn [length] in HF.
  rewrite ref_js_S. rewrite Hq, E. apply ref_js_fuel; lia.
Qed.

Lemma find_quote_spec : forall d i, find_quote d = Some i ->
  i < length d /\ is_quote (nth i d 0%N) = true /\
  skipn i d = nth i d 0%N :: skipn (S i) d /\
  firstn (S i) d = firstn i d ++ [nth i d 0%N].
Proof.
  induction d as [|b r IH]; intros i H; [discriminate H|].
  cbn [find_quote] in H. destruct (is_quote b) eqn:Eb.
  - injection H as H. subst i. cbn [length nth skipn firstn app].
    split; [lia|]. split; [exact Eb|]. split; reflexivity.
  - destruct (find_quote r) as [i'|] eqn:Er; [|discriminate H].
    cbn [option_map] in H. injection H as H. subst i.
    destruct (IH i' eq_refl) as [H1 [H2 [H3 H4]]].
    cbn [length nth]. split; [lia|]. split; [exact H2|]. split.
    + exact H3.
    + change (firstn (S (S i')) (b :: r)) with (b :: firstn (S i') r).
      rewrite H4. reflexivity.
Qed.

(* --- the string-mode scan --- *)
Lemma inner_some : forall f d q fl, length d < f ->
  (exists tk rest f', d = concat tk ++ q :: rest /\ ne_parts tk /\ length rest < f' /\
      js_inner f (Some q) (fparts fl) (fchars fl) d =
      js_inner f' None (fparts (fl ++ tflag tk ++ [([q], false)]))
                       (fchars (fl ++ tflag tk ++ [([q], false)])) rest /\
      (forall F pos, length d < F ->
         ref_string F q pos d =
         Some (spans_fl pos (tflag tk), pos + length (concat tk) + 1, rest)))
  \/
  (exists tk, d = concat tk /\ ne_parts tk /\
      js_inner f (Some q) (fparts fl) (fchars fl) d =
      (Some q, fparts (fl ++ tflag tk), fchars (fl ++ tflag tk), []) /\
      (forall F pos, ref_string F q pos d = None)).
Proof.
  induction f as [|f IH]; intros d q fl Hf; [lia|].
  destruct d as [|b r].
  { right. exists []. split; [reflexivity|]. split; [constructor|]. split.
    - cbn [tflag map]. rewrite app_nil_r. reflexivity.
    - intros F pos. destruct F; reflexivity. }
  rewrite js_inner_some_step. cbv zeta. rewrite close_test.
  set (d := b :: r) in *.
  assert (Hd : d <> []) by (unfold d; discriminate).
  pose proof (tok_len_bounds d Hd) as Hb.
  set (n := tok_len d) in *.
  assert (Hsk : length (skipn n d) < length d) by (apply skipn_shorter; [lia|exact Hd]).
  destruct (Nat.eqb n 1 && (b =? q)%N) eqn:Ec.
  - (* closing quote *)
    apply andb_prop in Ec. destruct Ec as [En Eb].
    apply Nat.eqb_eq in En. apply N.eqb_eq in Eb.
    left. exists [], (skipn n d), f.
    assert (Htok : firstn n d = [q]).
    { rewrite En. unfold d. cbn [firstn]. rewrite Eb. reflexivity. }
    split; [|split; [|split; [|split]]].
    + cbn [concat app]. rewrite <- (firstn_skipn n d) at 1. rewrite Htok. reflexivity.
    + constructor.
    + lia.
    + rewrite Htok. reflexivity.
    + intros F pos HF. destruct F as [|F]; [lia|].
      unfold d. cbn [ref_string]. fold d. fold n.
      rewrite En, Eb. cbn [Nat.eqb]. rewrite N.eqb_refl. cbn [andb].
      cbn [tflag map concat length]. rewrite spans_fl_nil.
      replace (pos + 0 + 1) with (S pos) by lia. reflexivity.
  - (* a token of the string *)
    assert (Hlen : length (firstn n d) = n) by (apply firstn_length_le; lia).
    destruct (IH (skipn n d) q (fl ++ [(firstn n d, true)]) ltac:(lia))
      as [[tk [rest [f' [Hd' [Hne [Hf' [Hjs Href]]]]]]] | [tk [Hd' [Hne [Hjs Href]]]]].
    + left. exists (firstn n d :: tk), rest, f'.
      split; [|split; [|split; [|split]]].
      * cbn [concat]. rewrite <- app_assoc, <- Hd'. symmetry. apply firstn_skipn.
      * constructor; [apply firstn_ne; [lia|exact Hd]|exact Hne].
      * exact Hf'.
      * rewrite Hjs. cbn [tflag map]. rewrite <- !app_assoc. reflexivity.
      * intros F pos HF. destruct F as [|F]; [lia|].
        unfold d. cbn [ref_string]. fold d. fold n. rewrite Ec.
        rewrite Href by lia.
        cbn [tflag map]. rewrite spans_fl_cons. cbn [concat]. rewrite app_length, Hlen.
        match goal with |- Some (_, ?x, _) = Some (_, ?y, _) => replace y with x by lia end. reflexivity.
    + right. exists (firstn n d :: tk).
      split; [|split; [|split]].
      * cbn [concat]. rewrite <- Hd'. symmetry. apply firstn_skipn.
      * constructor; [apply firstn_ne; [lia|exact Hd]|exact Hne].
      * rewrite Hjs. cbn [tflag map]. rewrite <- !app_assoc. reflexivity.
      * intros F pos. destruct F as [|F]; [reflexivity|].
        unfold d. cbn [ref_string]. fold d. fold n. rewrite Ec. rewrite Href. reflexivity.
Qed.

(* --- the text-mode scan: one call of the inner loop from instr = None --- *)
Lemma inner_none : forall n d, length d <= n -> forall f fl, length d < f ->
  exists instr add rest,
    js_inner f None (fparts fl) (fchars fl) d =
      (instr, fparts (fl ++ add), fchars (fl ++ add), rest) /\
    concat (fparts add) ++ rest = d /\ ne_parts (fparts add) /\
    ( (instr = None /\ find_quote rest = None /\
       forall F pos, length d < F -> ref_js F pos d = spans_fl pos add)
      \/
      (exists q pre tk add1, instr = Some q /\ rest = [] /\
         add = add1 ++ [(pre ++ [q], false)] ++ tflag tk /\
         forall F pos, length d < F ->
           ref_js F pos d =
           spans_fl pos add1 ++ ref_js F (pos + clen add1 + length pre + 1) (concat tk)) ).
Proof.
  induction n as [|n IHn]; intros d Hn f fl Hf.
  { destruct d as [|b r]; [|cbn [length] in Hn; lia].
    destruct f as [|f]; [lia|]. rewrite js_inner_none_step. cbn [find_quote].
    exists None, [], []. rewrite app_nil_r.
    split; [reflexivity|]. split; [reflexivity|]. split; [constructor|].
    left. split; [reflexivity|]. split; [reflexivity|].
    intros F pos HF. destruct F; reflexivity. }
  destruct f as [|f]; [lia|]. rewrite js_inner_none_step.
  destruct (find_quote d) as [i|] eqn:Eq.
  2:{ exists None, [], d. rewrite app_nil_r.
      split; [reflexivity|]. split; [reflexivity|]. split; [constructor|].
      left. split; [reflexivity|]. split; [exact Eq|].
      intros F pos HF. rewrite spans_fl_nil. apply ref_js_noquote. exact Eq. }
  destruct (find_quote_spec d i Eq) as [Hi [Hq [Hsk Hfi]]].
  set (q := nth i d 0%N) in *.
  set (d1 := skipn (S i) d) in *.
  set (hd := firstn (S i) d) in *.
  assert (Hhd : length hd = S i) by (unfold hd; apply firstn_length_le; lia).
  assert (Hdec : d = hd ++ d1) by (unfold hd, d1; symmetry; apply firstn_skipn).
  assert (Hd1 : length d1 + S i = length d) by (unfold d1; rewrite skipn_length; lia).
  assert (Hrq : forall F pos, length d < F ->
             ref_js F pos d = ref_js F (pos + i) (q :: d1)).
  { intros F pos HF. rewrite (ref_js_skip d i F pos Eq HF). rewrite Hsk. reflexivity. }
  destruct (inner_some f d1 q (fl ++ [(hd, false)]) ltac:(lia))
    as [[tk [rest [f' [Hd' [Hne [Hf' [Hjs Href]]]]]]] | [tk [Hd' [Hne [Hjs Href]]]]].
  - (* the string is closed: continue in text mode on rest *)
    assert (Hlr : length rest + length (concat tk) + 1 = length d1).
    { rewrite Hd'. rewrite app_length. cbn [length]. lia. }
    destruct (IHn rest ltac:(lia) f' ((fl ++ [(hd, false)]) ++ tflag tk ++ [([q], false)]) Hf')
      as [instr [add' [rest' [Hjs' [Hc' [Hne' Hcase]]]]]].
    exists instr, ([(hd, false)] ++ tflag tk ++ [([q], false)] ++ add'), rest'.
    split; [|split; [|split]].
    + rewrite Hjs. rewrite Hjs'. rewrite <- !app_assoc. reflexivity.
    + rewrite !fparts_app, fparts_tflag, !concat_app. cbn [fparts map fst concat].
      rewrite app_nil_r. rewrite <- !app_assoc. rewrite Hc'.
      cbn [app]. rewrite <- Hd'. symmetry. exact Hdec.
    + rewrite !fparts_app, fparts_tflag. cbn [fparts map fst].
      apply Forall_app. split.
      { constructor; [|constructor]. intros E. rewrite E in Hhd. discriminate Hhd. }
      apply Forall_app. split; [exact Hne|].
      apply Forall_app. split; [|exact Hne'].
      constructor; [discriminate|constructor].
    + assert (Hrs : forall F pos, length d < F ->
                ref_js F pos d =
                spans_fl (pos + S i) (tflag tk) ++
                ref_js F (pos + S i + length (concat tk) + 1) rest).
      { intros F pos HF. rewrite (Hrq F pos HF).
        rewrite (ref_js_quote_closed q d1 F (pos + i) _ _ _ Hq
                   ltac:(cbn [length]; lia) (Href (S (length d1)) (S (pos + i)) ltac:(lia))).
        replace (S (pos + i)) with (pos + S i) by lia. reflexivity. }
      assert (Hsp : forall pos X,
                spans_fl pos ([(hd, false)] ++ tflag tk ++ [([q], false)] ++ X) =
                spans_fl (pos + S i) (tflag tk) ++
                spans_fl (pos + S i + length (concat tk) + 1) X).
      { intros pos X. cbn [app]. rewrite spans_fl_cons. rewrite Hhd.
        rewrite spans_fl_app. rewrite clen_tflag. cbn [app]. rewrite spans_fl_cons.
        cbn [length]. replace (pos + S i + length (concat tk) + 1)
                        with (pos + S i + length (concat tk) + 1) by lia.
        reflexivity. }
      destruct Hcase as [[Hi1 [Hi2 Hi3]] | [q' [pre [tk' [add1 [Hi1 [Hi2 [Hi3 Hi4]]]]]]]].
      * left. split; [exact Hi1|]. split; [exact Hi2|].
        intros F pos HF. rewrite (Hrs F pos HF). rewrite Hsp.
        rewrite Hi3 by lia. reflexivity.
      * right. exists q', pre, tk', ([(hd, false)] ++ tflag tk ++ [([q], false)] ++ add1).
        split; [exact Hi1|]. split; [exact Hi2|]. split.
        { rewrite Hi3. rewrite <- !app_assoc. reflexivity. }
        intros F pos HF. rewrite (Hrs F pos HF). rewrite Hsp.
        rewrite Hi4 by lia. rewrite <- app_assoc. f_equal. f_equal. f_equal.
        rewrite !clen_app, clen_tflag. cbn [app]. rewrite !clen_cons, clen_nil.
        cbn [length]. lia.
  - (* the data ends inside the string *)
    exists (Some q), ([(hd, false)] ++ tflag tk), [].
    split; [|split; [|split]].
    + rewrite Hjs. rewrite <- !app_assoc. reflexivity.
    + rewrite app_nil_r. rewrite fparts_app, fparts_tflag, concat_app.
      cbn [fparts map fst concat]. rewrite app_nil_r. rewrite <- Hd'. symmetry. exact Hdec.
    + rewrite fparts_app, fparts_tflag. cbn [fparts map fst].
      apply Forall_app. split; [|exact Hne].
      constructor; [|constructor]. intros E. rewrite E in Hhd. discriminate Hhd.
    + right. exists q, (firstn i d), tk, [].
      split; [reflexivity|]. split; [reflexivity|]. split.
      { cbn [app]. rewrite <- Hfi. reflexivity. }
      intros F pos HF. rewrite (Hrq F pos HF).
      rewrite (ref_js_quote_open q d1 F (pos + i) Hq ltac:(cbn [length]; lia)
                 (Href (S (length d1)) (S (pos + i)))).
      rewrite spans_fl_nil, clen_nil. cbn [app]. rewrite <- Hd'.
      rewrite firstn_length_le by lia. f_equal. lia.
Qed.

(* --- the rewind --- *)
Lemma ends_with_byte_snoc : forall pre q, ends_with_byte q (pre ++ [q]) = true.
Proof.
  induction pre as [|a pre IH]; intros q.
  - cbn [app ends_with_byte]. apply N.eqb_refl.
  - cbn [app]. destruct (pre ++ [q]) as [|x l] eqn:E.
    + apply app_eq_nil in E. destruct E as [_ E]. discriminate E.
    + change (ends_with_byte q (a :: x :: l)) with (ends_with_byte q (x :: l)).
      rewrite <- E. apply IH.
Qed.

Lemma find_rewind_spec : forall q C (P : list (list N)) (p : list N) (T : list (list N)),
  ends_with_byte q p = true -> mem_nat (length P) C = false ->
  (forall j, length P < j <= length P + length T -> mem_nat j C = true) ->
  find_rewind q C (rev (P ++ [p] ++ T)) (length P + length T) = Some (length P).
Proof.
  intros q C P p T Hp HP. induction T as [|t T IH] using rev_ind; intros HT.
  - rewrite app_nil_r. rewrite rev_app_distr. cbn [rev app length find_rewind].
    rewrite Nat.add_0_r. rewrite Hp, HP. reflexivity.
  - rewrite !app_assoc. rewrite rev_app_distr. cbn [rev app].
    rewrite app_length. cbn [length].
    replace (length P + (length T + 1)) with (S (length P + length T)) by lia.
    cbn [find_rewind].
    rewrite (HT (S (length P + length T))) by (rewrite app_length; cbn [length]; lia).
    rewrite andb_false_r. rewrite <- app_assoc. apply IH.
    intros j Hj. apply HT. rewrite app_length. cbn [length]. lia.
Qed.

Lemma mem_nat_fchars : forall fl j, mem_nat j (fchars fl) = nth j (fflags fl) false.
Proof. intros fl j. unfold fchars. apply (mem_nat_cidx (fflags fl) 0 j). Qed.

Lemma filter_all {A} (p : A -> bool) : forall l, (forall x, In x l -> p x = true) -> filter p l = l.
Proof.
  induction l as [|x l IH]; intros H; [reflexivity|].
  cbn [filter]. rewrite (H x) by (left; reflexivity). f_equal. apply IH.
  intros y Hy. apply H. right. exact Hy.
Qed.

Lemma filter_none {A} (p : A -> bool) : forall l, (forall x, In x l -> p x = false) -> filter p l = [].
Proof.
  induction l as [|x l IH]; intros H; [reflexivity|].
  cbn [filter]. rewrite (H x) by (left; reflexivity). apply IH.
  intros y Hy. apply H. right. exact Hy.
Qed.

Lemma nth_tflag_flags : forall tk j, j < length tk -> nth j (fflags (tflag tk)) false = true.
Proof.
  induction tk as [|t tk IH]; intros j Hj; [cbn [length] in Hj; lia|].
  destruct j as [|j]; [reflexivity|]. cbn [tflag map fflags snd nth].
  apply IH. cbn [length] in Hj. lia.
Qed.

Lemma rewind_state : forall (X : list (list N * bool)) y q tk,
  snd y = false -> ends_with_byte q (fst y) = true ->
  let full := X ++ [y] ++ tflag tk in
  find_rewind q (fchars full) (rev (fparts full)) (pred (length (fparts full))) = Some (length X) /\
  firstn (S (length X)) (fparts full) = fparts (X ++ [y]) /\
  filter (fun c => Nat.ltb c (length X)) (fchars full) = fchars (X ++ [y]) /\
  concat (skipn (S (length X)) (fparts full)) = concat tk.
Proof.
  intros X [p b] q tk Hb Hp. cbn [fst snd] in Hb, Hp. subst b. cbv zeta.
  split; [|split; [|split]].
  - set (C := fchars (X ++ [(p, false)] ++ tflag tk)).
    rewrite !fparts_app, fparts_tflag. change (fparts [(p, false)]) with [p].
    rewrite !app_length. cbn [length].
    match goal with |- find_rewind _ _ _ ?n = _ =>
      replace n with (length (fparts X) + length tk) by lia end.
    replace (Some (length X)) with (Some (length (fparts X))) by (rewrite fparts_length; reflexivity).
    unfold C.
    apply find_rewind_spec.
    + exact Hp.
    + rewrite fparts_length. rewrite mem_nat_fchars. rewrite fflags_app.
      rewrite app_nth2 by (rewrite fflags_length; lia).
      rewrite fflags_length, Nat.sub_diag. reflexivity.
    + intros j Hj. rewrite fparts_length in Hj. rewrite mem_nat_fchars.
      rewrite fflags_app. rewrite app_nth2 by (rewrite fflags_length; lia).
      rewrite fflags_length. rewrite fflags_app.
      rewrite app_nth2 by (cbn [fflags map length]; lia).
      cbn [fflags map length]. apply nth_tflag_flags. lia.
  - rewrite app_assoc. rewrite fparts_app.
    replace (S (length X)) with (length (fparts (X ++ [(p, false)])))
      by (rewrite fparts_length, app_length; cbn [length]; lia).
    apply firstn_len_app.
  - rewrite fchars_app. rewrite filter_app.
    rewrite filter_all.
    2:{ intros c Hc. apply cidx_bounds in Hc. rewrite fflags_length in Hc.
        apply Nat.ltb_lt. lia. }
    rewrite filter_none.
    2:{ intros c Hc. cbn [app fflags map snd cidx] in Hc. apply cidx_bounds in Hc.
        apply Nat.ltb_ge. lia. }
    rewrite app_nil_r. rewrite fchars_snoc_false. reflexivity.
  - rewrite app_assoc. rewrite fparts_app.
    replace (S (length X)) with (length (fparts (X ++ [(p, false)])))
      by (rewrite fparts_length, app_length; cbn [length]; lia).
    rewrite skipn_len_app. rewrite fparts_tflag. reflexivity.
Qed.

(* --- the outer loop --- *)
Lemma js_outer_S : forall f parts chars d,
  js_outer (S f) parts chars d =
      let '(instr, parts1, chars1, rest) := js_inner (S (length d)) None parts chars d in
      let parts2 := match rest with [] => parts1 | _ => parts1 ++ [rest] end in
      match instr with
      | None => Ok (parts2, chars1)
      | Some q =>
          match find_rewind q chars1 (rev parts2) (pred (length parts2)) with
          | None => Err RuntimeError
          | Some idx =>
              js_outer f (firstn (S idx) parts2)
                       (filter (fun c => Nat.ltb c idx) chars1)
                       (concat (skipn (S idx) parts2))
          end
      end.
Proof. reflexivity. Qed.

Lemma outer_ok : forall n d, length d <= n -> forall f fl, length d < f ->
  exists add,
    js_outer f (fparts fl) (fchars fl) d = Ok (fparts (fl ++ add), fchars (fl ++ add)) /\
    concat (fparts add) = d /\ ne_parts (fparts add) /\
    forall F pos, length d < F -> ref_js F pos d = spans_fl pos add.
Proof.
  induction n as [n IHn] using lt_wf_ind. intros d Hn f fl Hf.
  destruct f as [|f]; [lia|]. rewrite js_outer_S.
  destruct (inner_none (length d) d (le_n _) (S (length d)) fl (Nat.lt_succ_diag_r _))
    as [instr [add [rest [Hjs [Hc [Hne Hcase]]]]]].
  rewrite Hjs.
  destruct Hcase as [[Hi1 [Hi2 Hi3]] | [q [pre [tk [add1 [Hi1 [Hi2 [Hi3 Hi4]]]]]]]].
  - subst instr. destruct rest as [|x rest].
    + exists add. split; [reflexivity|]. rewrite app_nil_r in Hc.
      split; [exact Hc|]. split; [exact Hne|]. exact Hi3.
    + exists (add ++ [(x :: rest, false)]). split; [|split; [|split]].
      * rewrite app_assoc. rewrite fparts_snoc, fchars_snoc_false. reflexivity.
      * rewrite fparts_snoc. rewrite concat_app. cbn [concat]. rewrite app_nil_r. exact Hc.
      * rewrite fparts_snoc. apply Forall_app. split; [exact Hne|].
        constructor; [discriminate|constructor].
      * intros F pos HF. rewrite spans_fl_app. rewrite spans_fl_cons, spans_fl_nil.
        rewrite app_nil_r. apply Hi3. exact HF.
  - subst instr rest. rewrite app_nil_r in Hc.
    assert (Hfull : fl ++ add = (fl ++ add1) ++ [(pre ++ [q], false)] ++ tflag tk).
    { rewrite Hi3. rewrite <- app_assoc. reflexivity. }
    rewrite Hfull.
    destruct (rewind_state (fl ++ add1) (pre ++ [q], false) q tk eq_refl
                (ends_with_byte_snoc pre q)) as [R1 [R2 [R3 R4]]].
    cbv zeta. unfold bytes in *. rewrite R1. cbv iota. rewrite R2, R3, R4.
    assert (Hlen : length (concat tk) < length d).
    { rewrite <- Hc. rewrite Hi3. rewrite !fparts_app, fparts_tflag, !concat_app.
      cbn [fparts map fst concat]. rewrite !app_length. cbn [length]. lia. }
    destruct (IHn (length (concat tk)) ltac:(lia) (concat tk) (le_n _) f
                  ((fl ++ add1) ++ [(pre ++ [q], false)]) ltac:(lia))
      as [add2 [Hjs2 [Hc2 [Hne2 Href2]]]].
    exists (add1 ++ [(pre ++ [q], false)] ++ add2).
    split; [|split; [|split]].
    + rewrite Hjs2. rewrite <- !app_assoc. reflexivity.
    + rewrite <- Hc. rewrite Hi3. rewrite !fparts_app, fparts_tflag, !concat_app.
      rewrite Hc2. reflexivity.
    + rewrite Hi3 in Hne. rewrite !fparts_app in Hne |- *.
      apply Forall_app in Hne. destruct Hne as [Hn1 Hn2].
      apply Forall_app in Hn2. destruct Hn2 as [Hn2 _].
      apply Forall_app. split; [exact Hn1|]. apply Forall_app. split; [exact Hn2|exact Hne2].
    + intros F pos HF. rewrite (Hi4 F pos HF). rewrite spans_fl_app. f_equal.
      cbn [app]. rewrite spans_fl_cons. rewrite app_length. cbn [length].
      rewrite Href2 by lia. f_equal. lia.
Qed.

(* --- header / footer / gap merging --- *)
Definition js_header (parts : list (list N)) (chars : list nat) : list N * list (list N) * list nat :=
    match chars with
    | [] => ([], parts, chars)
    | c0 :: _ =>
        match c0 with
        | O => ([], parts, chars)
        | _ => (concat (firstn c0 parts), skipn c0 parts, map (fun c => (c - c0)%nat) chars)
        end
    end.

Definition js_footer (parts : list (list N)) (chars : list nat) : list (list N) * list N :=
    match chars with
    | [] => (parts, [])
    | _ => let off := S (last chars O) in
           if Nat.ltb off (length parts)
           then (firstn off parts, concat (skipn off parts))
           else (parts, [])
    end.

Definition js_final (parts : list (list N)) (chars : list nat) : res split :=
  let '(before, parts, chars) := js_header parts chars in
  let '(parts, after) := js_footer parts chars in
  let '(parts, chars) := js_gaps (length chars) O parts chars in
  Ok {| sp_before := before; sp_parts := parts;
        sp_red := map (fun i => mem_nat i chars) (seq 0 (length parts));
        sp_after := after |}.

Lemma split_jsstr_unfold : forall d,
  split_jsstr d =
  bind (js_outer (S (length d)) [] [] d) (fun v => let '(parts, chars) := v in js_final parts chars).
Proof. reflexivity. Qed.

(* equivalence of flagged lists up to re-bracketing of unflagged parts *)
Definition fl_equiv (fl fl' : list (list N * bool)) : Prop :=
  concat (fparts fl') = concat (fparts fl) /\
  (forall pos, spans_fl pos fl' = spans_fl pos fl) /\
  (ne_parts (fparts fl) -> ne_parts (fparts fl')).

Lemma fl_equiv_refl : forall fl, fl_equiv fl fl.
Proof. intros fl. split; [reflexivity|]. split; [reflexivity|]. intros H; exact H. Qed.

Lemma fl_equiv_trans : forall a b c, fl_equiv a b -> fl_equiv b c -> fl_equiv a c.
Proof.
  intros a b c [H1 [H2 H3]] [K1 [K2 K3]]. split; [|split].
  - rewrite K1. exact H1.
  - intros pos. rewrite K2. apply H2.
  - intros H. apply K3. apply H3. exact H.
Qed.

Lemma clen_eq : forall a b, concat (fparts a) = concat (fparts b) -> clen a = clen b.
Proof. intros a b H. unfold clen. rewrite H. reflexivity. Qed.

Lemma fl_equiv_ctx : forall A G G' B, fl_equiv G G' -> fl_equiv (A ++ G ++ B) (A ++ G' ++ B).
Proof.
  intros A G G' B [H1 [H2 H3]]. split; [|split].
  - rewrite !fparts_app, !concat_app. rewrite H1. reflexivity.
  - intros pos. rewrite !spans_fl_app. rewrite H2. rewrite (clen_eq G' G H1). reflexivity.
  - rewrite !fparts_app. intros H. apply Forall_app in H. destruct H as [Ha H].
    apply Forall_app in H. destruct H as [Hg Hb].
    apply Forall_app. split; [exact Ha|]. apply Forall_app. split; [apply H3; exact Hg|exact Hb].
Qed.

Lemma concat_ne : forall (ps : list (list N)), ps <> [] -> ne_parts ps -> concat ps <> [].
Proof.
  intros ps Hne Hp. destruct ps as [|p ps]; [congruence|].
  inversion Hp as [|x l Hx Hl]; subst. cbn [concat]. intros E.
  apply app_eq_nil in E. destruct E as [E _]. contradiction.
Qed.

Lemma merge_gap_equiv : forall G, allF G -> G <> [] ->
  fl_equiv G [(concat (fparts G), false)].
Proof.
  intros G HG Hne. split; [|split].
  - cbn [fparts map fst concat]. apply app_nil_r.
  - intros pos. rewrite spans_fl_cons, spans_fl_nil. rewrite allF_spans by exact HG. reflexivity.
  - intros H. cbn [fparts map fst]. constructor; [|constructor].
    apply concat_ne; [|exact H]. intros E. apply Hne.
    destruct G; [reflexivity|discriminate E].
Qed.

(* the first flagged part *)
Lemma first_true : forall fl off c cs, cidx off (fflags fl) = c :: cs ->
  exists G p B, fl = G ++ (p, true) :: B /\ allF G /\ c = off + length G /\
                cs = cidx (S c) (fflags B).
Proof.
  induction fl as [|[p b] fl IH]; intros off c cs H; [discriminate H|].
  cbn [fflags map snd cidx] in H. destruct b.
  - injection H as H1 H2. exists [], p, fl. cbn [app length]. split; [reflexivity|].
    split; [constructor|]. split; [lia|]. subst c. symmetry. exact H2.
  - destruct (IH (S off) c cs H) as [G [p' [B [E1 [E2 [E3 E4]]]]]].
    exists ((p, false) :: G), p', B. cbn [app length]. split; [rewrite E1; reflexivity|].
    split; [constructor; [reflexivity|exact E2]|]. split; [lia|exact E4].
Qed.

(* the last flagged part *)
Lemma last_true : forall fl, fchars fl <> [] ->
  exists M0 p T, fl = M0 ++ (p, true) :: T /\ allF T /\ last (fchars fl) 0 = length M0.
Proof.
  induction fl as [|[p b] fl IH] using rev_ind; intros H; [exfalso; apply H; reflexivity|].
  destruct b.
  - exists fl, p, []. split; [reflexivity|]. split; [constructor|].
    rewrite fchars_snoc_true. rewrite last_last. apply fparts_length.
  - rewrite fchars_snoc_false in H |- *.
    destruct (IH H) as [M0 [p' [T [E1 [E2 E3]]]]].
    exists M0, p', (T ++ [(p, false)]). split; [|split].
    + rewrite E1. rewrite <- app_assoc. reflexivity.
    + apply allF_app; [exact E2|]. constructor; [reflexivity|constructor].
    + exact E3.
Qed.

Lemma js_gaps_S : forall f i parts chars,
  js_gaps (S f) i parts chars =
      if Nat.ltb (S i) (length chars) then
        let c1 := nth i chars O in
        let c2 := nth (S i) chars O in
        if Nat.ltb 2 (c2 - c1) then
          let parts' := firstn (S c1) parts
                        ++ [concat (firstn (c2 - c1 - 1) (skipn (S c1) parts))]
                        ++ skipn c2 parts in
          let off := (c2 - c1 - 2)%nat in
          let chars' := firstn (S i) chars ++ map (fun c => (c - off)%nat) (skipn (S i) chars) in
          js_gaps f (S i) parts' chars'
        else js_gaps f (S i) parts chars
      else (parts, chars).
Proof. reflexivity. Qed.

Lemma gaps_ok : forall f i A0 p B, length (fchars A0) = i ->
  exists fl', js_gaps f i (fparts ((A0 ++ [(p, true)]) ++ B)) (fchars ((A0 ++ [(p, true)]) ++ B))
              = (fparts fl', fchars fl') /\
              fl_equiv ((A0 ++ [(p, true)]) ++ B) fl'.
Proof.
  induction f as [|f IH]; intros i A0 p B Hi.
  { exists ((A0 ++ [(p, true)]) ++ B). split; [reflexivity|apply fl_equiv_refl]. }
  rewrite js_gaps_S.
  set (A := A0 ++ [(p, true)]).
  assert (HlA : length A = S (length A0)) by (unfold A; rewrite app_length; cbn [length]; lia).
  assert (HcA : fchars A = fchars A0 ++ [length A0]).
  { unfold A. rewrite fchars_snoc_true, fparts_length. reflexivity. }
  assert (Hch : fchars (A ++ B) = fchars A0 ++ [length A0] ++ cidx (length A) (fflags B)).
  { rewrite fchars_app, HcA, <- app_assoc. reflexivity. }
  destruct (cidx (length A) (fflags B)) as [|c2 cs] eqn:EB.
  { (* no further flagged part *)
    replace (Nat.ltb (S i) (length (fchars (A ++ B)))) with false.
    - exists (A ++ B). split; [reflexivity|apply fl_equiv_refl].
    - symmetry. apply Nat.ltb_ge. rewrite Hch, !app_length. cbn [length]. lia. }
  destruct (first_true B (length A) c2 cs EB) as [G [p2 [B' [E1 [E2 [E3 E4]]]]]].
  replace (Nat.ltb (S i) (length (fchars (A ++ B)))) with true
    by (symmetry; apply Nat.ltb_lt; rewrite Hch, !app_length; cbn [length]; lia).
  assert (Hn1 : nth i (fchars (A ++ B)) 0 = length A0).
  { rewrite Hch. rewrite app_nth2 by lia. rewrite Hi, Nat.sub_diag. reflexivity. }
  assert (Hn2 : nth (S i) (fchars (A ++ B)) 0 = c2).
  { rewrite Hch. rewrite app_nth2 by lia. rewrite Hi.
    replace (S i - i) with 1 by lia. reflexivity. }
  cbv zeta. rewrite Hn1, Hn2.
  assert (HAB : A ++ B = (A0 ++ [(p, true)] ++ G ++ [(p2, true)]) ++ B').
  { unfold A. rewrite E1. rewrite <- !app_assoc. reflexivity. }
  destruct (Nat.ltb 2 (c2 - length A0)) eqn:Egap.
  - (* merge the gap *)
    apply Nat.ltb_lt in Egap.
    assert (HG : 2 <= length G) by lia.
    set (cG := concat (fparts G)).
    assert (Hparts : firstn (S (length A0)) (fparts (A ++ B)) ++
                     [concat (firstn (c2 - length A0 - 1) (skipn (S (length A0)) (fparts (A ++ B))))] ++
                     skipn c2 (fparts (A ++ B)) =
                     fparts (((A ++ [(cG, false)]) ++ [(p2, true)]) ++ B')).
    { rewrite E1. rewrite !fparts_app.
      replace (S (length A0)) with (length (fparts A)) by (rewrite fparts_length; lia).
      rewrite firstn_len_app, skipn_len_app.
      replace (c2 - length A0 - 1) with (length (fparts G)) by (rewrite fparts_length; lia).
      rewrite firstn_len_app.
      replace c2 with (length (fparts A ++ fparts G))
        by (rewrite app_length, !fparts_length; lia).
      rewrite (app_assoc (fparts A) (fparts G)). rewrite skipn_len_app.
      cbn [fparts map fst app]. rewrite <- !app_assoc. reflexivity. }
    assert (Hchars : firstn (S i) (fchars (A ++ B)) ++
                     map (fun c => c - (c2 - length A0 - 2)) (skipn (S i) (fchars (A ++ B))) =
                     fchars (((A ++ [(cG, false)]) ++ [(p2, true)]) ++ B')).
    { rewrite fchars_app at 1 2. rewrite EB.
      replace (S i) with (length (fchars A)) by (rewrite HcA, app_length; cbn [length]; lia).
      rewrite firstn_len_app, skipn_len_app.
      rewrite <- EB. rewrite E1. rewrite fflags_app, cidx_app.
      rewrite (allF_cidx G _ E2). cbn [app].
      rewrite <- !app_assoc. rewrite fchars_app. f_equal.
      cbn [app fflags map snd cidx]. rewrite fflags_length.
      replace (length A + length G) with (S (length A) + (c2 - length A0 - 2)) by lia.
      cbn [map]. f_equal; [lia|].
      change (S (S (length A) + (c2 - length A0 - 2))) with (S (S (length A)) + (c2 - length A0 - 2)).
      apply cidx_shift. }
    unfold bytes in *. rewrite Hparts, Hchars.
    destruct (IH (S i) (A ++ [(cG, false)]) p2 B') as [fl' [Hjs Heq]].
    { rewrite fchars_snoc_false, HcA, app_length. cbn [length]. lia. }
    exists fl'. split; [exact Hjs|].
    eapply fl_equiv_trans; [|exact Heq].
    rewrite E1. rewrite <- !app_assoc.
    apply (fl_equiv_ctx A G [(cG, false)] ((p2, true) :: B')).
    apply merge_gap_equiv; [exact E2|]. intros E. rewrite E in HG. cbn [length] in HG. lia.
  - (* short gap: nothing to merge *)
    destruct (IH (S i) (A ++ G) p2 B') as [fl' [Hjs Heq]].
    { rewrite fchars_app, (allF_cidx G _ E2), app_nil_r, HcA, app_length. cbn [length]. lia. }
    assert (HAB2 : A ++ B = ((A ++ G) ++ [(p2, true)]) ++ B').
    { rewrite E1. rewrite <- !app_assoc. reflexivity. }
    rewrite HAB2. exists fl'. split; [exact Hjs|exact Heq].
Qed.

Lemma js_header_fl : forall H p0 R, allF H ->
  js_header (fparts (H ++ (p0, true) :: R)) (fchars (H ++ (p0, true) :: R)) =
  (concat (fparts H), fparts ((p0, true) :: R), fchars ((p0, true) :: R)).
Proof.
  intros H p0 R HH.
  assert (Hc : fchars (H ++ (p0, true) :: R) = length H :: cidx (S (length H)) (fflags R)).
  { rewrite fchars_app. unfold fchars. rewrite (allF_cidx H 0 HH). reflexivity. }
  assert (Hu : (concat (firstn (length H) (fparts (H ++ (p0, true) :: R))),
                skipn (length H) (fparts (H ++ (p0, true) :: R)),
                map (fun c => c - length H) (fchars (H ++ (p0, true) :: R))) =
               (concat (fparts H), fparts ((p0, true) :: R), fchars ((p0, true) :: R))).
  { rewrite fparts_app. rewrite <- (fparts_length H).
    rewrite firstn_len_app, skipn_len_app. f_equal.
    rewrite fchars_app. unfold fchars at 1. rewrite (allF_cidx H 0 HH). cbn [app].
    rewrite fparts_length. apply (cidx_shift (fflags ((p0, true) :: R)) 0 (length H)). }
  unfold js_header. rewrite Hc. rewrite <- Hc.
  destruct (length H) as [|k] eqn:Ek; [|exact Hu].
  rewrite <- Hu. cbn [firstn concat skipn]. f_equal.
  rewrite <- (map_id (fchars (H ++ (p0, true) :: R))) at 1.
  apply map_ext. intros c. lia.
Qed.

Lemma js_footer_fl : forall M0 pl T, allF T ->
  js_footer (fparts (M0 ++ (pl, true) :: T)) (fchars (M0 ++ (pl, true) :: T)) =
  (fparts (M0 ++ [(pl, true)]), concat (fparts T)) /\
  fchars (M0 ++ (pl, true) :: T) = fchars (M0 ++ [(pl, true)]).
Proof.
  intros M0 pl T HT.
  assert (Hassoc : M0 ++ (pl, true) :: T = (M0 ++ [(pl, true)]) ++ T)
    by (rewrite <- app_assoc; reflexivity).
  assert (Hc : fchars (M0 ++ (pl, true) :: T) = fchars (M0 ++ [(pl, true)])).
  { rewrite Hassoc. rewrite fchars_app. rewrite (allF_cidx T _ HT). apply app_nil_r. }
  split; [|exact Hc].
  unfold js_footer. rewrite Hc. rewrite fchars_snoc_true.
  destruct (fchars M0 ++ [length (fparts M0)]) as [|x l] eqn:E.
  { apply app_eq_nil in E. destruct E as [_ E]. discriminate E. }
  rewrite <- E. rewrite last_last. cbv zeta. rewrite Hassoc. rewrite fparts_app.
  replace (S (length (fparts M0))) with (length (fparts (M0 ++ [(pl, true)])))
    by (rewrite !fparts_length, app_length; cbn [length]; lia).
  destruct T as [|t T].
  - replace (Nat.ltb _ _) with false.
    + cbn [fparts map concat]. rewrite app_nil_r. reflexivity.
    + symmetry. apply Nat.ltb_ge. cbn [fparts map]. rewrite app_nil_r. lia.
  - replace (Nat.ltb _ _) with true.
    + rewrite firstn_len_app, skipn_len_app. reflexivity.
    + symmetry. apply Nat.ltb_lt. rewrite app_length. cbn [fparts map length]. lia.
Qed.

Lemma red_fl : forall fl,
  map (fun i => mem_nat i (fchars fl)) (seq 0 (length (fparts fl))) = fflags fl.
Proof.
  intros fl. rewrite fparts_length, <- (fflags_length fl). apply (red_of_chars (fflags fl) 0).
Qed.

Lemma js_final_ok : forall fl,
  exists s, js_final (fparts fl) (fchars fl) = Ok s /\
    split_content s = concat (fparts fl) /\
    (ne_parts (fparts fl) -> ne_parts (sp_parts s)) /\
    length (sp_parts s) = length (sp_red s) /\
    spans_of s = spans_fl 0 fl.
Proof.
  intros fl. destruct (fchars fl) as [|c0 cs] eqn:Ec.
  - (* no string token at all *)
    assert (HF : allF fl) by (apply (cidx_nil_allF fl 0); exact Ec).
    unfold js_final, js_header, js_footer. cbn [length js_gaps].
    eexists. split; [reflexivity|].
    unfold split_content, spans_of. cbn [sp_before sp_parts sp_red sp_after].
    split; [|split; [|split]].
    + cbn [app]. apply app_nil_r.
    + intros H; exact H.
    + rewrite map_length, seq_length. reflexivity.
    + rewrite <- Ec. rewrite red_fl. cbn [length]. reflexivity.
  - destruct (first_true fl 0 c0 cs Ec) as [H [p0 [R [E1 [E2 [E3 E4]]]]]].
    assert (HM1 : fchars ((p0, true) :: R) <> []) by (unfold fchars; cbn [fflags map snd cidx]; discriminate).
    destruct (last_true ((p0, true) :: R) HM1) as [M0 [pl [T [F1 [F2 F3]]]]].
    destruct (js_footer_fl M0 pl T F2) as [Hfoot Hfc].
    (* the middle segment starts with the flagged part p0 *)
    assert (HB : exists B, M0 ++ [(pl, true)] = ([] ++ [(p0, true)]) ++ B).
    { destruct M0 as [|x M0'].
      - cbn [app] in F1. injection F1 as F1a F1b. subst pl. exists []. reflexivity.
      - cbn [app] in F1. injection F1 as F1a F1b. subst x. exists (M0' ++ [(pl, true)]). reflexivity. }
    destruct HB as [B HB].
    destruct (gaps_ok (length (fchars (([] ++ [(p0, true)]) ++ B))) 0 [] p0 B eq_refl) as [fl' [Hg [Q1 [Q2 Q3]]]].
    rewrite <- Ec. rewrite E1. unfold js_final. rewrite (js_header_fl H p0 R E2).
    rewrite F1. rewrite Hfoot. rewrite Hfc. rewrite HB. unfold bytes in *. rewrite Hg.
    eexists. split; [reflexivity|].
    unfold split_content, spans_of. cbn [sp_before sp_parts sp_red sp_after].
    assert (Hfl : H ++ M0 ++ (pl, true) :: T = H ++ (([] ++ [(p0, true)]) ++ B) ++ T).
    { rewrite <- HB. rewrite <- !app_assoc. reflexivity. }
    rewrite Hfl.
    split; [|split; [|split]].
    + rewrite Q1. rewrite !fparts_app, !concat_app. reflexivity.
    + rewrite !fparts_app. intros Hn. apply Forall_app in Hn. destruct Hn as [_ Hn].
      apply Forall_app in Hn. destruct Hn as [Hn _]. apply Q3. rewrite !fparts_app. exact Hn.
    + rewrite map_length, seq_length. reflexivity.
    + rewrite red_fl. change (spans_from (length (concat (fparts H))) (fparts fl') (fflags fl'))
        with (spans_fl (clen H) fl').
      rewrite Q2. rewrite !spans_fl_app. rewrite (allF_spans H 0 E2). rewrite (allF_spans T _ F2).
      cbn [app]. rewrite app_nil_r. rewrite <- !spans_fl_app. reflexivity.
Qed.

Lemma split_jsstr_full : forall d,
  exists s, split_jsstr d = Ok s /\
    split_content s = d /\ ne_parts (sp_parts s) /\
    length (sp_parts s) = length (sp_red s) /\
    spans_of s = js_reference d.
Proof.
  intros d. rewrite split_jsstr_unfold.
  destruct (outer_ok (length d) d (le_n _) (S (length d)) [] (Nat.lt_succ_diag_r _))
    as [add [Hjs [Hc [Hne Href]]]].
  assert (Hjs0 : js_outer (S (length d)) [] [] d = Ok (fparts add, fchars add)) by exact Hjs.
  rewrite Hjs0. cbn [bind].
  destruct (js_final_ok add) as [s [Hs [S1 [S2 [S3 S4]]]]].
  exists s. split; [exact Hs|]. split; [rewrite S1; exact Hc|].
  split; [apply S2; exact Hne|]. split; [exact S3|].
  rewrite S4. unfold js_reference. symmetry. apply Href. lia.
Qed.

Lemma split_jsstr_ok : splitter_ok split_jsstr /\ (forall d e, split_jsstr d = Err e -> False).
Proof.
  split.
  - intros d s Hs. destruct (split_jsstr_full d) as [s' [Hs' [S1 [S2 [S3 _]]]]].
    rewrite Hs in Hs'. injection Hs' as Hs'. subst s'.
    split; [exact S1|]. split; [exact S2|exact S3].
  - intros d e Hs. destruct (split_jsstr_full d) as [s' [Hs' _]].
    rewrite Hs in Hs'. discriminate Hs'.
Qed.

Lemma split_jsstr_reference : forall d s, split_jsstr d = Ok s -> spans_of s = js_reference d.
Proof.
  intros d s Hs. destruct (split_jsstr_full d) as [s' [Hs' [_ [_ [_ S4]]]]].
  rewrite Hs in Hs'. injection Hs' as Hs'. subst s'. exact S4.
Qed.

(* ------------------------------------------------------------------------------------ *)
(* 4. split_attrs: every reducible atom is a complete attribute inside a tag            *)
(* ------------------------------------------------------------------------------------ *)

Lemma run_le : forall p (l : list N), run p l <= length l.
Proof.
  induction l as [|b r IH]; [cbn; lia|]. cbn [run length]. destruct (p b); lia.
Qed.

Lemma run_firstn : forall p (l : list N), forallb p (firstn (run p l) l) = true.
Proof.
  induction l as [|b r IH]; [reflexivity|]. cbn [run]. destruct (p b) eqn:E; [|reflexivity].
  cbn [firstn forallb]. rewrite E, IH. reflexivity.
Qed.

Lemma run_skipn_head : forall p (l : list N) x r, skipn (run p l) l = x :: r -> p x = false.
Proof.
  induction l as [|b l IH]; intros x r H; [discriminate H|].
  cbn [run] in H. destruct (p b) eqn:E.
  - cbn [skipn] in H. apply IH in H. exact H.
  - cbn [skipn] in H. injection H as H1 H2. subst x. exact E.
Qed.

Lemma run_app_stop : forall p (a b : list N), forallb p a = true ->
  (forall x r, b = x :: r -> p x = false) -> run p (a ++ b) = length a.
Proof.
  induction a as [|y a IH]; intros b Ha Hb.
  - cbn [app length]. destruct b as [|x r]; [reflexivity|].
    cbn [run]. rewrite (Hb x r eq_refl). reflexivity.
  - cbn [forallb] in Ha. apply andb_prop in Ha. destruct Ha as [H1 H2].
    cbn [app run length]. rewrite H1. rewrite IH by assumption. reflexivity.
Qed.

Lemma alpha_not_ws : forall b, is_alpha b = true -> is_ws b = false.
Proof.
  intros b H. unfold is_ws. repeat rewrite orb_false_iff.
  repeat split; apply N.eqb_neq; intros E; subst b; discriminate H.
Qed.

Lemma alpha_not_gt : forall b, is_alpha b = true -> (b =? 62)%N = false.
Proof. intros b H. apply N.eqb_neq. intros E. subst b. discriminate H. Qed.

Lemma tagchar_not_gt : forall b, is_tagchar b = true -> (b =? 62)%N = false.
Proof. intros b H. apply N.eqb_neq. intros E. subst b. discriminate H. Qed.

Definition shape_tail (tail : list N) : bool :=
  match tail with
  | [] => true
  | e :: v =>
      (e =? 61)%N &&
      match v with
      | q :: body =>
          if ((q =? 39) || (q =? 34))%N then
            match rev body with
            | c :: ibody => (c =? q)%N && forallb (fun x => negb (x =? q)%N) ibody
            | [] => false
            end
          else forallb (fun x => negb (is_ws x || (x =? 62)%N)) v
      | [] => true
      end
  end.

Lemma attr_shape_intro : forall ws b name tail,
  forallb is_ws ws = true -> is_alpha b = true -> forallb is_namechar name = true ->
  (forall x r, tail = x :: r -> is_namechar x = false) ->
  attr_shape (ws ++ b :: name ++ tail) = shape_tail tail.
Proof.
  intros ws b name tail Hws Hb Hname Htail. unfold attr_shape. cbv zeta.
  rewrite (run_app_stop is_ws ws (b :: name ++ tail) Hws).
  2:{ intros x r E. injection E as E1 E2. subst x. apply alpha_not_ws. exact Hb. }
  rewrite skipn_len_app. rewrite Hb. cbn [andb].
  rewrite (run_app_stop is_namechar name tail Hname Htail).
  rewrite skipn_len_app. reflexivity.
Qed.

Lemma a1_at_spec : forall ls d n, a1_at ls d = Some n ->
  exists ws b name t r',
    d = ws ++ b :: name ++ t :: r' /\
    forallb is_ws ws = true /\ is_alpha b = true /\ forallb is_namechar name = true /\
    is_namechar t = false /\
    firstn n d = ws ++ b :: name ++ [t] /\
    firstn (n - 1) d = ws ++ b :: name /\
    skipn n d = r'.
Proof.
  intros ls d n H. unfold a1_at in H. cbv zeta in H.
  destruct (Nat.eqb (run is_ws d) 0 && negb ls); [discriminate H|].
  destruct (skipn (run is_ws d) d) as [|b r] eqn:E1; [discriminate H|].
  destruct (is_alpha b) eqn:Hb; [|discriminate H].
  destruct (skipn (run is_namechar r) r) as [|t r'] eqn:E2; [discriminate H|].
  destruct ((t =? 61)%N || (t =? 62)%N || is_ws t); [|discriminate H].
  injection H as H.
  set (ws := firstn (run is_ws d) d) in *.
  set (name := firstn (run is_namechar r) r) in *.
  assert (Hd : d = ws ++ b :: name ++ t :: r').
  { rewrite <- (firstn_skipn (run is_ws d) d) at 1. fold ws. rewrite E1.
    rewrite <- (firstn_skipn (run is_namechar r) r) at 1. fold name. rewrite E2. reflexivity. }
  assert (Hlw : length ws = run is_ws d) by (apply firstn_length_le; apply run_le).
  assert (Hln : length name = run is_namechar r) by (apply firstn_length_le; apply run_le).
  exists ws, b, name, t, r'.
  split; [exact Hd|]. split; [apply run_firstn|]. split; [exact Hb|].
  split; [apply run_firstn|]. split; [apply (run_skipn_head _ _ _ _ E2)|].
  assert (Hd1 : d = (ws ++ b :: name ++ [t]) ++ r').
  { rewrite Hd at 1. rewrite <- !app_assoc. cbn [app]. rewrite <- !app_assoc. reflexivity. }
  assert (Hd2 : d = (ws ++ b :: name) ++ t :: r').
  { rewrite Hd at 1. rewrite <- !app_assoc. reflexivity. }
  assert (Hn1 : n = length (ws ++ b :: name ++ [t])).
  { rewrite app_length. cbn [length]. rewrite app_length. cbn [length]. lia. }
  assert (Hn2 : n - 1 = length (ws ++ b :: name)).
  { rewrite app_length. cbn [length]. lia. }
  split; [|split].
  - rewrite Hn1. rewrite Hd1 at 1. apply firstn_len_app.
  - rewrite Hn2. rewrite Hd2 at 1. apply firstn_len_app.
  - rewrite Hn1. rewrite Hd1 at 1. apply skipn_len_app.
Qed.

Lemma find_byte_spec : forall p (d : list N) i, find_byte p d = Some i ->
  exists x, firstn (S i) d = firstn i d ++ [x] /\ p x = true /\
            forallb (fun y => negb (p y)) (firstn i d) = true.
Proof.
  induction d as [|b r IH]; intros i H; [discriminate H|].
  cbn [find_byte] in H. destruct (p b) eqn:E.
  - injection H as H. subst i. exists b. split; [reflexivity|]. split; [exact E|reflexivity].
  - destruct (find_byte p r) as [i'|] eqn:Er; [|discriminate H].
    cbn [option_map] in H. injection H as H. subst i.
    destruct (IH i' eq_refl) as [x [H1 [H2 H3]]]. exists x. split; [|split].
    + change (firstn (S (S i')) (b :: r)) with (b :: firstn (S i') r). rewrite H1. reflexivity.
    + exact H2.
    + cbn [firstn forallb]. rewrite E, H3. reflexivity.
Qed.

Lemma forallb_rev {A} (f : A -> bool) : forall l, forallb f (rev l) = forallb f l.
Proof.
  induction l as [|x l IH]; [reflexivity|].
  cbn [rev]. rewrite forallb_app, IH. cbn [forallb]. rewrite andb_true_r. apply andb_comm.
Qed.

Lemma last_snoc : forall (l : list N) x, last (l ++ [x]) 0%N = x.
Proof. intros l x. apply last_last. Qed.

Lemma namechar_61 : is_namechar 61 = false.
Proof. reflexivity. Qed.

Lemma shape_valueless : forall ls d n, a1_at ls d = Some n -> attr_shape (firstn (n - 1) d) = true.
Proof.
  intros ls d n H.
  destruct (a1_at_spec ls d n H) as [ws [b [name [t [r' [Hd [Hws [Hb [Hname [Ht [F1 [F2 F3]]]]]]]]]]]].
  rewrite F2. rewrite <- (app_nil_r name).
  rewrite (attr_shape_intro ws b name [] Hws Hb Hname); [reflexivity|].
  intros x r E. discriminate E.
Qed.

Lemma shape_quoted : forall ls d n q d2 i,
  a1_at ls d = Some n -> (last (firstn n d) 0 =? 61)%N = true -> skipn n d = q :: d2 ->
  ((q =? 39) || (q =? 34))%N = true -> find_byte (fun b => (b =? q)%N) d2 = Some i ->
  attr_shape (firstn n d ++ [q] ++ firstn (S i) d2) = true.
Proof.
  intros ls d n q d2 i H Hl Hs Hq Hf.
  destruct (a1_at_spec ls d n H) as [ws [b [name [t [r' [Hd [Hws [Hb [Hname [Ht [F1 [F2 F3]]]]]]]]]]]].
  rewrite F1 in Hl |- *.
  replace (ws ++ b :: name ++ [t]) with ((ws ++ b :: name) ++ [t]) in Hl
    by (rewrite <- app_assoc; reflexivity).
  rewrite last_snoc in Hl. apply N.eqb_eq in Hl. subst t.
  destruct (find_byte_spec _ d2 i Hf) as [x [G1 [G2 G3]]].
  apply N.eqb_eq in G2. subst x.
  replace ((ws ++ b :: name ++ [61%N]) ++ [q] ++ firstn (S i) d2)
    with (ws ++ b :: name ++ (61%N :: q :: firstn (S i) d2))
    by (rewrite <- !app_assoc; cbn [app]; rewrite <- !app_assoc; reflexivity).
  rewrite (attr_shape_intro ws b name _ Hws Hb Hname).
  2:{ intros x r E. injection E as E1 E2. subst x. reflexivity. }
  unfold shape_tail. rewrite Hq. rewrite G1. rewrite rev_unit.
  rewrite forallb_rev. rewrite G3. rewrite !N.eqb_refl. reflexivity.
Qed.

Lemma shape_unquoted : forall ls d n q d2 i,
  a1_at ls d = Some n -> (last (firstn n d) 0 =? 61)%N = true -> skipn n d = q :: d2 ->
  ((q =? 39) || (q =? 34))%N = false ->
  find_byte (fun b => is_ws b || (b =? 62)%N) (q :: d2) = Some i ->
  attr_shape (firstn n d ++ firstn i (q :: d2)) = true.
Proof.
  intros ls d n q d2 i H Hl Hs Hq Hf.
  destruct (a1_at_spec ls d n H) as [ws [b [name [t [r' [Hd [Hws [Hb [Hname [Ht [F1 [F2 F3]]]]]]]]]]]].
  rewrite F1 in Hl |- *.
  replace (ws ++ b :: name ++ [t]) with ((ws ++ b :: name) ++ [t]) in Hl
    by (rewrite <- app_assoc; reflexivity).
  rewrite last_snoc in Hl. apply N.eqb_eq in Hl. subst t.
  destruct (find_byte_spec _ (q :: d2) i Hf) as [x [G1 [G2 G3]]].
  replace ((ws ++ b :: name ++ [61%N]) ++ firstn i (q :: d2))
    with (ws ++ b :: name ++ (61%N :: firstn i (q :: d2)))
    by (rewrite <- !app_assoc; cbn [app]; rewrite <- !app_assoc; reflexivity).
  rewrite (attr_shape_intro ws b name _ Hws Hb Hname).
  2:{ intros y r E. injection E as E1 E2. subst y. reflexivity. }
  unfold shape_tail. change (61 =? 61)%N with true. cbn [andb].
  destruct i as [|i]; [reflexivity|].
  cbn [firstn] in G3 |- *. rewrite Hq. exact G3.
Qed.

(* non-reducible parts *)
Lemma ends_gt_snoc : forall (l : list N) x, ends_gt (l ++ [x]) = (x =? 62)%N.
Proof. intros l x. unfold ends_gt. rewrite rev_unit. reflexivity. Qed.

Lemma ends_gt_forall : forall (l l' : list N),
  forallb (fun x => negb (x =? 62)%N) l' = true -> l' <> [] -> ends_gt (l ++ l') = false.
Proof.
  intros l l' Hf Hne. destruct (exists_last Hne) as [l0 [x E]]. subst l'.
  rewrite forallb_app in Hf. apply andb_prop in Hf. destruct Hf as [_ Hf].
  cbn [forallb] in Hf. rewrite andb_true_r in Hf. apply negb_true_iff in Hf.
  rewrite app_assoc. rewrite ends_gt_snoc. exact Hf.
Qed.

Lemma a2_none_head : forall x (l : list N), a2_at (x :: l) = None -> (x =? 62)%N = false.
Proof.
  intros x l H. destruct (x =? 62)%N eqn:E; [|reflexivity].
  apply N.eqb_eq in E. subst x. discriminate H.
Qed.

Lemma attr_search_from_spec : forall d prev pos p k n,
  attr_search_from prev pos d = Some (p, k, n) ->
  pos <= p < pos + length d /\ forall j, j < p - pos -> a2_at (skipn j d) = None.
Proof.
  induction d as [|b r IH]; intros prev pos p k n H; [discriminate H|].
  cbn [attr_search_from] in H.
  destruct (a1_at (prev =? 10)%N (b :: r)) as [n1|].
  { injection H as H1 H2 H3. subst p. cbn [length]. split; [lia|]. intros j Hj. lia. }
  destruct (a2_at (b :: r)) as [n2|] eqn:E2.
  { injection H as H1 H2 H3. subst p. cbn [length]. split; [lia|]. intros j Hj. lia. }
  apply IH in H. destruct H as [H1 H2]. cbn [length]. split; [lia|].
  intros j Hj. destruct j as [|j]; [exact E2|]. cbn [skipn]. apply H2. lia.
Qed.

Lemma nth_split_firstn : forall (l : list N) j, j < length l ->
  firstn (S j) l = firstn j l ++ [nth j l 0%N] /\ skipn j l = nth j l 0%N :: skipn (S j) l.
Proof.
  induction l as [|b r IH]; intros j Hj; [cbn [length] in Hj; lia|].
  destruct j as [|j]; [split; reflexivity|].
  cbn [length] in Hj. destruct (IH j ltac:(lia)) as [H1 H2]. split.
  - change (firstn (S (S j)) (b :: r)) with (b :: firstn (S j) r). rewrite H1. reflexivity.
  - exact H2.
Qed.

Lemma junk_not_gt : forall d p k n,
  attr_match d = None -> attr_search d = Some (p, k, n) -> ends_gt (firstn p d) = false.
Proof.
  intros d p k n Hm Hs. unfold attr_match in Hm.
  destruct (a1_at true d); [discriminate Hm|].
  destruct (a2_at d) eqn:E2; [discriminate Hm|].
  unfold attr_search in Hs. destruct d as [|b r]; [discriminate Hs|].
  apply attr_search_from_spec in Hs. destruct Hs as [H1 H2].
  assert (Hall : forall j, j < p -> a2_at (skipn j (b :: r)) = None).
  { intros j Hj. destruct j as [|j]; [exact E2|]. cbn [skipn]. apply H2. lia. }
  destruct p as [|p']; [lia|].
  assert (Hp : p' < length (b :: r)) by (cbn [length]; lia).
  destruct (nth_split_firstn (b :: r) p' Hp) as [F1 F2].
  rewrite F1. rewrite ends_gt_snoc.
  specialize (Hall p' ltac:(lia)). rewrite F2 in Hall. apply a2_none_head in Hall. exact Hall.
Qed.

Lemma firstn_add : forall j n (d : list N), firstn (j + n) d = firstn j d ++ firstn n (skipn j d).
Proof.
  induction j as [|j IH]; intros n d; [reflexivity|].
  destruct d as [|b r].
  - cbn [plus firstn skipn app]. destruct n; reflexivity.
  - cbn [plus firstn skipn app]. rewrite IH. reflexivity.
Qed.

Lemma tag_search_spec : forall d pos e, tag_search pos d = Some e ->
  exists j n, e = pos + j + n /\ tag_at (skipn j d) = Some n.
Proof.
  induction d as [|c r IH]; intros pos e H; [discriminate H|].
  cbn [tag_search] in H. destruct (tag_at (c :: r)) as [n|] eqn:E.
  - injection H as H. exists 0, n. split; [lia|exact E].
  - apply IH in H. destruct H as [j [n [H1 H2]]]. exists (S j), n. split; [lia|exact H2].
Qed.

Lemma forallb_impl {A} (f g : A -> bool) : forall l, (forall x, f x = true -> g x = true) ->
  forallb f l = true -> forallb g l = true.
Proof.
  induction l as [|x l IH]; intros H Hf; [reflexivity|].
  cbn [forallb] in *. apply andb_prop in Hf. destruct Hf as [H1 H2].
  rewrite (H x H1), (IH H H2). reflexivity.
Qed.

Lemma firstn_eq_app : forall k (r a b : list N), r = a ++ b -> k = length a -> firstn k r = a.
Proof. intros k r a b H1 H2. subst. apply firstn_len_app. Qed.

Lemma tag_at_firstn : forall s n, tag_at s = Some n ->
  tag_at (firstn n s) = Some n /\ length (firstn n s) = n /\
  firstn n s <> [] /\ forall l, ends_gt (l ++ firstn n s) = false.
Proof.
  intros s n H. unfold tag_at in H. destruct s as [|c r]; [discriminate H|].
  destruct (c =? 60)%N eqn:Ec; [|discriminate H]. cbv zeta in H.
  destruct (skipn (run is_ws r) r) as [|b r2] eqn:E1; [discriminate H|].
  destruct (is_alpha b) eqn:Hb; [|discriminate H]. injection H as H.
  set (ws := firstn (run is_ws r) r) in *.
  set (tg := firstn (run is_tagchar r2) r2) in *.
  assert (Hlw : length ws = run is_ws r) by (apply firstn_length_le; apply run_le).
  assert (Hlt : length tg = run is_tagchar r2) by (apply firstn_length_le; apply run_le).
  assert (Hr : r = (ws ++ b :: tg) ++ skipn (run is_tagchar r2) r2).
  { rewrite <- (firstn_skipn (run is_ws r) r) at 1. fold ws. rewrite E1.
    rewrite <- (firstn_skipn (run is_tagchar r2) r2) at 1. fold tg.
    rewrite <- app_assoc. reflexivity. }
  assert (Hf : firstn n (c :: r) = c :: ws ++ b :: tg).
  { subst n. change (1 + run is_ws r + 1 + run is_tagchar r2) with (S (run is_ws r + 1 + run is_tagchar r2)).
    cbn [firstn]. f_equal.
    apply (firstn_eq_app _ _ _ (skipn (run is_tagchar r2) r2) Hr).
    rewrite app_length. cbn [length]. lia. }
  rewrite Hf. split; [|split; [|split]].
  - unfold tag_at. rewrite Ec. cbv zeta.
    rewrite (run_app_stop is_ws ws (b :: tg) (run_firstn _ _)).
    2:{ intros x r0 E. injection E as E3 E4. subst x. apply alpha_not_ws. exact Hb. }
    rewrite skipn_len_app. rewrite Hb.
    rewrite <- (app_nil_r tg) at 1.
    rewrite (run_app_stop is_tagchar tg [] (run_firstn _ _)).
    2:{ intros x r0 E. discriminate E. }
    f_equal. lia.
  - cbn [length]. rewrite app_length. cbn [length]. lia.
  - discriminate.
  - intros l.
    replace (l ++ c :: ws ++ b :: tg) with ((l ++ c :: ws) ++ b :: tg)
      by (rewrite <- app_assoc; reflexivity).
    apply ends_gt_forall; [|discriminate].
    cbn [forallb]. rewrite (alpha_not_gt b Hb). cbn [negb andb].
    apply (forallb_impl is_tagchar); [|apply run_firstn].
    intros x Hx. rewrite (tagchar_not_gt x Hx). reflexivity.
Qed.

Lemma opens_tag_suffix : forall (pre s : list N),
  s <> [] -> tag_at s = Some (length s) -> opens_tag (pre ++ s) = true.
Proof.
  induction pre as [|a pre IH]; intros s Hne Ht.
  - cbn [app]. destruct s as [|x s']; [congruence|].
    cbn [opens_tag]. rewrite Ht. rewrite Nat.eqb_refl. reflexivity.
  - cbn [app opens_tag]. rewrite (IH s Hne Ht). apply orb_true_r.
Qed.

Lemma tag_part : forall d e, tag_search 0 d = Some e ->
  opens_tag (firstn e d) = true /\ ends_gt (firstn e d) = false.
Proof.
  intros d e H. apply tag_search_spec in H. destruct H as [j [n [H1 H2]]].
  cbn [plus] in H1. subst e. rewrite firstn_add.
  destruct (tag_at_firstn _ n H2) as [T1 [T2 [T3 T4]]].
  split.
  - apply opens_tag_suffix; [exact T3|]. rewrite T2. exact T1.
  - apply T4.
Qed.

(* the walk invariant, in continuation form *)
Definition walk_inv (in_tag : bool) (parts : list (list N)) (red : list bool) : Prop :=
  exists b, (in_tag = true -> b = true) /\
    forall qs ss, attrs_walk b qs ss = true -> attrs_walk false (parts ++ qs) (red ++ ss) = true.

Lemma walk_step_red : forall parts red x, walk_inv true parts red -> attr_shape x = true ->
  walk_inv true (parts ++ [x]) (red ++ [true]).
Proof.
  intros parts red x [b [Hb Hk]] Hx. rewrite (Hb eq_refl) in Hk.
  exists true. split; [reflexivity|]. intros qs ss H.
  rewrite <- !app_assoc. apply Hk. cbn [app attrs_walk]. rewrite Hx, H. reflexivity.
Qed.

Lemma walk_step_skip : forall parts red x, walk_inv true parts red -> ends_gt x = false ->
  walk_inv true (parts ++ [x]) (red ++ [false]).
Proof.
  intros parts red x [b [Hb Hk]] Hx. rewrite (Hb eq_refl) in Hk.
  exists true. split; [reflexivity|]. intros qs ss H.
  rewrite <- !app_assoc. apply Hk. cbn [app attrs_walk]. rewrite Hx. exact H.
Qed.

Lemma walk_step_any : forall it parts red x, walk_inv it parts red ->
  walk_inv false (parts ++ [x]) (red ++ [false]).
Proof.
  intros it parts red x [b [Hb Hk]].
  exists (if b then negb (ends_gt x) else opens_tag x). split; [discriminate|].
  intros qs ss H. rewrite <- !app_assoc. apply Hk. cbn [app attrs_walk].
  destruct b; exact H.
Qed.

Lemma walk_step_tag : forall parts red x, walk_inv false parts red ->
  opens_tag x = true -> ends_gt x = false -> walk_inv true (parts ++ [x]) (red ++ [false]).
Proof.
  intros parts red x [b [Hb Hk]] Ho He.
  exists true. split; [reflexivity|]. intros qs ss H.
  rewrite <- !app_assoc. apply Hk. cbn [app attrs_walk]. rewrite Ho, He.
  destruct b; exact H.
Qed.

Lemma walk_weaken : forall it parts red, walk_inv it parts red -> walk_inv false parts red.
Proof.
  intros it parts red [b [Hb Hk]]. exists b. split; [discriminate|exact Hk].
Qed.

Lemma walk_final : forall it parts red, walk_inv it parts red -> attrs_walk false parts red = true.
Proof.
  intros it parts red [b [Hb Hk]]. specialize (Hk [] []). rewrite !app_nil_r in Hk.
  apply Hk. reflexivity.
Qed.

Lemma attr_match_A1 : forall d n, attr_match d = Some (A1, n) -> a1_at true d = Some n.
Proof.
  intros d n H. unfold attr_match in H. destruct (a1_at true d) as [n1|].
  - injection H as H. subst n1. reflexivity.
  - destruct (a2_at d); discriminate H.
Qed.

Lemma attrs_loop_walk : forall fuel (in_tag : bool) parts red d parts' red',
  attrs_loop fuel in_tag parts red d = Ok (parts', red') ->
  walk_inv in_tag parts red -> attrs_walk false parts' red' = true.
Proof.
  induction fuel as [|f IH]; intros in_tag parts red d parts' red' HL Hinv; [discriminate HL|].
  destruct d as [|b r].
  { cbn [attrs_loop] in HL. injection HL as H1 H2. subst. apply (walk_final _ _ _ Hinv). }
  rewrite attrs_loop_unfold in HL. cbv zeta in HL.
  set (d := b :: r) in *.
  destruct in_tag.
  - destruct (attr_match d) as [[[|] n]|] eqn:Em.
    + (* A1 *)
      pose proof (attr_match_A1 d n Em) as Ha.
      destruct (negb (last (firstn n d) 0%N =? 61)%N) eqn:El.
      * apply (IH _ _ _ _ _ _ HL). apply walk_step_red; [exact Hinv|].
        apply (shape_valueless true d n Ha).
      * apply negb_false_iff in El.
        destruct (skipn n d) as [|q d2] eqn:Es.
        { apply (IH _ _ _ _ _ _ HL). apply (walk_weaken _ _ _ Hinv). }
        destruct ((q =? 39) || (q =? 34))%N eqn:Eq.
        -- destruct (find_byte (fun b0 => (b0 =? q)%N) d2) as [i|] eqn:Ef.
           ++ apply (IH _ _ _ _ _ _ HL). apply walk_step_red; [exact Hinv|].
              apply (shape_quoted true d n q d2 i Ha El Es Eq Ef).
           ++ apply (IH _ _ _ _ _ _ HL). apply (walk_weaken _ _ _ Hinv).
        -- destruct (find_byte (fun b0 => is_ws b0 || (b0 =? 62)%N) (q :: d2)) as [i|] eqn:Ef.
           ++ apply (IH _ _ _ _ _ _ HL). apply walk_step_red; [exact Hinv|].
              apply (shape_unquoted true d n q d2 i Ha El Es Eq Ef).
           ++ apply (IH _ _ _ _ _ _ HL). apply (walk_weaken _ _ _ Hinv).
    + (* A2 *)
      apply (IH _ _ _ _ _ _ HL). apply (walk_step_any _ _ _ _ Hinv).
    + destruct (attr_search d) as [[[p [|]] n]|] eqn:Es.
      * apply (IH _ _ _ _ _ _ HL). apply walk_step_skip; [exact Hinv|].
        apply (junk_not_gt d p A1 n Em Es).
      * apply (IH _ _ _ _ _ _ HL). apply (walk_step_any _ _ _ _ Hinv).
      * apply (IH _ _ _ _ _ _ HL). apply (walk_weaken _ _ _ Hinv).
  - destruct (tag_search 0 d) as [e|] eqn:Et.
    + apply (IH _ _ _ _ _ _ HL). destruct (tag_part d e Et) as [T1 T2].
      apply walk_step_tag; assumption.
    + injection HL as H1 H2. subst.
      apply (walk_final false). apply (walk_step_any _ _ _ _ Hinv).
Qed.

Lemma split_attrs_walk : forall d s, split_attrs d = Ok s ->
  attrs_walk false (sp_parts s) (sp_red s) = true.
Proof.
  intros d s Hs. unfold split_attrs in Hs.
  destruct (attrs_loop (2 * length d + 2) false [] [] d) as [[parts red]|e] eqn:EL;
    [|discriminate Hs].
  cbn [bind] in Hs. injection Hs as Hs. subst s. cbn [sp_parts sp_red].
  apply (attrs_loop_walk _ _ _ _ _ _ _ EL).
  exists false. split; [discriminate|]. intros qs ss H. exact H.
Qed.
