(* Proofs for C16: the JS-string tokenizer and the attribute splitter.
   Every lemma used by Props/C16.v is here. *)
From Coq Require Import ZArith NArith List Bool Lia ZifyBool Arith.
From Lithium Require Import PyBase TcRecord Markers SplitJs SplitAttrs SplitSpec Spec16.
Import ListNotations.
Local Open Scope nat_scope.

(* ------------------------------------------------------------------------------------ *)
(* generic list facts                                                                   *)
(* ------------------------------------------------------------------------------------ *)

Lemma firstn_ne {A} : forall n (d : list A), 1 <= n -> d <> [] -> firstn n d <> [].
Proof.
  intros n d Hn Hd. destruct n as [|n]; [lia|]. destruct d as [|a d]; [congruence|].
  cbn [firstn]. discriminate.
Qed.

Lemma skipn_shorter {A} : forall n (d : list A), 1 <= n -> d <> [] -> length (skipn n d) < length d.
Proof.
  intros n d Hn Hd. rewrite skipn_length. destruct d as [|a d]; [congruence|]. cbn [length]. lia.
Qed.

Lemma concat_snoc16 : forall (ls : list bytes) (l : bytes), concat (ls ++ [l]) = concat ls ++ l.
Proof.
  intros ls l. rewrite concat_app. cbn [concat]. rewrite app_nil_r. reflexivity.
Qed.

Lemma Forall_snoc {A} (P : A -> Prop) : forall l x, Forall P l -> P x -> Forall P (l ++ [x]).
Proof.
  intros l x Hl Hx. apply Forall_app. split; [exact Hl|]. constructor; [exact Hx|constructor].
Qed.

(* ------------------------------------------------------------------------------------ *)
(* 1. tok_len                                                                           *)
(* ------------------------------------------------------------------------------------ *)

Lemma hex_prefix_len : forall n l, hex_prefix n l = true -> n <= length l.
Proof.
  induction n as [|n IH]; intros l H; [lia|].
  destruct l as [|b r]; [discriminate H|].
  cbn [hex_prefix] in H. apply andb_prop in H. destruct H as [_ H]. apply IH in H.
  cbn [length]. lia.
Qed.

Lemma braced_len : forall l n, braced l = Some n -> n <= length l.
Proof.
  intros l n H. unfold braced in H.
  destruct l as [|c r]; [discriminate H|].
  destruct (c =? 123)%N; [|discriminate H].
  destruct (hexrun r) as [|k] eqn:Ek; [discriminate H|].
  destruct (nth_error r (S k)) as [e|] eqn:En; [|discriminate H].
  destruct (e =? 125)%N; [|discriminate H].
  injection H as H. subst n.
  assert (Hlt : S k < length r) by (apply nth_error_Some; congruence).
  cbn [length]. lia.
Qed.

Lemma tok_len_bounds : forall d, d <> [] -> 1 <= tok_len d <= length d.
Proof.
  intros d Hd. destruct d as [|b0 r0]; [congruence|].
  unfold tok_len. destruct (b0 =? 92)%N; [|cbn [length]; lia].
  destruct r0 as [|b1 r1]; [cbn [length]; lia|].
  destruct ((b1 =? 117)%N && hex_prefix 4 r1) eqn:E1.
  { apply andb_prop in E1. destruct E1 as [_ E1]. apply hex_prefix_len in E1. cbn [length]. lia. }
  destruct ((b1 =? 120)%N && hex_prefix 2 r1) eqn:E2.
  { apply andb_prop in E2. destruct E2 as [_ E2]. apply hex_prefix_len in E2. cbn [length]. lia. }
  destruct (b1 =? 117)%N; [|cbn [length]; lia].
  destruct (braced r1) as [n|] eqn:E3; [|cbn [length]; lia].
  apply braced_len in E3. cbn [length]. lia.
Qed.

Lemma hexrun_app : forall hs r, forallb is_hex hs = true ->
  hexrun (hs ++ 125%N :: r) = length hs.
Proof.
  induction hs as [|h hs IH]; intros r H.
  - reflexivity.
  - cbn [forallb] in H. apply andb_prop in H. destruct H as [H1 H2].
    cbn [app hexrun length]. rewrite H1. rewrite IH by exact H2. reflexivity.
Qed.

Lemma nth_error_mid {A} : forall (hs : list A) x r, nth_error (hs ++ x :: r) (length hs) = Some x.
Proof.
  induction hs as [|h hs IH]; intros x r; [reflexivity|]. cbn [app length nth_error]. apply IH.
Qed.

Lemma tok_len_cases :
  forall d, d <> [] ->
    (1 <= tok_len d <= length d)%nat /\
    (forall r, d = 92%N :: r -> r <> [] -> (2 <= tok_len d)%nat) /\
    (forall h1 h2 r, d = 92%N :: 120%N :: h1 :: h2 :: r -> is_hex h1 = true -> is_hex h2 = true ->
        tok_len d = 4%nat) /\
    (forall h1 h2 h3 h4 r, d = 92%N :: 117%N :: h1 :: h2 :: h3 :: h4 :: r ->
        is_hex h1 = true -> is_hex h2 = true -> is_hex h3 = true -> is_hex h4 = true ->
        tok_len d = 6%nat) /\
    (forall hs r, d = 92%N :: 117%N :: 123%N :: hs ++ 125%N :: r -> hs <> [] ->
        forallb is_hex hs = true -> tok_len d = (4 + length hs)%nat).
Proof.
  intros d Hd. split; [apply tok_len_bounds; exact Hd|]. split; [|split; [|split]].
  - intros r E Hr. subst d. unfold tok_len. change (92 =? 92)%N with true. cbv iota.
    destruct r as [|b1 r1]; [congruence|].
    destruct ((b1 =? 117)%N && hex_prefix 4 r1); [lia|].
    destruct ((b1 =? 120)%N && hex_prefix 2 r1); [lia|].
    destruct (b1 =? 117)%N; [|lia].
    destruct (braced r1); lia.
  - intros h1 h2 r E H1 H2. subst d. unfold tok_len.
    change (92 =? 92)%N with true. change (120 =? 117)%N with false.
    change (120 =? 120)%N with true. cbn [andb hex_prefix]. rewrite H1, H2. reflexivity.
  - intros h1 h2 h3 h4 r E H1 H2 H3 H4. subst d. unfold tok_len.
    change (92 =? 92)%N with true. change (117 =? 117)%N with true.
    cbn [andb hex_prefix]. rewrite H1, H2, H3, H4. reflexivity.
  - intros hs r E Hne Hh. subst d. unfold tok_len.
    change (92 =? 92)%N with true. change (117 =? 117)%N with true.
    change (117 =? 120)%N with false.
    cbn [andb hex_prefix]. change (is_hex 123) with false. cbn [andb].
    unfold braced. change (123 =? 123)%N with true. cbv iota.
    rewrite hexrun_app by exact Hh.
    destruct hs as [|h hs']; [congruence|].
    rewrite nth_error_mid. change (125 =? 125)%N with true. cbv iota.
    cbn [length]. lia.
Qed.

(* ------------------------------------------------------------------------------------ *)
(* 2. split_attrs: tiling, non-empty atoms, no internal error                           *)
(* ------------------------------------------------------------------------------------ *)

Lemma a1_at_ge2 : forall ls d n, a1_at ls d = Some n -> 2 <= n.
Proof.
  intros ls d n H. unfold a1_at in H.
  destruct (Nat.eqb (run is_ws d) 0 && negb ls); [discriminate H|].
  destruct (skipn (run is_ws d) d) as [|b r]; [discriminate H|].
  destruct (is_alpha b); [|discriminate H].
  destruct (skipn (run is_namechar r) r) as [|t r']; [discriminate H|].
  destruct ((t =? 61)%N || (t =? 62)%N || is_ws t); [|discriminate H].
  injection H as H. lia.
Qed.

Lemma a2_at_ge1 : forall d n, a2_at d = Some n -> 1 <= n.
Proof.
  intros d n H. unfold a2_at in H.
  destruct (skipn (run is_ws d) d) as [|t r]; [discriminate H|].
  destruct (t =? 62)%N; [|discriminate H]. injection H as H. lia.
Qed.

Lemma attr_search_from_ge : forall d prev pos p k n,
  attr_search_from prev pos d = Some (p, k, n) -> pos <= p.
Proof.
  induction d as [|b r IH]; intros prev pos p k n H; [discriminate H|].
  cbn [attr_search_from] in H.
  destruct (a1_at (prev =? 10)%N (b :: r)) as [n1|].
  { injection H as H1 H2 H3. lia. }
  destruct (a2_at (b :: r)) as [n2|].
  { injection H as H1 H2 H3. lia. }
  apply IH in H. lia.
Qed.

Lemma attr_search_ge1 : forall d p k n, attr_search d = Some (p, k, n) -> 1 <= p.
Proof.
  intros d p k n H. unfold attr_search in H. destruct d as [|b r]; [discriminate H|].
  apply attr_search_from_ge in H. exact H.
Qed.

Lemma tag_at_ge2 : forall d n, tag_at d = Some n -> 2 <= n.
Proof.
  intros d n H. unfold tag_at in H. destruct d as [|c r]; [discriminate H|].
  destruct (c =? 60)%N; [|discriminate H].
  destruct (skipn (run is_ws r) r) as [|b r2]; [discriminate H|].
  destruct (is_alpha b); [|discriminate H]. injection H as H. lia.
Qed.

Lemma tag_search_ge : forall d pos e, tag_search pos d = Some e -> pos + 2 <= e.
Proof.
  induction d as [|c r IH]; intros pos e H; [discriminate H|].
  cbn [tag_search] in H. destruct (tag_at (c :: r)) as [n|] eqn:E.
  - apply tag_at_ge2 in E. injection H as H. lia.
  - apply IH in H. lia.
Qed.

Definition ne_parts (ps : list bytes) : Prop := Forall (fun p : bytes => p <> []) ps.

Definition attrs_post (parts : list bytes) (red : list bool) (d : bytes)
           (L : res (list bytes * list bool)) : Prop :=
  exists parts' red', L = Ok (parts', red') /\
    concat parts' = concat parts ++ d /\
    (ne_parts parts -> ne_parts parts') /\
    (length parts = length red -> length parts' = length red').

Lemma attrs_post_step : forall parts red d x r d' L,
  attrs_post (parts ++ [x]) (red ++ [r]) d' L -> x ++ d' = d -> x <> [] ->
  attrs_post parts red d L.
Proof.
  intros parts red d x r d' L [parts' [red' [HL [Hc [Hn Hl]]]]] Hx Hne.
  exists parts', red'. split; [exact HL|]. split; [|split].
  - rewrite Hc. rewrite (concat_snoc16 parts x). rewrite <- app_assoc. rewrite Hx. reflexivity.
  - intros Hp. apply Hn. apply Forall_snoc; assumption.
  - intros Hp. apply Hl. rewrite !app_length. cbn [length]. lia.
Qed.

Lemma attrs_loop_unfold : forall f in_tag parts red b r,
  attrs_loop (S f) in_tag parts red (b :: r) =
  let d := b :: r in
          if in_tag then
            match attr_match d with
            | None =>
                match attr_search d with
                | Some (p, A1, _) =>
                    attrs_loop f true (parts ++ [firstn p d]) (red ++ [false]) (skipn p d)
                | Some (p, A2, n) =>
                    attrs_loop f false (parts ++ [firstn (p + n) d]) (red ++ [false])
                               (skipn (p + n) d)
                | None => attrs_loop f false parts red d
                end
            | Some (A2, n) =>
                attrs_loop f false (parts ++ [firstn n d]) (red ++ [false]) (skipn n d)
            | Some (A1, n) =>
                let g := firstn n d in
                if negb (last g 0%N =? 61)%N then
                  attrs_loop f true (parts ++ [firstn (n - 1) d]) (red ++ [true])
                             (skipn (n - 1) d)
                else
                  let d1 := skipn n d in
                  match d1 with
                  | q :: d2 =>
                      if ((q =? 39) || (q =? 34))%N then
                        match find_byte (fun b => (b =? q)%N) d2 with
                        | None => attrs_loop f false parts red d
                        | Some i =>
                            attrs_loop f true (parts ++ [g ++ [q] ++ firstn (S i) d2])
                                       (red ++ [true]) (skipn (S i) d2)
                        end
                      else
                        match find_byte (fun b => is_ws b || (b =? 62)%N) d1 with
                        | None => attrs_loop f false parts red d
                        | Some i =>
                            attrs_loop f true (parts ++ [g ++ firstn i d1]) (red ++ [true])
                                       (skipn i d1)
                        end
                  | [] => attrs_loop f false parts red d
                  end
            end
          else
            match tag_search 0 d with
            | None => Ok (parts ++ [d], red ++ [false])
            | Some e => attrs_loop f true (parts ++ [firstn e d]) (red ++ [false]) (skipn e d)
            end.
Proof. reflexivity. Qed.

Lemma attr_match_ge : forall d k n, attr_match d = Some (k, n) ->
  1 <= n /\ (k = A1 -> 2 <= n).
Proof.
  intros d k n H. unfold attr_match in H.
  destruct (a1_at true d) as [n1|] eqn:E1.
  - injection H as H1 H2. subst. apply a1_at_ge2 in E1. split; [lia|intros _; lia].
  - destruct (a2_at d) as [n2|] eqn:E2; [|discriminate H].
    injection H as H1 H2. subst. apply a2_at_ge1 in E2. split; [lia|intros E; discriminate E].
Qed.

Lemma attrs_loop_ok : forall fuel (in_tag : bool) parts red d,
  2 * length d + (if in_tag then 1 else 0) + 1 <= fuel ->
  attrs_post parts red d (attrs_loop fuel in_tag parts red d).
Proof.
  induction fuel as [|f IH]; intros in_tag parts red d Hf; [lia|].
  destruct d as [|b r].
  { cbn [attrs_loop]. exists parts, red. split; [reflexivity|].
    split; [rewrite app_nil_r; reflexivity|]. split; intros H; exact H. }
  rewrite attrs_loop_unfold. cbv zeta.
  set (d := b :: r) in *.
  assert (Hd : d <> []) by (unfold d; discriminate).
  assert (Hlen : 1 <= length d) by (unfold d; cbn [length]; lia).
  destruct in_tag.
  - destruct (attr_match d) as [[[|] n]|] eqn:Em.
    + (* A1 *)
      apply attr_match_ge in Em. destruct Em as [_ Hn]. specialize (Hn eq_refl).
      destruct (negb (last (firstn n d) 0%N =? 61)%N).
      * apply attrs_post_step with (x := firstn (n - 1) d) (r := true) (d' := skipn (n - 1) d).
        -- apply IH. assert (Hk : 1 <= (n - 1)) by lia. pose proof (skipn_shorter (n - 1) d Hk Hd). lia.
        -- apply firstn_skipn.
        -- apply firstn_ne; [lia|exact Hd].
      * destruct (skipn n d) as [|q d2] eqn:Es.
        { apply IH. lia. }
        assert (Hl2 : length d2 + 1 + n = length d).
        { apply (f_equal (@length N)) in Es. rewrite skipn_length in Es. cbn [length] in Es. lia. }
        destruct ((q =? 39) || (q =? 34))%N.
        -- destruct (find_byte (fun b0 => (b0 =? q)%N) d2) as [i|].
           ++ apply attrs_post_step with (x := firstn n d ++ [q] ++ firstn (S i) d2) (r := true)
                                         (d' := skipn (S i) d2).
              ** apply IH. rewrite skipn_length. lia.
              ** rewrite <- !app_assoc. rewrite firstn_skipn.
                 change ([q] ++ d2) with (q :: d2). rewrite <- Es. apply firstn_skipn.
              ** intros E. apply app_eq_nil in E. destruct E as [_ E]. discriminate E.
           ++ apply IH. lia.
        -- destruct (find_byte (fun b0 => is_ws b0 || (b0 =? 62)%N) (q :: d2)) as [i|].
           ++ apply attrs_post_step with (x := firstn n d ++ firstn i (q :: d2)) (r := true)
                                         (d' := skipn i (q :: d2)).
              ** apply IH. rewrite skipn_length. cbn [length]. lia.
              ** rewrite <- app_assoc. rewrite firstn_skipn. rewrite <- Es. apply firstn_skipn.
              ** intros E. apply app_eq_nil in E. destruct E as [E _].
                 revert E. apply firstn_ne; [lia|exact Hd].
           ++ apply IH. lia.
    + (* A2 *)
      apply attr_match_ge in Em. destruct Em as [Hn _].
      apply attrs_post_step with (x := firstn n d) (r := false) (d' := skipn n d).
      * apply IH. pose proof (skipn_shorter n d Hn Hd). lia.
      * apply firstn_skipn.
      * apply firstn_ne; [lia|exact Hd].
    + destruct (attr_search d) as [[[p [|]] n]|] eqn:Es.
      * apply attr_search_ge1 in Es.
        apply attrs_post_step with (x := firstn p d) (r := false) (d' := skipn p d).
        -- apply IH. pose proof (skipn_shorter p d Es Hd). lia.
        -- apply firstn_skipn.
        -- apply firstn_ne; [lia|exact Hd].
      * apply attr_search_ge1 in Es.
        apply attrs_post_step with (x := firstn (p + n) d) (r := false) (d' := skipn (p + n) d).
        -- apply IH. assert (Hk : 1 <= (p + n)) by lia. pose proof (skipn_shorter (p + n) d Hk Hd). lia.
        -- apply firstn_skipn.
        -- apply firstn_ne; [lia|exact Hd].
      * apply IH. lia.
  - destruct (tag_search 0 d) as [e|] eqn:Et.
    + apply tag_search_ge in Et.
      apply attrs_post_step with (x := firstn e d) (r := false) (d' := skipn e d).
      * apply IH. assert (Hk : 1 <= e) by lia. pose proof (skipn_shorter e d Hk Hd). lia.
      * apply firstn_skipn.
      * apply firstn_ne; [lia|exact Hd].
    + exists (parts ++ [d]), (red ++ [false]). split; [reflexivity|]. split; [|split].
      * apply concat_snoc16.
      * intros Hp. apply Forall_snoc; assumption.
      * intros Hp. rewrite !app_length. cbn [length]. lia.
Qed.

Lemma split_attrs_ok : splitter_ok split_attrs /\ (forall d e, split_attrs d = Err e -> False).
Proof.
  assert (Hmain : forall d, attrs_post [] [] d (attrs_loop (2 * length d + 2) false [] [] d)).
  { intros d. apply attrs_loop_ok. lia. }
  split.
  - intros d s Hs. unfold split_attrs in Hs.
    destruct (Hmain d) as [parts' [red' [HL [Hc [Hn Hl]]]]].
    rewrite HL in Hs. cbn [bind] in Hs. injection Hs as Hs. subst s.
    unfold split_content. cbn [sp_before sp_parts sp_red sp_after].
    split; [|split].
    + rewrite app_nil_r. cbn [app]. rewrite Hc. reflexivity.
    + apply Hn. constructor.
    + apply Hl. reflexivity.
  - intros d e Hs. unfold split_attrs in Hs.
    destruct (Hmain d) as [parts' [red' [HL _]]].
    rewrite HL in Hs. cbn [bind] in Hs. discriminate Hs.
Qed.

(* ------------------------------------------------------------------------------------ *)
(* 3./5. split_jsstr                                                                    *)
(* ------------------------------------------------------------------------------------ *)
(* The (parts, chars) state of the tokenizer is represented by a list of flagged parts:  *)
(* parts = map fst, chars = the indices of the parts flagged true.                       *)

Definition fparts (fl : list (bytes * bool)) : list bytes := map fst fl.
Definition fflags (fl : list (bytes * bool)) : list bool := map snd fl.

Fixpoint cidx (off : nat) (bs : list bool) : list nat :=
  match bs with
  | [] => []
  | b :: r => if b then off :: cidx (S off) r else cidx (S off) r
  end.

Definition fchars (fl : list (bytes * bool)) : list nat := cidx 0 (fflags fl).
Definition tflag (tk : list bytes) : list (bytes * bool) := map (fun t => (t, true)) tk.
Definition clen (fl : list (bytes * bool)) : nat := length (concat (fparts fl)).
Definition spans_fl (pos : nat) (fl : list (bytes * bool)) : list (nat * nat) :=
  spans_from pos (fparts fl) (fflags fl).
Definition allF (fl : list (bytes * bool)) : Prop := Forall (fun x => snd x = false) fl.

Lemma fparts_app : forall a b, fparts (a ++ b) = fparts a ++ fparts b.
Proof. intros a b. apply map_app. Qed.
Lemma fflags_app : forall a b, fflags (a ++ b) = fflags a ++ fflags b.
Proof. intros a b. apply map_app. Qed.
Lemma fparts_length : forall a, length (fparts a) = length a.
Proof. intros a. apply map_length. Qed.
Lemma fflags_length : forall a, length (fflags a) = length a.
Proof. intros a. apply map_length. Qed.
Lemma fparts_tflag : forall tk, fparts (tflag tk) = tk.
Proof.
  induction tk as [|t tk IH]; [reflexivity|].
  unfold fparts, tflag in *. cbn [map fst]. rewrite IH. reflexivity.
Qed.
Lemma tflag_length : forall tk, length (tflag tk) = length tk.
Proof. intros tk. apply map_length. Qed.

Lemma cidx_app : forall a b off, cidx off (a ++ b) = cidx off a ++ cidx (off + length a) b.
Proof.
  induction a as [|x a IH]; intros b off.
  - cbn [app cidx length]. rewrite Nat.add_0_r. reflexivity.
  - cbn [app cidx length]. rewrite IH.
    replace (S off + length a) with (off + S (length a)) by lia.
    destruct x; reflexivity.
Qed.

Lemma fchars_app : forall a b, fchars (a ++ b) = fchars a ++ cidx (length a) (fflags b).
Proof.
  intros a b. unfold fchars. rewrite fflags_app, cidx_app. rewrite fflags_length. reflexivity.
Qed.

Lemma fchars_snoc_true : forall fl t, fchars (fl ++ [(t, true)]) = fchars fl ++ [length (fparts fl)].
Proof. intros fl t. rewrite fchars_app. rewrite fparts_length. reflexivity. Qed.

Lemma fchars_snoc_false : forall fl t, fchars (fl ++ [(t, false)]) = fchars fl.
Proof. intros fl t. rewrite fchars_app. cbn [fflags map snd cidx]. apply app_nil_r. Qed.

Lemma fparts_snoc : forall fl t b, fparts (fl ++ [(t, b)]) = fparts fl ++ [t].
Proof. intros fl t b. rewrite fparts_app. reflexivity. Qed.

Lemma cidx_bounds : forall bs off c, In c (cidx off bs) -> off <= c < off + length bs.
Proof.
  induction bs as [|b bs IH]; intros off c H; [contradiction|].
  cbn [cidx] in H. cbn [length].
  destruct b.
  - destruct H as [H|H]; [lia|]. apply IH in H. lia.
  - apply IH in H. lia.
Qed.

Lemma cidx_shift : forall bs off k, map (fun c => c - k) (cidx (off + k) bs) = cidx off bs.
Proof.
  induction bs as [|b bs IH]; intros off k; [reflexivity|].
  cbn [cidx]. destruct b.
  - cbn [map]. replace (off + k - k) with off by lia.
    change (S (off + k)) with (S off + k). rewrite IH. reflexivity.
  - change (S (off + k)) with (S off + k). apply IH.
Qed.

Lemma allF_cidx : forall fl off, allF fl -> cidx off (fflags fl) = [].
Proof.
  induction fl as [|[p b] fl IH]; intros off H; [reflexivity|].
  inversion H as [|x l Hb Hr]; subst. cbn [snd] in Hb. subst b.
  cbn [fflags map snd cidx]. apply IH. exact Hr.
Qed.

Lemma cidx_nil_allF : forall fl off, cidx off (fflags fl) = [] -> allF fl.
Proof.
  induction fl as [|[p b] fl IH]; intros off H; [constructor|].
  cbn [fflags map snd cidx] in H. destruct b; [discriminate H|].
  constructor; [reflexivity|]. apply IH with (off := S off). exact H.
Qed.

Lemma allF_app : forall a b, allF a -> allF b -> allF (a ++ b).
Proof. intros a b Ha Hb. apply Forall_app. split; assumption. Qed.

(* spans *)
Lemma spans_fl_nil : forall pos, spans_fl pos [] = [].
Proof. reflexivity. Qed.

Lemma spans_fl_cons : forall pos p b fl,
  spans_fl pos ((p, b) :: fl) =
  if b then (pos, pos + length p) :: spans_fl (pos + length p) fl
  else spans_fl (pos + length p) fl.
Proof. reflexivity. Qed.

Lemma clen_nil : clen [] = 0.
Proof. reflexivity. Qed.
Lemma clen_cons : forall p b fl, clen ((p, b) :: fl) = length p + clen fl.
Proof. intros p b fl. unfold clen. cbn [fparts map fst concat]. apply app_length. Qed.
Lemma clen_app : forall a b, clen (a ++ b) = clen a + clen b.
Proof.
  intros a b. unfold clen. rewrite fparts_app, concat_app, app_length. reflexivity.
Qed.
Lemma clen_tflag : forall tk, clen (tflag tk) = length (concat tk).
Proof. intros tk. unfold clen. rewrite fparts_tflag. reflexivity. Qed.

Lemma spans_fl_app : forall a b pos,
  spans_fl pos (a ++ b) = spans_fl pos a ++ spans_fl (pos + clen a) b.
Proof.
  induction a as [|[p f] a IH]; intros b pos.
  - cbn [app]. rewrite spans_fl_nil, clen_nil, Nat.add_0_r. reflexivity.
  - cbn [app]. rewrite !spans_fl_cons, clen_cons, IH.
    replace (pos + length p + clen a) with (pos + (length p + clen a)) by lia.
    destruct f; reflexivity.
Qed.

Lemma allF_spans : forall fl pos, allF fl -> spans_fl pos fl = [].
Proof.
  induction fl as [|[p b] fl IH]; intros pos H; [reflexivity|].
  inversion H as [|x l Hb Hr]; subst. cbn [snd] in Hb. subst b.
  rewrite spans_fl_cons. apply IH. exact Hr.
Qed.

(* mem_nat on index lists *)
Lemma mem_nat_In : forall l x, mem_nat x l = true <-> In x l.
Proof.
  induction l as [|y l IH]; intros x; cbn [mem_nat In].
  - split; [discriminate|contradiction].
  - rewrite orb_true_iff, Nat.eqb_eq, IH. split; intros [H|H]; auto.
Qed.

Lemma mem_nat_cidx_lt : forall bs off j, j < off -> mem_nat j (cidx off bs) = false.
Proof.
  intros bs off j Hj. destruct (mem_nat j (cidx off bs)) eqn:E; [|reflexivity].
  apply mem_nat_In in E. apply cidx_bounds in E. lia.
Qed.

Lemma mem_nat_cidx : forall bs off j, mem_nat (off + j) (cidx off bs) = nth j bs false.
Proof.
  induction bs as [|b bs IH]; intros off j.
  - destruct j; reflexivity.
  - destruct j as [|j].
    + rewrite Nat.add_0_r. cbn [cidx nth]. destruct b.
      * cbn [mem_nat]. rewrite Nat.eqb_refl. reflexivity.
      * apply mem_nat_cidx_lt. lia.
    + cbn [nth]. replace (off + S j) with (S off + j) by lia. cbn [cidx].
      destruct b.
      * cbn [mem_nat]. rewrite IH.
        replace (Nat.eqb (S off + j) off) with false; [reflexivity|].
        symmetry. apply Nat.eqb_neq. lia.
      * apply IH.
Qed.

Lemma red_of_chars : forall bs off,
  map (fun i => mem_nat i (cidx off bs)) (seq off (length bs)) = bs.
Proof.
  induction bs as [|b bs IH]; intros off; [reflexivity|].
  cbn [length seq map]. f_equal.
  - pose proof (mem_nat_cidx (b :: bs) off 0) as H. rewrite Nat.add_0_r in H. exact H.
  - rewrite <- (IH (S off)) at 2. apply map_ext_in. intros i Hi. apply in_seq in Hi.
    cbn [cidx]. destruct b; [|reflexivity].
    cbn [mem_nat]. replace (Nat.eqb i off) with false; [reflexivity|].
    symmetry. apply Nat.eqb_neq. lia.
Qed.

Lemma firstn_len_app {A} : forall (a b : list A), firstn (length a) (a ++ b) = a.
Proof.
  intros a b. replace (length a) with (length a + 0) by lia.
  rewrite firstn_app_2. cbn [firstn]. apply app_nil_r.
Qed.

Lemma skipn_len_app {A} : forall (a b : list A), skipn (length a) (a ++ b) = b.
Proof.
  induction a as [|x a IH]; intros b; [reflexivity|]. cbn [length app skipn]. apply IH.
Qed.

(* --- one-step unfoldings of js_inner on flagged lists --- *)
Lemma js_inner_some_step : forall f q fl b r,
  js_inner (S f) (Some q) (fparts fl) (fchars fl) (b :: r) =
  let d := b :: r in
  let tok := firstn (tok_len d) d in
  if bytes_eqb tok [q]
  then js_inner f None (fparts (fl ++ [(tok, false)])) (fchars (fl ++ [(tok, false)]))
                (skipn (tok_len d) d)
  else js_inner f (Some q) (fparts (fl ++ [(tok, true)])) (fchars (fl ++ [(tok, true)]))
                (skipn (tok_len d) d).
Proof.
  intros f q fl b r. cbv zeta.
  rewrite !fparts_snoc, fchars_snoc_true, fchars_snoc_false. reflexivity.
Qed.

Lemma js_inner_none_step : forall f fl d,
  js_inner (S f) None (fparts fl) (fchars fl) d =
  match find_quote d with
  | None => (None, fparts fl, fchars fl, d)
  | Some i => js_inner f (Some (nth i d 0%N))
                       (fparts (fl ++ [(firstn (S i) d, false)]))
                       (fchars (fl ++ [(firstn (S i) d, false)])) (skipn (S i) d)
  end.
Proof.
  intros f fl d. rewrite fparts_snoc. cbn [js_inner].
  destruct (find_quote d) as [i|]; [|reflexivity].
  rewrite fchars_snoc_false. reflexivity.
Qed.

Lemma close_test : forall b r q,
  bytes_eqb (firstn (tok_len (b :: r)) (b :: r)) [q] =
  Nat.eqb (tok_len (b :: r)) 1 && (b =? q)%N.
Proof.
  intros b r q.
  assert (Hb : 1 <= tok_len (b :: r) <= length (b :: r)) by (apply tok_len_bounds; discriminate).
  destruct (tok_len (b :: r)) as [|[|n]]; [lia| |].
  - cbn [firstn bytes_eqb Nat.eqb]. destruct (b =? q)%N; reflexivity.
  - cbn [length] in Hb. destruct r as [|x r]; [cbn [length] in Hb; lia|].
    cbn [firstn bytes_eqb Nat.eqb]. destruct (b =? q)%N; reflexivity.
Qed.

(* --- facts about the reference tokenizer --- *)
Lemma ref_string_rest : forall f q pos d sp e rest,
  ref_string f q pos d = Some (sp, e, rest) -> length rest < length d.
Proof.
  induction f as [|f IH]; intros q pos d sp e rest H; [discriminate H|].
  destruct d as [|b r]; [discriminate H|].
  cbn [ref_string] in H.
  assert (Hb : 1 <= tok_len (b :: r) <= length (b :: r)) by (apply tok_len_bounds; discriminate).
  destruct (Nat.eqb (tok_len (b :: r)) 1 && (b =? q)%N).
  - injection H as H1 H2 H3. subst rest. cbn [skipn length]. lia.
  - destruct (ref_string f q (pos + tok_len (b :: r)) (skipn (tok_len (b :: r)) (b :: r)))
      as [[[sp' e'] rest']|] eqn:E; [|discriminate H].
    injection H as H1 H2 H3. subst rest'. apply IH in E. rewrite skipn_length in E. lia.
Qed.

Lemma ref_js_fuel : forall F1 F2 pos d, length d < F1 -> length d < F2 ->
  ref_js F1 pos d = ref_js F2 pos d.
Proof.
  induction F1 as [|F1 IH]; intros F2 pos d H1 H2; [lia|].
  destruct F2 as [|F2]; [lia|].
  destruct d as [|b r]; [reflexivity|].
  cbn [ref_js]. cbn [length] in H1, H2.
  destruct (is_quote b).
  - destruct (ref_string (S (length r)) b (S pos) r) as [[[sp e] rest]|] eqn:E.
    + apply ref_string_rest in E. f_equal. apply IH; lia.
    + apply IH; lia.
  - apply IH; lia.
Qed.

Lemma ref_js_noquote : forall d F pos, find_quote d = None -> ref_js F pos d = [].
Proof.
  induction d as [|b r IH]; intros F pos H; [destruct F; reflexivity|].
  cbn [find_quote] in H. destruct (is_quote b) eqn:Eb; [discriminate H|].
  destruct (find_quote r) as [i|] eqn:Er; [discriminate H|].
  destruct F as [|F]; [reflexivity|]. cbn [ref_js]. rewrite Eb. apply IH. reflexivity.
Qed.

Lemma ref_js_skip : forall d i F pos, find_quote d = Some i -> length d < F ->
  ref_js F pos d = ref_js F (pos + i) (skipn i d).
Proof.
  induction d as [|b r IH]; intros i F pos H HF; [discriminate H|].
  cbn [find_quote] in H. destruct (is_quote b) eqn:Eb.
  - injection H as H. subst i. rewrite Nat.add_0_r. reflexivity.
  - destruct (find_quote r) as [i'|] eqn:Er; [|discriminate H].
    cbn [option_map] in H. injection H as H. subst i.
    destruct F as [|F]; [lia|]. cbn [length] in HF.
    cbn [ref_js skipn]. rewrite Eb.
    rewrite (IH i' F (S pos) eq_refl) by lia.
    replace (S pos + i') with (pos + S i') by lia.
    apply ref_js_fuel; rewrite skipn_length; lia.
Qed.

Lemma ref_js_quote_closed : forall q r F pos sp e rest,
  is_quote q = true -> length (q :: r) < F ->
  ref_string (S (length r)) q (S pos) r = Some (sp, e, rest) ->
  ref_js F pos (q :: r) = sp ++ ref_js F e rest.
Proof.
  intros q r F pos sp e rest Hq HF E.
  destruct F as [|F]; [lia|]. cbn [length] in HF.
  cbn [ref_js]. rewrite Hq, E. f_equal.
  apply ref_string_rest in E. apply ref_js_fuel; lia.
Qed.

Lemma ref_js_quote_open : forall q r F pos,
  is_quote q = true -> length (q :: r) < F ->
  ref_string (S (length r)) q (S pos) r = None ->
  ref_js F pos (q :: r) = ref_js F (S pos) r.
Proof.
  intros q r F pos Hq HF E.
  destruct F as [|F]; [lia|]. cbn [length] in HF.
  cbn [ref_js]. rewrite Hq, E. apply ref_js_fuel; lia.
Qed.

Lemma find_quote_spec : forall d i, find_quote d = Some i ->
  i < length d /\ is_quote (nth i d 0%N) = true /\
  skipn i d = nth i d 0%N :: skipn (S i) d /\
  firstn (S i) d = firstn i d ++ [nth i d 0%N].
Proof.
  induction d as [|b r IH]; intros i H; [discriminate H|].
  cbn [find_quote] in H. destruct (is_quote b) eqn:Eb.
  - injection H as H. subst i. cbn [length nth skipn firstn app].
    split; [lia|]. split; [exact Eb|]. split; reflexivity.
  - destruct (find_quote r) as [i'|] eqn:Er; [|discriminate H].
    cbn [option_map] in H. injection H as H. subst i.
    destruct (IH i' eq_refl) as [H1 [H2 [H3 H4]]].
    cbn [length nth]. split; [lia|]. split; [exact H2|]. split.
    + exact H3.
    + change (firstn (S (S i')) (b :: r)) with (b :: firstn (S i') r).
      rewrite H4. reflexivity.
Qed.

(* --- the string-mode scan --- *)
Lemma inner_some : forall f d q fl, length d < f ->
  (exists tk rest f', d = concat tk ++ q :: rest /\ ne_parts tk /\ length rest < f' /\
      js_inner f (Some q) (fparts fl) (fchars fl) d =
      js_inner f' None (fparts (fl ++ tflag tk ++ [([q], false)]))
                       (fchars (fl ++ tflag tk ++ [([q], false)])) rest /\
      (forall F pos, length d < F ->
         ref_string F q pos d =
         Some (spans_fl pos (tflag tk), pos + length (concat tk) + 1, rest)))
  \/
  (exists tk, d = concat tk /\ ne_parts tk /\
      js_inner f (Some q) (fparts fl) (fchars fl) d =
      (Some q, fparts (fl ++ tflag tk), fchars (fl ++ tflag tk), []) /\
      (forall F pos, ref_string F q pos d = None)).
Proof.
  induction f as [|f IH]; intros d q fl Hf; [lia|].
  destruct d as [|b r].
  { right. exists []. split; [reflexivity|]. split; [constructor|]. split.
    - cbn [tflag map]. rewrite app_nil_r. reflexivity.
    - intros F pos. destruct F; reflexivity. }
  rewrite js_inner_some_step. cbv zeta. rewrite close_test.
  set (d := b :: r) in *.
  assert (Hd : d <> []) by (unfold d; discriminate).
  pose proof (tok_len_bounds d Hd) as Hb.
  set (n := tok_len d) in *.
  assert (Hsk : length (skipn n d) < length d) by (apply skipn_shorter; [lia|exact Hd]).
  destruct (Nat.eqb n 1 && (b =? q)%N) eqn:Ec.
  - (* closing quote *)
    apply andb_prop in Ec. destruct Ec as [En Eb].
    apply Nat.eqb_eq in En. apply N.eqb_eq in Eb.
    left. exists [], (skipn n d), f.
    assert (Htok : firstn n d = [q]).
    { rewrite En. unfold d. cbn [firstn]. rewrite Eb. reflexivity. }
    split; [|split; [|split; [|split]]].
    + cbn [concat app]. rewrite <- (firstn_skipn n d) at 1. rewrite Htok. reflexivity.
    + constructor.
    + lia.
    + rewrite Htok. reflexivity.
    + intros F pos HF. destruct F as [|F]; [lia|].
      unfold d. cbn [ref_string]. fold d. fold n.
      rewrite En, Eb. cbn [Nat.eqb]. rewrite N.eqb_refl. cbn [andb].
      cbn [tflag map concat length]. rewrite spans_fl_nil.
      replace (pos + 0 + 1) with (S pos) by lia. reflexivity.
  - (* a token of the string *)
    assert (Hlen : length (firstn n d) = n) by (apply firstn_length_le; lia).
    destruct (IH (skipn n d) q (fl ++ [(firstn n d, true)]) ltac:(lia))
      as [[tk [rest [f' [Hd' [Hne [Hf' [Hjs Href]]]]]]] | [tk [Hd' [Hne [Hjs Href]]]]].
    + left. exists (firstn n d :: tk), rest, f'.
      split; [|split; [|split; [|split]]].
      * cbn [concat]. rewrite <- app_assoc, <- Hd'. symmetry. apply firstn_skipn.
      * constructor; [apply firstn_ne; [lia|exact Hd]|exact Hne].
      * exact Hf'.
      * rewrite Hjs. cbn [tflag map]. rewrite <- !app_assoc. reflexivity.
      * intros F pos HF. destruct F as [|F]; [lia|].
        unfold d. cbn [ref_string]. fold d. fold n. rewrite Ec.
        rewrite Href by lia.
        cbn [tflag map]. rewrite spans_fl_cons. cbn [concat]. rewrite app_length, Hlen.
        f_equal. f_equal; [|lia]. reflexivity.
    + right. exists (firstn n d :: tk).
      split; [|split; [|split]].
      * cbn [concat]. rewrite <- Hd'. symmetry. apply firstn_skipn.
      * constructor; [apply firstn_ne; [lia|exact Hd]|exact Hne].
      * rewrite Hjs. cbn [tflag map]. rewrite <- !app_assoc. reflexivity.
      * intros F pos. destruct F as [|F]; [reflexivity|].
        unfold d. cbn [ref_string]. fold d. fold n. rewrite Ec. rewrite Href. reflexivity.
Qed.
