(* The outer loops of the rewriting strategies (Model/Rewriters.v), used by Props/C09.v.  No axioms.

   1. replace_properties_bounded: RELATIVE to the two interface facts about a pass
        (a) pass_le K   : a pass yields at most K candidates whatever the feedback
        (b) shrinking   : a candidate has maybe >= 1 and chars t + maybe <= chars best
      the run never exhausts the driver's fuel, never raises (in particular the fuel props_fuel of the
      non-proposing loop props_drive is sufficient) and makes at most 1 + K * passes tests.
      Potential (in a pass with at most j candidates left, j <= K)
          W = (log2 (max 1 chunk) + chars best + [r_removed <> 0]) * K + j
      and W = (log2 (max 1 chunk) + 1 + chars best) * K before the start of a pass: every proposal
      (tested or skipped) lowers W by at least 1 (an accepted candidate sets r_removed <> 0 but lowers
      chars best by at least 1), the non-proposing transitions never raise it (a size is repeated
      only if r_removed <> 0, a halving lowers log2 because chunk > r_final >= 1).
      Fuel demand of props_drive: 2 * log2 (max 1 chunk) + 1 + 2 * [r_removed <> 0]  (+1 before a pass)
      which is at most props_fuel - 3.

   2. replace_arguments_unbounded: a pass that always offers exactly one candidate (the current best
      with one more byte), maybe = 1, and a test that always answers Yes: every pass accepts one
      candidate, so the outer loop goes round for ever; with fuel N + 1 the run makes N + 2 tests. *)
From Coq Require Import ZArith NArith List Bool Lia ZifyBool.
From Lithium Require Import PyBase TcRecord Util Testcase Driver TraceSpec Minimize StratSpec
  DriverProofs MinimizeBound Rewriters.
Import ListNotations.
Open Scope Z_scope.

(* ------------------------------------------------------------------ *)
(* arithmetic                                                         *)
(* ------------------------------------------------------------------ *)

Definition hlog (c : Z) : Z := Z.log2 (Z.max 1 c).

Lemma hlog_nonneg : forall c, 0 <= hlog c.
Proof. intros c. apply Z.log2_nonneg. Qed.

Lemma hlog_half : forall c, 2 <= c -> hlog (py_shr c 1) = hlog c - 1.
Proof.
  intros c Hc. unfold hlog, py_shr.
  assert (H1 : 1 <= Z.shiftr c 1).
  { rewrite Z.shiftr_div_pow2 by lia. change (2 ^ 1) with 2.
    apply Z.div_le_lower_bound; lia. }
  rewrite (Z.max_r 1 (Z.shiftr c 1)) by lia. rewrite (Z.max_r 1 c) by lia.
  rewrite Z.log2_shiftr by lia.
  assert (H2 : 1 <= Z.log2 c).
  { apply Z.log2_le_pow2; [lia|]. change (2 ^ 1) with 2. lia. }
  lia.
Qed.

Definition b2 (x : Z) : Z := if truthy_Z x then 1 else 0.

Lemma b2_range : forall x, 0 <= b2 x <= 1.
Proof. intros x. unfold b2. destruct (truthy_Z x); lia. Qed.

Lemma b2_zero : b2 0 = 0.
Proof. reflexivity. Qed.

Lemma b2_pos : forall x, 1 <= x -> b2 x = 1.
Proof.
  intros x Hx. unfold b2, truthy_Z. destruct (x =? 0) eqn:E; [|reflexivity].
  apply Z.eqb_eq in E. lia.
Qed.

Lemma chars_nonneg : forall t, 0 <= chars t.
Proof. intros t. unfold chars. apply zlen_nonneg. Qed.

(* ------------------------------------------------------------------ *)
(* 1. replace-properties                                              *)
(* ------------------------------------------------------------------ *)

Section Props.
  Variable PS : Type.
  Variable pass_start : Z -> tcase -> PS.
  Variable pass_next : PS -> tcase -> option (Z * tcase * (outcome -> PS)).
  Variable cfg : mcfg.
  Variable K : nat.
  Hypothesis Hpass : forall c best, pass_le PS pass_next K (pass_start c best).
  Hypothesis Hshr : shrinking PS pass_next.

  (* invariant + "the potential of (s, best) is at most B" *)
  Definition Wle (s : rstate PS) (best : tcase) (B : Z) : Prop :=
    1 <= r_final PS s /\ 0 <= r_removed PS s /\
    match r_pass PS s with
    | None => (hlog (r_chunk PS s) + 1 + chars best) * Z.of_nat K <= B
    | Some ps =>
        exists j, pass_le PS pass_next j ps /\ (j <= K)%nat /\
          (hlog (r_chunk PS s) + chars best + b2 (r_removed PS s)) * Z.of_nat K + Z.of_nat j <= B
    end.

  (* fuel demand of props_drive *)
  Definition need (s : rstate PS) : Z :=
    match r_pass PS s with
    | None => 2 * hlog (r_chunk PS s) + 2
    | Some _ => 2 * hlog (r_chunk PS s) + 1 + 2 * b2 (r_removed PS s)
    end.

  Definition post (best : tcase) (B : Z) (r : step (rstate PS)) : Prop :=
    match r with
    | Done => True
    | Propose t k =>
        forall o, Wle (k o) (match o with Tested true => t | _ => best end) (B - 1)
    | _ => False
    end.

  Lemma Wle_nonneg : forall s best B, Wle s best B -> 0 <= B.
  Proof.
    intros s best B (Hf & Hr & HW).
    pose proof (hlog_nonneg (r_chunk PS s)) as Hh.
    pose proof (chars_nonneg best) as Hc.
    pose proof (b2_range (r_removed PS s)) as Hb.
    destruct (r_pass PS s) as [ps|].
    - destruct HW as (j & _ & _ & HB).
      assert (H : 0 <= (hlog (r_chunk PS s) + chars best + b2 (r_removed PS s)) * Z.of_nat K)
        by (apply Z.mul_nonneg_nonneg; lia).
      lia.
    - assert (H : 0 <= (hlog (r_chunk PS s) + 1 + chars best) * Z.of_nat K)
        by (apply Z.mul_nonneg_nonneg; lia).
      lia.
  Qed.

  Lemma need_pos : forall s, 1 <= need s.
  Proof.
    intros s. unfold need.
    pose proof (hlog_nonneg (r_chunk PS s)) as Hh.
    pose proof (b2_range (r_removed PS s)) as Hb.
    destruct (r_pass PS s); lia.
  Qed.

  Lemma props_drive_ok : forall fuel s best B,
    Wle s best B -> need s <= Z.of_nat fuel ->
    post best B (props_drive PS pass_start pass_next fuel cfg s best).
  Proof.
    induction fuel as [|f IH]; intros s best B HW Hn.
    - pose proof (need_pos s) as Hp. lia.
    - destruct s as [c fin rem p].
      destruct HW as (Hf & Hr & HW). unfold need in Hn.
      cbn [r_chunk r_final r_removed r_pass] in Hf, Hr, HW, Hn.
      pose proof (hlog_nonneg c) as Hh.
      pose proof (chars_nonneg best) as Hcb.
      pose proof (b2_range rem) as Hb.
      cbn [props_drive r_pass r_chunk r_final r_removed].
      destruct p as [ps|].
      + destruct HW as (j & Hj & HjK & HB).
        destruct (pass_next ps best) as [[[maybe t] k]|] eqn:Hpn.
        * (* a candidate *)
          cbn [post]. intros o.
          destruct (Hshr ps best maybe t k Hpn) as [Hm Hc].
          pose proof (chars_nonneg t) as Hct.
          inversion Hj as [K' ps' Hnone HK' Hps' | j' ps' Hstep HK' Hps'].
          -- rewrite Hnone in Hpn. discriminate Hpn.
          -- subst ps' j.
             pose proof (Hstep best maybe t k Hpn o) as Hko.
             unfold Wle. cbn [r_chunk r_final r_removed r_pass].
             split; [exact Hf|]. split; [destruct o as [|[|]]; lia|].
             exists j'. split; [exact Hko|]. split; [lia|].
             destruct o as [|[|]].
             ++ lia.
             ++ rewrite (b2_pos (rem + maybe)) by lia.
                assert (HH : (hlog c + chars t + 1) * Z.of_nat K
                             <= (hlog c + chars best + b2 rem) * Z.of_nat K)
                  by (apply Z.mul_le_mono_nonneg_r; lia).
                lia.
             ++ lia.
        * (* the pass is exhausted *)
          cbv zeta.
          destruct (truthy_Z rem && rep_ok cfg (c <=? fin)) eqn:Erep.
          -- (* repeat the same size *)
             apply andb_prop in Erep. destruct Erep as [Etr _].
             assert (Hb1 : b2 rem = 1) by (unfold b2; rewrite Etr; reflexivity).
             apply IH.
             ++ unfold Wle. cbn [r_chunk r_final r_removed r_pass].
                split; [exact Hf|]. split; [lia|].
                rewrite Hb1 in HB.
                replace (hlog c + 1 + chars best) with (hlog c + chars best + 1) by lia. lia.
             ++ unfold need. cbn [r_chunk r_removed r_pass]. lia.
          -- destruct (c <=? fin) eqn:Elast.
             ++ exact I.
             ++ (* halve *)
                apply Z.leb_gt in Elast.
                assert (Hc2 : 2 <= c) by lia.
                pose proof (hlog_half c Hc2) as Hhalf.
                apply IH.
                ** unfold Wle. cbn [r_chunk r_final r_removed r_pass].
                   split; [exact Hf|]. split; [lia|].
                   rewrite Hhalf.
                   assert (HH : (hlog c - 1 + 1 + chars best) * Z.of_nat K
                                <= (hlog c + chars best + b2 rem) * Z.of_nat K)
                     by (apply Z.mul_le_mono_nonneg_r; lia).
                   lia.
                ** unfold need. cbn [r_chunk r_removed r_pass]. rewrite Hhalf. lia.
      + (* start a pass *)
        apply IH.
        * unfold Wle. cbn [r_chunk r_final r_removed r_pass].
          split; [exact Hf|]. split; [lia|].
          exists K. split; [apply Hpass|]. split; [lia|].
          rewrite b2_zero. lia.
        * unfold need. cbn [r_chunk r_removed r_pass]. rewrite b2_zero. lia.
  Qed.

  Lemma need_le_fuel : forall s, need s <= Z.of_nat (props_fuel PS s).
  Proof.
    intros s. unfold need, props_fuel.
    change (Z.log2 (Z.max 1 (r_chunk PS s))) with (hlog (r_chunk PS s)).
    pose proof (hlog_nonneg (r_chunk PS s)) as Hh.
    pose proof (b2_range (r_removed PS s)) as Hb.
    destruct (r_pass PS s); lia.
  Qed.

  Lemma props_next_ok : forall s best B,
    Wle s best B ->
    post best B (s_next (replace_properties PS pass_start pass_next cfg) s best).
  Proof.
    intros s best B HW. cbn [s_next replace_properties].
    apply props_drive_ok; [exact HW | apply need_le_fuel].
  Qed.

  Lemma props_loop_bounded : forall verdict fuel st it w B,
    Wle st (it_best it) B -> B + 1 <= Z.of_nat fuel ->
    loop_res_ok (n_tests (chron w) + B)
                (loop (replace_properties PS pass_start pass_next cfg) verdict fuel st it w).
  Proof.
    intros verdict.
    induction fuel as [|fuel IH]; intros st it w B HW Hfuel.
    - pose proof (Wle_nonneg _ _ _ HW) as HB. lia.
    - pose proof (Wle_nonneg _ _ _ HW) as HB.
      pose proof (props_next_ok st (it_best it) B HW) as Hstep.
      cbn [loop].
      destruct (s_next (replace_properties PS pass_start pass_next cfg) st (it_best it))
        as [t k|b st'| |e]; cbn [post] in Hstep; try contradiction.
      + (* Propose *)
        destruct (mem_bytes (content t) (it_tried it)) eqn:Hmem.
        * pose proof (Hstep Skipped) as HW'. cbv iota in HW'.
          specialize (IH (k Skipped) it w (B - 1) HW' ltac:(lia)).
          unfold loop_res_ok in *.
          match goal with |- match ?l with _ => _ end =>
            destruct l as [rc wf|[e|] wf|wf]; lia end.
        * destruct (interesting verdict w t true) as [w' a] eqn:Hint.
          destruct (interesting_true_inv verdict w t w' a Hint) as [_ Hw']. subst w'.
          pose proof (n_tests_wafter w t a) as Hnt.
          destruct a.
          -- pose proof (Hstep (Tested true)) as HW'. cbv iota in HW'.
             specialize (IH (k (Tested true))
                            {| it_best := t;
                               it_tried := it_tried {| it_best := it_best it;
                                                       it_tried := content t :: it_tried it;
                                                       it_any := it_any it |};
                               it_any := true |} (wafter w t Yes) (B - 1)).
             cbn [it_best] in IH. specialize (IH HW' ltac:(lia)).
             unfold loop_res_ok in *.
             match goal with |- match ?l with _ => _ end =>
               destruct l as [rc wf|[e|] wf|wf]; lia end.
          -- pose proof (Hstep (Tested false)) as HW'. cbv iota in HW'.
             specialize (IH (k (Tested false))
                            {| it_best := it_best it; it_tried := content t :: it_tried it;
                               it_any := it_any it |} (wafter w t No) (B - 1)).
             cbn [it_best] in IH. specialize (IH HW' ltac:(lia)).
             unfold loop_res_ok in *.
             match goal with |- match ?l with _ => _ end =>
               destruct l as [rc wf|[e|] wf|wf]; lia end.
          -- pose proof (Wle_nonneg _ _ _ (Hstep (Tested false))) as HB'.
             cbn [loop_res_ok]. lia.
      + (* Done *)
        cbn [loop_res_ok]. rewrite n_tests_write_file. lia.
  Qed.

  Lemma props_start_Wle : forall tc0,
    Wle (props_start PS cfg tc0) tc0
        ((hlog (r_chunk PS (props_start PS cfg tc0)) + 1 + chars tc0) * Z.of_nat K).
  Proof.
    intros tc0. unfold Wle. cbn [props_start r_chunk r_final r_removed r_pass].
    split; [lia|]. split; [lia|]. apply Z.le_refl.
  Qed.
End Props.

Theorem replace_properties_bounded :
  forall PS (pass_start : Z -> tcase -> PS) pass_next cfg verdict tc0 file0 fuel K,
    (forall c best, pass_le PS pass_next K (pass_start c best)) ->
    shrinking PS pass_next ->
    let c0 := r_chunk PS (props_start PS cfg tc0) in
    let passes := Z.log2 (Z.max 1 c0) + 2 + chars tc0 in
    (Z.to_nat ((Z.of_nat K + 2) * passes + 4) <= fuel)%nat ->
    let r := Driver.run (replace_properties PS pass_start pass_next cfg) verdict fuel tc0 file0 in
    (forall w, r <> NoFuel w) /\ (forall e w, r <> Aborted (Some e) w) /\
    n_tests (chron (result_world r)) <= 1 + Z.of_nat K * passes.
Proof.
  intros PS pass_start pass_next cfg verdict tc0 file0 fuel K Hpass Hshr c0 passes Hfuel r.
  change (Z.log2 (Z.max 1 c0)) with (hlog c0) in passes.
  pose proof (hlog_nonneg c0) as Hh.
  pose proof (chars_nonneg tc0) as Hc.
  set (B := (hlog c0 + 1 + chars tc0) * Z.of_nat K).
  assert (HB0 : 0 <= B) by (apply Z.mul_nonneg_nonneg; lia).
  assert (HBp : B <= Z.of_nat K * passes).
  { unfold B, passes. rewrite (Z.mul_comm (Z.of_nat K)).
    apply Z.mul_le_mono_nonneg_r; lia. }
  assert (Hpp : 0 <= passes) by (unfold passes; lia).
  assert (Hfz : B + 1 <= Z.of_nat fuel).
  { assert (H : Z.of_nat K * passes <= (Z.of_nat K + 2) * passes)
      by (apply Z.mul_le_mono_nonneg_r; lia).
    lia. }
  destruct (run_cases (rstate PS) (replace_properties PS pass_start pass_next cfg)
                      verdict fuel tc0 file0)
    as [[Hn Hr]|[(Hn & Hv1 & Hr)|[(Hn & Hv1 & Hr)|(Hn & Hv1 & Hr)]]]; fold r in Hr.
  - rewrite Hr. split; [intros w; discriminate|]. split; [intros e w; discriminate|].
    cbn [result_world]. rewrite n_tests_finally.
    change (n_tests (chron (w0 tc0 file0))) with 0. lia.
  - rewrite Hr. split; [intros w; discriminate|]. split; [intros e w; discriminate|].
    cbn [result_world]. rewrite n_tests_finally.
    change (n_tests (chron (w1 tc0 file0 Raise))) with 1. lia.
  - rewrite Hr. split; [intros w; discriminate|]. split; [intros e w; discriminate|].
    cbn [result_world]. rewrite n_tests_finally.
    change (n_tests (chron (wN tc0 file0))) with 1. lia.
  - pose proof (props_start_Wle PS pass_next cfg K tc0) as HW. fold c0 in HW. fold B in HW.
    pose proof (props_loop_bounded PS pass_start pass_next cfg K Hpass Hshr verdict fuel
                  (props_start PS cfg tc0) (it0 tc0) (wY tc0 file0) B HW Hfz) as Hl.
    change (n_tests (chron (wY tc0 file0))) with 1 in Hl.
    cbn [s_start replace_properties] in Hr. rewrite Hr.
    destruct (loop (replace_properties PS pass_start pass_next cfg) verdict fuel
                   (props_start PS cfg tc0) (it0 tc0) (wY tc0 file0)) as [rc wf|[e|] wf|wf];
      cbn [loop_res_ok] in Hl; try contradiction; cbn [map_world result_world].
    + split; [intros w; discriminate|]. split; [intros e w; discriminate|].
      rewrite n_tests_finally. lia.
    + split; [intros w; discriminate|]. split; [intros e w; discriminate|].
      rewrite n_tests_finally. lia.
Qed.

(* ------------------------------------------------------------------ *)
(* 2. replace-arguments: no bound                                     *)
(* ------------------------------------------------------------------ *)

(* one step of the driver loop when the candidate is new and the test answers Yes *)
Lemma loop_propose_yes :
  forall S (strat : strategy S) verdict fuel st it w t k,
    s_next strat st (it_best it) = Propose t k ->
    mem_bytes (content t) (it_tried it) = false ->
    verdict (w_tests w + 1) (content t) = Yes ->
    loop strat verdict (Datatypes.S fuel) st it w =
    loop strat verdict fuel (k (Tested true))
         {| it_best := t; it_tried := content t :: it_tried it; it_any := true |}
         (wafter w t Yes).
Proof.
  intros S strat verdict fuel st it w t k Hn Hm Hv.
  cbn [loop]. rewrite Hn, Hm.
  destruct (interesting verdict w t true) as [w' a] eqn:Hi.
  destruct (interesting_true_inv verdict w t w' a Hi) as [Ha Hw].
  rewrite Hv in Ha. subst a w'. reflexivity.
Qed.

Lemma n_tests_map_finally : forall r,
  n_tests (chron (result_world (map_world finally r))) = n_tests (chron (result_world r)).
Proof.
  intros [rc w|e w|w]; cbn [map_world result_world]; [apply n_tests_finally..|reflexivity].
Qed.

(* the pass: one candidate = the current best with one more byte in its first part *)
Definition ua_grow (t : tcase) : tcase :=
  {| tc_before := tc_before t;
     tc_parts := match tc_parts t with p :: r => (65%N :: p) :: r | [] => [[65%N]] end;
     tc_red := tc_red t; tc_after := tc_after t |}.
Definition ua_start (_ : Z) (_ : tcase) : bool := true.
Definition ua_next (ps : bool) (best : tcase) : option (Z * tcase * (outcome -> bool)) :=
  if ps then Some (1, ua_grow best, fun _ : outcome => false) else None.

Definition ua_tc (n : nat) : tcase :=
  {| tc_before := []; tc_parts := [repeat 65%N (S n)]; tc_red := [true]; tc_after := [] |}.

Definition ua_strat : strategy (rstate bool) := replace_arguments bool ua_start ua_next default_cfg.

(* the state after a pass that accepted its candidate *)
Definition ua_A : rstate bool :=
  {| r_chunk := 1; r_final := 1; r_removed := 1; r_pass := Some false |}.

Lemma ua_grow_tc : forall n, ua_grow (ua_tc n) = ua_tc (S n).
Proof. intros n. reflexivity. Qed.

Lemma ua_content_len : forall n, length (content (ua_tc n)) = S n.
Proof.
  intros n. unfold content. cbn [ua_tc tc_before tc_parts tc_after concat app].
  rewrite !app_nil_r. apply repeat_length.
Qed.

Lemma ua_next_A : forall best,
  s_next ua_strat ua_A best =
  Propose (ua_grow best)
          (fun o => {| r_chunk := 1; r_final := 1;
                       r_removed := match o with Tested true => 1 | _ => 0 end;
                       r_pass := Some false |}).
Proof. intros best. reflexivity. Qed.

Lemma ua_next_start : forall tc best,
  s_next ua_strat (s_start ua_strat tc) best =
  Propose (ua_grow best)
          (fun o => {| r_chunk := 1; r_final := 1;
                       r_removed := match o with Tested true => 0 + 1 | _ => 0 end;
                       r_pass := Some false |}).
Proof. intros tc best. reflexivity. Qed.

Lemma ua_fresh : forall j tried,
  (forall x, In x tried -> (length x <= S j)%nat) ->
  mem_bytes (content (ua_tc (S j))) tried = false.
Proof.
  intros j tried Ht.
  destruct (mem_bytes (content (ua_tc (S j))) tried) eqn:E; [|reflexivity].
  apply mem_bytes_In in E. apply Ht in E. rewrite ua_content_len in E. lia.
Qed.

Lemma ua_loop : forall n j tried any w,
  (forall x, In x tried -> (length x <= S j)%nat) ->
  n_tests (chron w) + Z.of_nat n <=
  n_tests (chron (result_world
    (loop ua_strat (fun _ _ => Yes) n ua_A
          {| it_best := ua_tc j; it_tried := tried; it_any := any |} w))).
Proof.
  induction n as [|n IH]; intros j tried any w Ht.
  - cbn [loop result_world]. lia.
  - rewrite (loop_propose_yes _ ua_strat (fun _ _ => Yes) n ua_A
               {| it_best := ua_tc j; it_tried := tried; it_any := any |} w
               (ua_tc (S j))
               (fun o => {| r_chunk := 1; r_final := 1;
                            r_removed := match o with Tested true => 1 | _ => 0 end;
                            r_pass := Some false |})).
    + cbn [it_tried].
      pose proof (IH (S j) (content (ua_tc (S j)) :: tried) true (wafter w (ua_tc (S j)) Yes)) as H.
      rewrite n_tests_wafter in H.
      eapply Z.le_trans; [|apply H].
      * lia.
      * intros x [Hx|Hx].
        -- subst x. rewrite ua_content_len. lia.
        -- apply Ht in Hx. lia.
    + cbn [it_best]. rewrite ua_next_A, ua_grow_tc. reflexivity.
    + cbn [it_tried]. apply ua_fresh. exact Ht.
    + reflexivity.
Qed.

Theorem replace_arguments_unbounded :
  exists PS (pass_start : Z -> tcase -> PS) pass_next tc0,
    forall N : Z, exists fuel,
      N <= n_tests (chron (result_world
             (Driver.run (replace_arguments PS pass_start pass_next default_cfg) (fun _ _ => Yes) fuel tc0
                         (content tc0)))).
Proof.
  exists bool, ua_start, ua_next, (ua_tc 0).
  intros N. exists (S (Z.to_nat N)).
  fold ua_strat.
  destruct (run_cases (rstate bool) ua_strat (fun _ _ => Yes) (S (Z.to_nat N)) (ua_tc 0)
                      (content (ua_tc 0)))
    as [[Hn Hr]|[(Hn & Hv1 & Hr)|[(Hn & Hv1 & Hr)|(Hn & Hv1 & Hr)]]].
  - exfalso. vm_compute in Hn. discriminate Hn.
  - discriminate Hv1.
  - discriminate Hv1.
  - rewrite Hr. rewrite n_tests_map_finally.
    rewrite (loop_propose_yes _ ua_strat (fun _ _ => Yes) (Z.to_nat N) (s_start ua_strat (ua_tc 0))
               (it0 (ua_tc 0)) (wY (ua_tc 0) (content (ua_tc 0)))
               (ua_tc 1)
               (fun o => {| r_chunk := 1; r_final := 1;
                            r_removed := match o with Tested true => 0 + 1 | _ => 0 end;
                            r_pass := Some false |})).
    + cbn [it0 it_tried].
      pose proof (ua_loop (Z.to_nat N) 1 [content (ua_tc 1)] true
                    (wafter (wY (ua_tc 0) (content (ua_tc 0))) (ua_tc 1) Yes)) as H.
      rewrite n_tests_wafter in H.
      change (n_tests (chron (wY (ua_tc 0) (content (ua_tc 0))))) with 1 in H.
      eapply Z.le_trans; [|apply H].
      * lia.
      * intros x [Hx|[]]. subst x. rewrite ua_content_len. lia.
    + cbn [it0 it_best]. rewrite ua_next_start. reflexivity.
    + reflexivity.
    + reflexivity.
Qed.

Print Assumptions replace_properties_bounded.
Print Assumptions replace_arguments_unbounded.
