(* C05 for minimize-balanced WITH the experimental move (Model/PairsMove.v): every candidate is either
   obtained by one or two `rmslice` from the (well-formed) best, or is `moved best ps fs` where ps / fs are
   the same five slices of the parts / of the flags put together in another order; before / after are
   copied in both cases.  So the strategy is frame preserving for the trivial invariant, and
   FrameProofs.frame_runs_keep_frame applies.  The fuel of mdrive is irrelevant: running out of it gives
   `Fail OutOfFuel`, which frame_preserving accepts.
   Also: with 0 <= ib <= start <= stop and 0 <= c the five slices of split5 tile the list, so a moved
   candidate is a permutation of the parts.
   Used by Props/C05m.v.  No axioms. *)
From Coq Require Import ZArith NArith List Bool Lia Permutation.
From Lithium Require Import PyBase TcRecord Util Testcase Spec Driver TraceSpec Minimize
  StratSpec PyLines Markers Splitters SplitSpec FrameSpec TestcaseProofs SplitProofs FrameProofs
  Pairs PairsMove.
Import ListNotations.
Open Scope Z_scope.

(* ------------------------------------------------------------------ *)
(* 1. slices of lists of equal lengths have equal lengths              *)
(* ------------------------------------------------------------------ *)

Lemma py_slice_length_eq : forall (A B : Type) (l1 : list A) (l2 : list B) a b,
  length l1 = length l2 -> length (py_slice l1 a b) = length (py_slice l2 a b).
Proof.
  intros A B l1 l2 a b H. unfold py_slice, zlen. cbv zeta.
  rewrite !firstn_length, !skipn_length, H. reflexivity.
Qed.

Lemma parts_after_length_eq : forall (A B : Type) (l1 : list A) (l2 : list B) c ib start stop,
  length l1 = length l2 ->
  length (parts_after (split5 l1 c ib start stop)) = length (parts_after (split5 l2 c ib start stop)).
Proof.
  intros A B l1 l2 c ib start stop H. unfold split5, parts_after.
  rewrite !app_length.
  rewrite (py_slice_length_eq A B l1 l2 None (Some ib) H).
  rewrite (py_slice_length_eq A B l1 l2 (Some ib) (Some start) H).
  rewrite (py_slice_length_eq A B l1 l2 (Some start) (Some (start + c)) H).
  rewrite (py_slice_length_eq A B l1 l2 (Some (start + c)) (Some (stop + c)) H).
  rewrite (py_slice_length_eq A B l1 l2 (Some (stop + c)) None H).
  reflexivity.
Qed.

Lemma parts_before_length_eq : forall (A B : Type) (l1 : list A) (l2 : list B) c ib start stop,
  length l1 = length l2 ->
  length (parts_before (split5 l1 c ib start stop)) = length (parts_before (split5 l2 c ib start stop)).
Proof.
  intros A B l1 l2 c ib start stop H. unfold split5, parts_before.
  rewrite !app_length.
  rewrite (py_slice_length_eq A B l1 l2 None (Some ib) H).
  rewrite (py_slice_length_eq A B l1 l2 (Some ib) (Some start) H).
  rewrite (py_slice_length_eq A B l1 l2 (Some start) (Some (start + c)) H).
  rewrite (py_slice_length_eq A B l1 l2 (Some (start + c)) (Some (stop + c)) H).
  rewrite (py_slice_length_eq A B l1 l2 (Some (stop + c)) None H).
  reflexivity.
Qed.

(* the moved candidates are well-formed whatever the bounds are *)
Lemma moved_after_wf : forall best c ib start stop,
  wf best ->
  wf (moved best (parts_after (split5 (tc_parts best) c ib start stop))
                 (parts_after (split5 (tc_red best) c ib start stop))).
Proof.
  intros best c ib start stop Hwf. unfold wf, moved. cbn [tc_parts tc_red].
  apply parts_after_length_eq. exact Hwf.
Qed.

Lemma moved_before_wf : forall best c ib start stop,
  wf best ->
  wf (moved best (parts_before (split5 (tc_parts best) c ib start stop))
                 (parts_before (split5 (tc_red best) c ib start stop))).
Proof.
  intros best c ib start stop Hwf. unfold wf, moved. cbn [tc_parts tc_red].
  apply parts_before_length_eq. exact Hwf.
Qed.

Lemma moved_framed : forall P S best ps fs, framed P S best -> framed P S (moved best ps fs).
Proof. intros P S best ps fs Hfr. unfold framed, moved. cbn [tc_before tc_after]. exact Hfr. Qed.

(* ------------------------------------------------------------------ *)
(* 2. rmslice keeps well-formedness and the frame                      *)
(* ------------------------------------------------------------------ *)

Lemma rmslice_wf_framed : forall P S t a b t',
  wf t -> framed P S t -> rmslice t a b = Ok t' -> wf t' /\ framed P S t'.
Proof.
  intros P S t a b t' Hwf Hfr Hrm. rewrite rmslice_eq in Hrm by exact Hwf.
  injection Hrm as Ht'. subst t'. split; [apply rm_result_wf|].
  unfold framed, rm_result. cbn [tc_before tc_after]. exact Hfr.
Qed.

(* ------------------------------------------------------------------ *)
(* 3. what every step of the driver looks like                         *)
(* ------------------------------------------------------------------ *)

Definition mv_post (P S : bytes) (r : step mvstate) : Prop :=
  match r with
  | Propose t _ => wf t /\ framed P S t
  | RawWrite _ _ => False
  | Done => True
  | Fail _ => True
  end.

Definition mres_post (P S : bytes) (r : mres) : Prop :=
  match r with
  | MStep st => mv_post P S st
  | MCont _ => True
  end.

Lemma inner_iter_post : forall P S m best,
  wf best -> framed P S best -> mres_post P S (inner_iter m best).
Proof.
  intros P S m best Hwf Hfr. unfold inner_iter. cbv zeta.
  destruct (negb (m_mid_start m <? m_rhs_start m)); [exact I|].
  destruct (negb (s_count (p_summary (m_base m)) 0 (m_mid_idx m) * p_chunk_size (m_base m)
                  =? m_mid_start m)); [exact I|].
  destruct (nth_table (p_tables (m_base m)) (m_mid_idx m)) as [n|e]; [|exact I].
  destruct (negb (zero3 n)); [exact I|].
  cbn [mres_post mv_post]. split.
  - apply moved_after_wf. exact Hwf.
  - apply moved_framed. exact Hfr.
Qed.

Lemma before_iter_post : forall P S m best,
  wf best -> framed P S best -> mv_post P S (before_iter m best).
Proof.
  intros P S m best Hwf Hfr. unfold before_iter. cbv zeta. cbn [mv_post]. split.
  - apply moved_before_wf. exact Hwf.
  - apply moved_framed. exact Hfr.
Qed.

Lemma balanced_body_mv_post : forall P S s best,
  wf best -> framed P S best -> mres_post P S (balanced_body_mv s best).
Proof.
  intros P S s best Hwf Hfr. unfold balanced_body_mv. cbv zeta. rewrite copy_id.
  destruct (negb (s_count (p_summary s) 0 (p_i1 s) * p_chunk_size s =? p_chunk_start s));
    [exact I|].
  destruct (nth_table (p_tables s) (p_i1 s)) as [n0|e]; [|exact I].
  destruct (zero3 n0).
  - destruct (rmslice best (p_chunk_start s)
                (Z.min (tc_len best) (p_chunk_start s + p_chunk_size s))) as [t|e] eqn:Hrm;
      [|exact I].
    cbn [mres_post mv_post]. exact (rmslice_wf_framed P S best _ _ t Hwf Hfr Hrm).
  - destruct (partner_scan (py_slice (p_summary s) (Some (p_i1 s + 1)) None)
                (py_slice (p_tables s) (Some (p_i1 s + 1)) None) (p_i1 s) n0) as [rhs n].
    destruct (negb (zero3 n)); [exact I|].
    match goal with
    | |- mres_post P S (match (t1 <- rmslice best ?a ?b ;; rmslice t1 ?c ?d) with _ => _ end) =>
        destruct (rmslice best a b) as [t1|e1] eqn:Hrm1; cbn [bind]; [|exact I];
        destruct (rmslice t1 c d) as [t|e] eqn:Hrm2; [|exact I]
    end.
    cbn [mres_post mv_post].
    destruct (rmslice_wf_framed P S best _ _ t1 Hwf Hfr Hrm1) as [Hwf1 Hfr1].
    exact (rmslice_wf_framed P S t1 _ _ t Hwf1 Hfr1 Hrm2).
Qed.

Lemma mdrive_post : forall P S fuel cfg clk m best,
  wf best -> framed P S best -> mv_post P S (mdrive fuel cfg clk m best).
Proof.
  intros P S. induction fuel as [|f IH]; intros cfg clk m best Hwf Hfr.
  - cbn [mdrive mv_post]. exact I.
  - cbn [mdrive]. destruct (m_phase m).
    + (* MBase *)
      cbv zeta. destruct (p_phase (m_base m)).
      * destruct (pass_start KBalanced (m_base m) best) as [s'|e]; [|exact I].
        apply IH; assumption.
      * destruct (negb (p_chunk_start (m_base m) <? tc_len best)); [apply IH; assumption|].
        destruct (read_clock clk (m_base m)) as [expired s1].
        destruct expired; [apply IH; assumption|].
        pose proof (balanced_body_mv_post P S s1 best Hwf Hfr) as Hb.
        destruct (balanced_body_mv s1 best) as [st|m']; cbn [mres_post] in Hb.
        -- exact Hb.
        -- apply IH; assumption.
      * destruct (after_pass cfg clk (m_base m)) as [s'|]; [|exact I].
        apply IH; assumption.
    + (* MLoop *)
      pose proof (inner_iter_post P S m best Hwf Hfr) as Hb.
      destruct (inner_iter m best) as [st|m']; cbn [mres_post] in Hb.
      * exact Hb.
      * apply IH; assumption.
    + (* MBefore *)
      apply before_iter_post; assumption.
Qed.

(* ------------------------------------------------------------------ *)
(* 4. the frame theorems of Props/C05m.v                               *)
(* ------------------------------------------------------------------ *)

Theorem pairs_move_is_frame_preserving :
  forall cfg clk P S,
    frame_preserving (pairs_move cfg clk) (fun _ _ => True) P S.
Proof.
  intros cfg clk P S st best _ Hwf Hfr.
  unfold pairs_move. cbn [s_next].
  pose proof (mdrive_post P S (move_fuel best) cfg clk st best Hwf Hfr) as Hy.
  destruct (mdrive (move_fuel best) cfg clk st best) as [t k|b st'| |e]; cbn [mv_post] in Hy.
  - destruct Hy as [Hwt Hft].
    split; [exact Hwt|]. split; [exact Hft|]. split; [exact I|]. split; exact I.
  - contradiction.
  - exact I.
  - exact I.
Qed.

Theorem pairs_move_loaded_keeps_frame :
  forall sp cfg clk verdict fuel d tc0 P r S,
    splitter_ok sp -> load sp d = Ok tc0 -> find_markers d = Marked P r S ->
    let w := result_world (run (pairs_move cfg clk) verdict fuel tc0 d) in
    tests_in_frame P S (chron w) /\ in_frame P S (w_file w).
Proof.
  intros sp cfg clk verdict fuel d tc0 P r S Hsp Hld Hfm.
  destruct (load_generic_ok sp Hsp d tc0 Hld) as (Hc & _ & Hwf).
  pose proof (loaded_is_framed sp d tc0 P r S Hld Hfm) as Hfr.
  apply (frame_runs_keep_frame mvstate (pairs_move cfg clk)
           (fun _ _ => True) P S verdict fuel tc0 d Hwf Hc Hfr I).
  apply pairs_move_is_frame_preserving.
Qed.

(* ------------------------------------------------------------------ *)
(* 5. consecutive slices tile the list; a moved candidate is a         *)
(*    permutation                                                      *)
(* ------------------------------------------------------------------ *)

(* l[a:b] for 0 <= a <= b, bounds possibly beyond the end *)
Lemma py_slice_mid_Z : forall (A : Type) (l : list A) a b, 0 <= a -> a <= b ->
  py_slice l (Some a) (Some b) = firstn (Z.to_nat b - Z.to_nat a) (skipn (Z.to_nat a) l).
Proof.
  intros A l a b Ha Hab. unfold py_slice, norm_bound, zlen. cbv zeta.
  assert (E1 : (a <? 0) = false) by (apply Z.ltb_ge; lia).
  assert (E2 : (b <? 0) = false) by (apply Z.ltb_ge; lia).
  rewrite E1, E2.
  destruct (Z_le_gt_dec a (Z.of_nat (length l))) as [Hal|Hal].
  - replace (Z.to_nat (Z.min a (Z.of_nat (length l)))) with (Z.to_nat a) by lia.
    destruct (Z_le_gt_dec b (Z.of_nat (length l))) as [Hbl|Hbl].
    + f_equal. lia.
    + rewrite (firstn_all2 (n := (Z.to_nat b - Z.to_nat a)%nat)) by (rewrite skipn_length; lia).
      apply firstn_all2. rewrite skipn_length. lia.
  - replace (Z.to_nat (Z.min a (Z.of_nat (length l)))) with (length l) by lia.
    rewrite skipn_all. rewrite (skipn_all2 l (n := Z.to_nat a)) by lia.
    rewrite !firstn_nil. reflexivity.
Qed.

Lemma py_slice_to_Z : forall (A : Type) (l : list A) a, 0 <= a ->
  py_slice l None (Some a) = firstn (Z.to_nat a) l.
Proof.
  intros A l a Ha. rewrite <- (Z2Nat.id a) at 1 by exact Ha. apply py_slice_to_nat.
Qed.

Lemma py_slice_from_Zn : forall (A : Type) (l : list A) a, 0 <= a ->
  py_slice l (Some a) None = skipn (Z.to_nat a) l.
Proof.
  intros A l a Ha. rewrite <- (Z2Nat.id a) at 1 by exact Ha. apply py_slice_from_nat.
Qed.

Lemma skipn_add : forall (A : Type) (x y : nat) (l : list A),
  skipn x (skipn y l) = skipn (y + x) l.
Proof.
  intros A x y. induction y as [|y IH]; intros l.
  - reflexivity.
  - destruct l as [|h l]; cbn [skipn Nat.add].
    + destruct x; reflexivity.
    + apply IH.
Qed.

(* l[a:] = l[a:b] + l[b:] *)
Lemma py_slice_tile : forall (A : Type) (l : list A) a b, 0 <= a -> a <= b ->
  py_slice l (Some a) None = py_slice l (Some a) (Some b) ++ py_slice l (Some b) None.
Proof.
  intros A l a b Ha Hab.
  rewrite py_slice_mid_Z by assumption.
  rewrite !py_slice_from_Zn by lia.
  replace (skipn (Z.to_nat b) l)
    with (skipn (Z.to_nat b - Z.to_nat a) (skipn (Z.to_nat a) l)).
  - symmetry. apply firstn_skipn.
  - rewrite skipn_add. f_equal. lia.
Qed.

Lemma split5_tiles : forall (A : Type) (l : list A) c ib start stop,
  0 <= ib -> ib <= start -> start <= stop -> 0 <= c ->
  let '(p0, p1, p2, p3, p4) := split5 l c ib start stop in
  l = p0 ++ p1 ++ p2 ++ p3 ++ p4.
Proof.
  intros A l c ib start stop Hib Hst Hsp Hc. unfold split5.
  rewrite <- (py_slice_tile A l (start + c) (stop + c)) by lia.
  rewrite <- (py_slice_tile A l start (start + c)) by lia.
  rewrite <- (py_slice_tile A l ib start) by lia.
  rewrite py_slice_to_Z, py_slice_from_Zn by exact Hib.
  symmetry. apply firstn_skipn.
Qed.

Lemma parts_after_perm : forall (A : Type) (l : list A) c ib start stop,
  0 <= ib -> ib <= start -> start <= stop -> 0 <= c ->
  Permutation (parts_after (split5 l c ib start stop)) l.
Proof.
  intros A l c ib start stop Hib Hst Hsp Hc.
  pose proof (split5_tiles A l c ib start stop Hib Hst Hsp Hc) as Ht.
  destruct (split5 l c ib start stop) as [[[[p0 p1] p2] p3] p4].
  cbn [parts_after]. rewrite Ht at 1.
  apply Permutation_app_head. apply Permutation_app_head.
  rewrite !app_assoc. apply Permutation_app_tail. apply Permutation_app_comm.
Qed.

Lemma parts_before_perm : forall (A : Type) (l : list A) c ib start stop,
  0 <= ib -> ib <= start -> start <= stop -> 0 <= c ->
  Permutation (parts_before (split5 l c ib start stop)) l.
Proof.
  intros A l c ib start stop Hib Hst Hsp Hc.
  pose proof (split5_tiles A l c ib start stop Hib Hst Hsp Hc) as Ht.
  destruct (split5 l c ib start stop) as [[[[p0 p1] p2] p3] p4].
  cbn [parts_before]. rewrite Ht at 1.
  apply Permutation_app_head.
  rewrite !app_assoc. apply Permutation_app_tail. apply Permutation_app_tail.
  apply Permutation_app_comm.
Qed.

Theorem moved_is_permutation :
  forall best c ib start stop,
    wf best ->
    let ps := split5 (tc_parts best) c ib start stop in
    let fs := split5 (tc_red best) c ib start stop in
    0 <= ib -> ib <= start -> start <= stop -> 0 <= c ->
    Permutation.Permutation (tc_parts (moved best (parts_after ps) (parts_after fs))) (tc_parts best) /\
    Permutation.Permutation (tc_parts (moved best (parts_before ps) (parts_before fs))) (tc_parts best) /\
    wf (moved best (parts_after ps) (parts_after fs)) /\ wf (moved best (parts_before ps) (parts_before fs)).
Proof.
  intros best c ib start stop Hwf ps fs Hib Hst Hsp Hc. subst ps fs.
  unfold moved at 1 2. cbn [tc_parts].
  split; [apply parts_after_perm; assumption|].
  split; [apply parts_before_perm; assumption|].
  split; [apply moved_after_wf; exact Hwf | apply moved_before_wf; exact Hwf].
Qed.

Print Assumptions pairs_move_is_frame_preserving.
Print Assumptions pairs_move_loaded_keeps_frame.
Print Assumptions moved_is_permutation.
