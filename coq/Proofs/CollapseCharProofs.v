(* minimize-collapse-brace in CHAR mode (Props/C09c.v):
     - collapse_le: re.sub(rb"{\s+}", b"{ }", raw) never lengthens raw;
     - collapse_char_bounded: the termination / test-count bound end to end on a file loaded in
       char mode, through CollapseBound.minimize_bounded_rel with the invariant
       Qchar = "all atoms reducible and every atom is a single byte";
     - collapse_symbol_custom_post_refuted: with cut-after = {space} the symbol re-split of a
       collapsed region has more atoms than before, so post_ok fails for that splitter.
   No axioms. *)
From Coq Require Import ZArith NArith List Bool Lia ZifyBool Arith.
From Lithium Require Import PyBase TcRecord Util Testcase Spec Driver TraceSpec Minimize StratSpec
  TestcaseProofs DriverProofs MinimizeBound PyLines Markers Splitters SplitSpec SplitProofs
  Collapse FrameProofs CollapseBound.
Import ListNotations.
Open Scope Z_scope.

(* ------------------------------------------------------------------ *)
(* 1. collapsing never lengthens                                      *)
(* ------------------------------------------------------------------ *)

(* a match consumes at least one whitespace byte and the closing brace *)
Lemma ws_then_close_bounds : forall r k, ws_then_close r = Some k ->
  (1 <= k)%nat /\ (S k <= length r)%nat.
Proof.
  intros r k H. unfold ws_then_close in H. cbv zeta in H.
  destruct (SplitAttrs.run SplitAttrs.is_ws r) as [|k0] eqn:Ek; [discriminate H|].
  destruct (nth_error r (S k0)) as [c|] eqn:En; [|discriminate H].
  destruct (c =? 125)%N; [|discriminate H].
  injection H as H. subst k.
  assert (Hlt : (S k0 < length r)%nat).
  { apply nth_error_Some. rewrite En. discriminate. }
  lia.
Qed.

Lemma collapse_len_aux : forall n d, (length d <= n)%nat ->
  (length (collapse d) <= length d)%nat.
Proof.
  induction n as [|n IH]; intros d Hn; destruct d as [|c r].
  - apply le_n.
  - cbn [length] in Hn. lia.
  - apply le_n.
  - cbn [length] in Hn. rewrite collapse_cons.
    assert (Hcopy : (length (c :: collapse r) <= length (c :: r))%nat).
    { cbn [length]. pose proof (IH r ltac:(lia)) as Hr. lia. }
    destruct (c =? 123)%N; [|exact Hcopy].
    destruct (ws_then_close r) as [k|] eqn:Ew; [|exact Hcopy].
    destruct (ws_then_close_bounds r k Ew) as [Hk1 Hk2].
    pose proof (skipn_length (S k) r) as Hs.
    pose proof (IH (skipn (S k) r) ltac:(lia)) as Hr.
    rewrite app_length. cbn [length]. lia.
Qed.

Lemma collapse_len : forall d, (length (collapse d) <= length d)%nat.
Proof. intros d. apply (collapse_len_aux (length d) d (le_n _)). Qed.

Lemma collapse_le : forall raw, zlen (collapse raw) <= zlen raw.
Proof. intros raw. unfold zlen. pose proof (collapse_len raw) as H. lia. Qed.

(* ------------------------------------------------------------------ *)
(* 2. the invariant of char-mode testcases                            *)
(* ------------------------------------------------------------------ *)

Definition one_byte (p : bytes) : Prop := length p = 1%nat.

Definition Qchar (best : tcase) : Prop :=
  Forall (fun b => b = true) (tc_red best) /\ Forall one_byte (tc_parts best).

Lemma Qchar_sub_closed : sub_closed Qchar.
Proof.
  intros best t Hwf [Hred Hparts] (_ & _ & Hwt & Hsub).
  rewrite <- (zipped_red best Hwf) in Hred. rewrite <- (zipped_parts best Hwf) in Hparts.
  rewrite Forall_map in Hred, Hparts.
  unfold Qchar. rewrite <- (zipped_red t Hwt), <- (zipped_parts t Hwt), !Forall_map.
  split.
  - exact (subred_Forall _ _ _ Hsub Hred).
  - exact (subred_Forall _ _ _ Hsub Hparts).
Qed.

Lemma singletons_one_byte : forall d : bytes, Forall one_byte (map (fun b => [b]) d).
Proof.
  intros d. apply Forall_forall. intros p Hin.
  apply in_map_iff in Hin. destruct Hin as (b & Hb & _). subst p. reflexivity.
Qed.

Lemma concat_one_byte_length : forall ps : list bytes,
  Forall one_byte ps -> length (concat ps) = length ps.
Proof.
  intros ps H. induction H as [|p ps Hp _ IH]; [reflexivity|].
  cbn [concat length]. rewrite app_length, IH. unfold one_byte in Hp. lia.
Qed.

Lemma collapse_char_post_ok_rel : post_ok_rel Qchar (collapse_post split_char).
Proof.
  intros best raw r Hwf [Hred Hparts] Hp.
  unfold collapse_post in Hp. cbv zeta in Hp.
  destruct (bytes_eqb (concat (tc_parts best)) (collapse (concat (tc_parts best))));
    [discriminate Hp|].
  injection Hp as _ Hr2.
  unfold split_char in Hr2. cbn [bind sp_before sp_parts sp_red sp_after] in Hr2.
  eexists. split; [symmetry; exact Hr2|]. cbn [tc_parts tc_red].
  split; [apply all_true_length|]. split; [split|].
  - apply all_true_Forall.
  - cbn [tc_parts]. apply singletons_one_byte.
  - unfold tc_len. cbn [tc_parts tc_red].
    rewrite (count_false_all_true _ (all_true_Forall _ _)), (count_false_all_true _ Hred).
    unfold zlen. rewrite map_length.
    pose proof (collapse_len (concat (tc_parts best))) as Hle.
    pose proof (concat_one_byte_length _ Hparts) as Hc.
    unfold bytes in *. lia.
Qed.

Lemma load_split_char_shape : forall d t, load split_char d = Ok t ->
  exists m : bytes, tc_parts t = map (fun b => [b]) m /\
                    tc_red t = all_true (map (fun b => [b]) m).
Proof.
  intros d t H. unfold load in H.
  destruct (find_markers d) as [w|b m a|].
  - unfold split_char in H. cbn [bind sp_before sp_parts sp_red sp_after] in H.
    injection H as H. subst t. exists w. split; reflexivity.
  - unfold split_char in H. cbn [bind sp_before sp_parts sp_red sp_after] in H.
    injection H as H. subst t. exists m. split; reflexivity.
  - discriminate H.
Qed.

Lemma Forall_removelast : forall A (P : A -> Prop) l, Forall P l -> Forall P (removelast l).
Proof.
  intros A P l H. induction H as [|x l Hx Hl IH]; [constructor|].
  cbn [removelast]. destruct l as [|y l']; [constructor|].
  constructor; [exact Hx | exact IH].
Qed.

Lemma load_char_Qchar : forall d t, load_char d = Ok t -> wf t /\ Qchar t.
Proof.
  intros d t H.
  destruct (proj1 load_char_ok d t H) as (_ & _ & Hwf).
  split; [exact Hwf|].
  unfold load_char in H.
  destruct (load split_char d) as [t0|e] eqn:Hld; cbn [bind] in H; [|discriminate H].
  injection H as H. subst t.
  destruct (load_split_char_shape d t0 Hld) as (m & Hparts & Hred).
  assert (HQ0 : Qchar t0).
  { unfold Qchar. rewrite Hparts, Hred.
    split; [apply all_true_Forall | apply singletons_one_byte]. }
  destruct HQ0 as [HQr HQp].
  destruct (char_fixup_shape t0) as [E|(lst & rest & Hp & E)]; rewrite E.
  - split; assumption.
  - unfold Qchar. cbn [tc_parts tc_red]. split.
    + apply Forall_removelast. exact HQr.
    + rewrite Hp in HQp. apply Forall_app in HQp. destruct HQp as [HQp _]. exact HQp.
Qed.

(* ------------------------------------------------------------------ *)
(* 3. the lemma used by Props/C09c.v                                  *)
(* ------------------------------------------------------------------ *)

Lemma collapse_char_bounded :
  forall cfg clk verdict d tc0 fuel,
    load_char d = Ok tc0 -> valid_cfg cfg ->
    (Z.to_nat (2 * c09_bound (tc_len tc0)) <= fuel)%nat ->
    let r := Driver.run (collapse_brace cfg clk split_char) verdict fuel tc0 d in
    (forall w, r <> NoFuel w) /\ (forall e w, r <> Aborted (Some e) w) /\
    n_tests (chron (result_world r)) <= c09_bound (tc_len tc0).
Proof.
  intros cfg clk verdict d tc0 fuel Hld Hv Hfuel.
  destruct (load_char_Qchar d tc0 Hld) as [Hwf HQ].
  unfold collapse_brace.
  exact (minimize_bounded_rel Qchar (collapse_post split_char) collapse_char_post_ok_rel
           Qchar_sub_closed cfg clk verdict tc0 d fuel Hwf HQ Hv Hfuel).
Qed.

(* ------------------------------------------------------------------ *)
(* 4. symbol mode with custom delimiters: the re-split can grow       *)
(* ------------------------------------------------------------------ *)

(* one reducible atom "{\n}"; cut-before = {}, cut-after = {space}.  The collapsed region "{ }"
   re-splits to "{ " and "}": tc_len goes from 1 to 2 *)
Definition cx_symbol : tcase :=
  {| tc_before := []; tc_parts := [[123; 10; 125]]%N; tc_red := [true]; tc_after := [] |}.

Lemma collapse_symbol_custom_post_refuted :
  exists bs afs, ~ post_ok (collapse_post (split_symbol bs afs)).
Proof.
  exists [], [32%N]. intros H.
  assert (E : collapse_post (split_symbol [] [32%N]) cx_symbol =
              Some ([123; 32; 125]%N,
                    Ok {| tc_before := []; tc_parts := [[123; 32]; [125]]%N;
                          tc_red := [true; true]; tc_after := [] |}))
    by (vm_compute; reflexivity).
  destruct (H cx_symbol _ _ eq_refl E) as (t' & Hr & _ & Hlen).
  inversion Hr as [Ht']. subst t'. vm_compute in Hlen. apply Hlen. reflexivity.
Qed.

Print Assumptions collapse_le.
Print Assumptions collapse_char_bounded.
Print Assumptions collapse_symbol_custom_post_refuted.
