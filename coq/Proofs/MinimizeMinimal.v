(* 1-minimality of the result of the ddmin-style reducer (Model/Minimize.v) for a deterministic,
   not necessarily monotone, interestingness test.  Used by Props/C03.v.  No axioms.

   Two invariants over the driver loop (lsteps):
     - driver side (JI): the current best is the original with reducible atoms deleted, is
       accepted by f, has only non-empty atoms, and every content in the de-duplication list
       that f accepts is at least as long as the current best.  Every chunk proposal is
       strictly shorter than the best, so a proposal that is SKIPPED as a duplicate was
       rejected before.
     - strategy side (MI + LSP): chunk sizes stay >= 1, min chunk = 1, and during a sweep at
       chunk size 1 that has not removed anything yet, every single atom at a position
       >= chunk_end has already been shown not to be removable. *)
From Coq Require Import ZArith NArith List Bool Lia ZifyBool.
From Lithium Require Import PyBase TcRecord Util Testcase Spec Driver TraceSpec Minimize StratSpec
  TestcaseProofs DriverProofs.
Import ListNotations.
Open Scope Z_scope.

Definition mm_one_minimal (f : bytes -> bool) (tf : tcase) : Prop :=
  forall i t', 0 <= i < tc_len tf -> rmslice tf i (i + 1) = Ok t' -> f (content t') = false.

(* ------------------------------------------------------------------ *)
(* arithmetic                                                         *)
(* ------------------------------------------------------------------ *)

Lemma mm_shr1 : forall x, py_shr x 1 = x / 2.
Proof.
  intros x. unfold py_shr. rewrite Z.shiftr_div_pow2 by lia. reflexivity.
Qed.

Lemma mm_half_ge1 : forall x, 2 <= x -> 1 <= x / 2.
Proof. intros x Hx. apply Z.div_le_lower_bound; lia. Qed.

Lemma mm_halve_ge1 : forall fuel cs len, 1 <= cs -> 1 <= halve fuel cs len.
Proof.
  intros fuel. induction fuel as [|fuel IH]; intros cs len Hcs; cbn [halve]; [exact Hcs|].
  destruct (cs >? 1) eqn:E1; [|exact Hcs].
  assert (Hh : 1 <= py_shr cs 1) by (rewrite mm_shr1; apply mm_half_ge1; lia).
  destruct (py_shr cs 1 <? len) eqn:E2; [exact Hh|].
  apply IH. exact Hh.
Qed.

Lemma mm_shl1_pos : forall k, 0 <= k -> 1 <= py_shl 1 k.
Proof.
  intros k Hk. unfold py_shl. rewrite Z.shiftl_mul_pow2 by exact Hk.
  pose proof (Z.pow_pos_nonneg 2 k ltac:(lia) Hk). lia.
Qed.

Lemma mm_ipot_ge1 : forall x, is_power_of_two x = true -> 1 <= x.
Proof.
  intros x H. unfold is_power_of_two in H. apply Z.eqb_eq in H.
  pose proof (mm_shl1_pos (Z.max (bit_length x - 1) 0) ltac:(lia)) as Hp. lia.
Qed.

Lemma mm_lpot_ge1 : forall n, 1 <= largest_power_of_two_smaller_than n.
Proof.
  intros n. unfold largest_power_of_two_smaller_than.
  pose proof (mm_shl1_pos (Z.max (bit_length n - 1) 0) ltac:(lia)) as Hp.
  set (r := py_shl 1 (Z.max (bit_length n - 1) 0)) in *.
  destruct ((r =? n) && (n >? 1)) eqn:E; [|exact Hp].
  apply andb_true_iff in E. destruct E as [E1 E2]. apply Z.eqb_eq in E1.
  rewrite mm_shr1. apply mm_half_ge1. lia.
Qed.

Lemma mm_clamp_id : forall n x, 0 <= x <= n -> py_clamp n x = x.
Proof.
  intros n x Hx. unfold py_clamp. destruct (x <? 0) eqn:E; lia.
Qed.

(* ------------------------------------------------------------------ *)
(* deleting one block                                                 *)
(* ------------------------------------------------------------------ *)

Lemma mm_subred_nonempty : forall l l', subred l l' ->
  Forall (fun x : bytes * bool => fst x <> []) l -> Forall (fun x : bytes * bool => fst x <> []) l'.
Proof.
  intros l l' H. induction H as [|x l l' H IH|p l l' H IH]; intros HF.
  - exact HF.
  - inversion HF as [|x0 l0 Hx Hl]; subst. constructor; [exact Hx | apply IH; exact Hl].
  - inversion HF as [|x0 l0 Hx Hl]; subst. apply IH. exact Hl.
Qed.

Lemma mm_sub_reducible_nonempty : forall t t', wf t -> sub_reducible t t' ->
  Forall (fun p : bytes => p <> []) (tc_parts t) -> Forall (fun p : bytes => p <> []) (tc_parts t').
Proof.
  intros t t' Hwf (_ & _ & Hwf' & Hs) HF.
  rewrite <- (zipped_parts t Hwf) in HF. rewrite Forall_map in HF.
  rewrite <- (zipped_parts t' Hwf'). rewrite Forall_map.
  exact (mm_subred_nonempty _ _ Hs HF).
Qed.

Lemma mm_block : forall best cs ce t,
  wf best -> 1 <= cs -> 1 <= ce <= tc_len best ->
  rmslice best (Z.max 0 (ce - cs)) ce = Ok t ->
  wf t /\ sub_reducible best t /\
  tc_len t = tc_len best - (ce - Z.max 0 (ce - cs)) /\
  (Forall (fun p : bytes => p <> []) (tc_parts best) ->
   (length (content t) < length (content best))%nat).
Proof.
  intros best cs ce t Hwf Hcs Hce Hrm.
  assert (Hlo : py_clamp (tc_len best) (Z.max 0 (ce - cs)) = Z.max 0 (ce - cs))
    by (apply mm_clamp_id; lia).
  assert (Hhi : py_clamp (tc_len best) ce = ce) by (apply mm_clamp_id; lia).
  pose proof (rmslice_spec best _ _ t Hwf Hrm) as Hs. cbv zeta in Hs.
  rewrite Hlo, Hhi in Hs. specialize (Hs ltac:(lia)).
  destruct Hs as (Hwt & _ & _ & _ & Hlen).
  split; [exact Hwt|]. split; [|split; [exact Hlen|]].
  - apply (rmslice_sub_reducible best _ _ t Hwf Hrm). rewrite Hlo, Hhi. lia.
  - intros HF. apply (rmslice_content_lt best _ _ t Hwf Hrm HF). rewrite Hlo, Hhi. lia.
Qed.

(* ------------------------------------------------------------------ *)
(* the strategy: shape of one step                                    *)
(* ------------------------------------------------------------------ *)

(* continuation of a chunk proposal made in state s *)
Definition k_of (s : mstate) : outcome -> mstate := fun o =>
  match o with
  | Tested true =>
      {| m_chunk_size := m_chunk_size s; m_min_chunk := m_min_chunk s;
         m_chunk_end := fst (block_of s); m_removed := true;
         m_deadline := m_deadline s; m_reads := m_reads s; m_phase := PHead |}
  | _ =>
      {| m_chunk_size := m_chunk_size s; m_min_chunk := m_min_chunk s;
         m_chunk_end := if m_chunk_size s <=? 2 then m_chunk_end s - 1
                        else m_chunk_end s - m_chunk_size s;
         m_removed := m_removed s;
         m_deadline := m_deadline s; m_reads := m_reads s; m_phase := PHead |}
  end.

Lemma propose_chunk_eq : forall s best,
  propose_chunk s best =
  match rmslice best (fst (block_of s)) (m_chunk_end s) with
  | Err e => Fail e
  | Ok t => Propose t (k_of s)
  end.
Proof. intros s best. unfold propose_chunk. rewrite copy_id. reflexivity. Qed.

Record MI (s : mstate) (best : tcase) : Prop := {
  mi_phase : m_phase s = PHead;
  mi_dead : m_deadline s = None;
  mi_cs : 1 <= m_chunk_size s;
  mi_min : m_min_chunk s = 1;
  mi_ce : m_chunk_end s <= tc_len best
}.

Lemma mnext_MI : forall cfg clk s best, MI s best ->
  mnext cfg clk no_post s best =
  if m_chunk_end s - m_chunk_size s <? 0 then
    if tc_len best =? 0 then Done else decide cfg s best
  else propose_chunk s best.
Proof.
  intros cfg clk s best HI. destruct HI as [Hp Hd _ _ _].
  destruct s as [cs mc ce rm dl rd ph]. cbn [m_phase m_deadline] in Hp, Hd. subst ph dl.
  reflexivity.
Qed.

Lemma decide_state_MI : forall cfg s best s', MI s best ->
  decide_state cfg s best = Some s' ->
  MI s' best /\ m_chunk_end s' = tc_len best /\ m_removed s' = false.
Proof.
  intros cfg s best s' HI Hd. destruct HI as [Hp Hdl Hcs Hmin Hce].
  unfold decide_state in Hd.
  destruct (m_chunk_size s <=? m_min_chunk s) eqn:E1.
  - destruct (m_removed s && repeats_last_or_always (c_repeat cfg)) eqn:E2; [|discriminate Hd].
    injection Hd as Hd. subst s'. cbn [m_chunk_end m_removed].
    split; [|split; reflexivity].
    constructor; cbn [m_phase m_deadline m_chunk_size m_min_chunk m_chunk_end];
      try assumption; try reflexivity; try lia.
  - destruct (m_removed s && is_always (c_repeat cfg) && (m_chunk_size s <? tc_len best)) eqn:E2;
      injection Hd as Hd; subst s'; cbn [m_chunk_end m_removed];
      (split; [|split; reflexivity]);
      constructor; cbn [m_phase m_deadline m_chunk_size m_min_chunk m_chunk_end];
      try assumption; try reflexivity; try lia.
    exact (mm_halve_ge1 (halve_fuel (m_chunk_size s)) (m_chunk_size s) (tc_len best) Hcs).
Qed.

Lemma decide_state_none : forall cfg s best, MI s best ->
  decide_state cfg s best = None ->
  m_chunk_size s = 1 /\ (m_removed s = false \/ c_repeat cfg = Never).
Proof.
  intros cfg s best HI Hd. destruct HI as [Hp Hdl Hcs Hmin Hce].
  unfold decide_state in Hd.
  destruct (m_chunk_size s <=? m_min_chunk s) eqn:E1.
  - split; [lia|].
    destruct (m_removed s) eqn:E2; [|left; reflexivity].
    destruct (c_repeat cfg) eqn:E3; cbn [andb repeats_last_or_always] in Hd;
      try discriminate Hd. right. reflexivity.
  - destruct (m_removed s && is_always (c_repeat cfg) && (m_chunk_size s <? tc_len best));
      discriminate Hd.
Qed.

Lemma decide_state_never : forall cfg s best,
  c_repeat cfg = Never -> m_chunk_size s <= m_min_chunk s -> decide_state cfg s best = None.
Proof.
  intros cfg s best Hr Hle. unfold decide_state.
  destruct (m_chunk_size s <=? m_min_chunk s) eqn:E1; [|lia].
  rewrite Hr. cbn [repeats_last_or_always]. rewrite andb_false_r. reflexivity.
Qed.

(* one step of the strategy from a state satisfying MI: either it stops (at a round end, with
   nothing left or with decide_state = None), or it proposes the block of a state s' that is
   s itself or the state chosen by decide_state *)
Lemma mnext_shape : forall cfg clk s best, MI s best -> wf best ->
  (mnext cfg clk no_post s best = Done /\
   m_chunk_end s - m_chunk_size s < 0 /\
   (tc_len best = 0 \/ decide_state cfg s best = None)) \/
  (exists s' t,
     MI s' best /\ 1 <= m_chunk_end s' /\
     (s' = s \/ (decide_state cfg s best = Some s' /\ m_chunk_end s' = tc_len best)) /\
     rmslice best (fst (block_of s')) (m_chunk_end s') = Ok t /\
     mnext cfg clk no_post s best = Propose t (k_of s')).
Proof.
  intros cfg clk s best HI Hwf. rewrite (mnext_MI cfg clk s best HI).
  pose proof (tc_len_nonneg best Hwf) as Hn.
  destruct (m_chunk_end s - m_chunk_size s <? 0) eqn:E1.
  - destruct (tc_len best =? 0) eqn:E2.
    + left. split; [reflexivity|]. split; [lia|]. left. lia.
    + unfold decide. destruct (decide_state cfg s best) as [s'|] eqn:E3.
      * right. destruct (decide_state_MI cfg s best s' HI E3) as (HI' & Hce' & _).
        destruct (rmslice_total best (fst (block_of s')) (m_chunk_end s') Hwf) as [t Ht].
        exists s', t. split; [exact HI'|]. split; [lia|].
        split; [right; split; [reflexivity | exact Hce']|]. split; [exact Ht|].
        rewrite propose_chunk_eq, Ht. reflexivity.
      * left. split; [reflexivity|]. split; [lia|]. right. reflexivity.
  - right. destruct (rmslice_total best (fst (block_of s)) (m_chunk_end s) Hwf) as [t Ht].
    exists s, t. split; [exact HI|]. split; [pose proof (mi_cs _ _ HI); lia|].
    split; [left; reflexivity|]. split; [exact Ht|].
    rewrite propose_chunk_eq, Ht. reflexivity.
Qed.

Lemma k_of_fail_MI : forall s best o, MI s best -> o <> Tested true -> MI (k_of s o) best.
Proof.
  intros s best o HI Ho. destruct HI as [Hp Hdl Hcs Hmin Hce].
  assert (HE : k_of s o = k_of s Skipped).
  { destruct o as [|b]; [reflexivity|]. destruct b; [exfalso; apply Ho; reflexivity|reflexivity]. }
  rewrite HE. unfold k_of.
  constructor; cbn [m_phase m_deadline m_chunk_size m_min_chunk m_chunk_end];
    try assumption; try reflexivity.
  destruct (m_chunk_size s <=? 2); lia.
Qed.

Lemma k_of_succ_MI : forall s best t, MI s best -> wf best -> 1 <= m_chunk_end s ->
  rmslice best (fst (block_of s)) (m_chunk_end s) = Ok t ->
  MI (k_of s (Tested true)) t.
Proof.
  intros s best t HI Hwf H1 Hrm. destruct HI as [Hp Hdl Hcs Hmin Hce].
  unfold block_of in Hrm. cbn [fst] in Hrm.
  destruct (mm_block best _ _ t Hwf Hcs (conj H1 Hce) Hrm) as (_ & _ & Hlen & _).
  unfold k_of, block_of.
  constructor; cbn [m_phase m_deadline m_chunk_size m_min_chunk m_chunk_end fst];
    try assumption; try reflexivity.
  lia.
Qed.

(* ------------------------------------------------------------------ *)
(* the last-sweep property                                            *)
(* ------------------------------------------------------------------ *)

Section WithTest.
Variable f : bytes -> bool.

Definition LSP (s : mstate) (best : tcase) : Prop :=
  m_chunk_size s = 1 -> m_removed s = false ->
  forall i t', 0 <= i -> m_chunk_end s <= i < tc_len best ->
               rmslice best i (i + 1) = Ok t' -> f (content t') = false.

Lemma LSP_fresh : forall s best, m_chunk_end s = tc_len best -> LSP s best.
Proof. intros s best He Hc Hr i t' H0 Hi. lia. Qed.

Lemma LSP_succ : forall s t, LSP (k_of s (Tested true)) t.
Proof. intros s t Hc Hr. cbn [k_of m_removed] in Hr. discriminate Hr. Qed.

Lemma LSP_fail : forall s best t o,
  1 <= m_chunk_end s -> LSP s best ->
  rmslice best (fst (block_of s)) (m_chunk_end s) = Ok t -> f (content t) = false ->
  o <> Tested true -> LSP (k_of s o) best.
Proof.
  intros s best t o H1 HL Hrm Hf Ho.
  assert (HE : k_of s o = k_of s Skipped).
  { destruct o as [|b]; [reflexivity|]. destruct b; [exfalso; apply Ho; reflexivity|reflexivity]. }
  rewrite HE. intros Hc Hr i t' H0 Hi Hrm'.
  cbn [k_of m_chunk_size m_removed m_chunk_end] in Hc, Hr, Hi.
  rewrite Hc in Hi. change (1 <=? 2) with true in Hi. cbv iota in Hi.
  destruct (Z.eq_dec i (m_chunk_end s - 1)) as [Heq|Hne].
  - unfold block_of in Hrm. cbn [fst] in Hrm. rewrite Hc in Hrm.
    replace (Z.max 0 (m_chunk_end s - 1)) with i in Hrm by lia.
    replace (m_chunk_end s) with (i + 1) in Hrm by lia.
    rewrite Hrm in Hrm'. injection Hrm' as Hrm'. subst t'. exact Hf.
  - apply (HL Hc Hr i t' H0); [lia | exact Hrm'].
Qed.

(* when the strategy stops, the last-sweep property covers every atom *)
Lemma done_one_minimal : forall cfg clk s best,
  c_repeat cfg <> Never -> MI s best -> LSP s best -> wf best ->
  mnext cfg clk no_post s best = Done -> mm_one_minimal f best.
Proof.
  intros cfg clk s best Hrep HI HL Hwf Hd.
  destruct (mnext_shape cfg clk s best HI Hwf) as [(_ & Hlt & Hc)|(s' & t & _ & _ & _ & _ & Hp)].
  - destruct Hc as [Hz|Hn].
    + intros i t' Hi _. lia.
    + destruct (decide_state_none cfg s best HI Hn) as [Hcs [Hr|Hr]]; [|exact (False_ind _ (Hrep Hr))].
      intros i t' Hi Hrm. apply (HL Hcs Hr i t'); [lia | lia | exact Hrm].
  - rewrite Hp in Hd. discriminate Hd.
Qed.

(* ------------------------------------------------------------------ *)
(* driver-side invariant                                              *)
(* ------------------------------------------------------------------ *)

Lemma det_yes : forall w t w', interesting (det f) w t true = (w', Yes) -> f (content t) = true.
Proof.
  intros w t w' H. apply interesting_true_inv in H. destruct H as [H _].
  unfold det in H. destruct (f (content t)); [reflexivity | discriminate H].
Qed.

Lemma det_no : forall w t w', interesting (det f) w t true = (w', No) -> f (content t) = false.
Proof.
  intros w t w' H. apply interesting_true_inv in H. destruct H as [H _].
  unfold det in H. destruct (f (content t)); [discriminate H | reflexivity].
Qed.

Lemma det_never_raises : forall w t w', interesting (det f) w t true <> (w', Raise).
Proof.
  intros w t w' H. apply interesting_true_inv in H. destruct H as [H _].
  unfold det in H. destruct (f (content t)); discriminate H.
Qed.

Record JI (tc0 : tcase) (it : iter) : Prop := {
  ji_wf : wf (it_best it);
  ji_ne : Forall (fun p : bytes => p <> []) (tc_parts (it_best it));
  ji_sub : sub_reducible tc0 (it_best it);
  ji_f : f (content (it_best it)) = true;
  ji_tried : forall c, In c (it_tried it) -> f c = true ->
                       (length (content (it_best it)) <= length c)%nat
}.

Definition KI (cfg : mcfg) (tc0 : tcase) (st : mstate) (it : iter) : Prop :=
  JI tc0 it /\ MI st (it_best it) /\ LSP st (it_best it).

Definition on_KI (cfg : mcfg) (tc0 : tcase) (s : lstate mstate) : Prop :=
  match s with LS st it _ => KI cfg tc0 st it end.

Lemma KI_step : forall cfg clk tc0 a b,
  lstep (minimize cfg clk no_post) (det f) a b -> on_KI cfg tc0 a -> on_KI cfg tc0 b.
Proof.
  intros cfg clk tc0 a b Hstep. destruct Hstep as
    [st it w b0 st' Hn | st it w t k Hn Hm | st it w t k w' Hn Hm Hi | st it w t k w' Hn Hm Hi];
    cbn [on_KI]; intros (HJ & HI & HL);
    change (s_next (minimize cfg clk no_post) st (it_best it))
      with (mnext cfg clk no_post st (it_best it)) in Hn;
    pose proof (ji_wf _ _ HJ) as Hwf;
    (destruct (mnext_shape cfg clk st (it_best it) HI Hwf)
      as [(Hd & _)|(s' & t0 & HI' & H1 & Hs' & Hrm & Hp)];
     [rewrite Hd in Hn; discriminate Hn|]);
    rewrite Hp in Hn; try discriminate Hn;
    injection Hn as Ht Hk; subst t0 k.
  - (* skipped *)
    assert (HL' : LSP s' (it_best it)).
    { destruct Hs' as [Hs'|[_ Hs']]; [subst s'; exact HL | apply LSP_fresh; exact Hs']. }
    pose proof Hrm as Hrm0. unfold block_of in Hrm0. cbn [fst] in Hrm0.
    destruct (mm_block (it_best it) _ _ t Hwf (mi_cs _ _ HI') (conj H1 (mi_ce _ _ HI')) Hrm0)
      as (_ & _ & _ & Hlt).
    specialize (Hlt (ji_ne _ _ HJ)).
    assert (Hf : f (content t) = false).
    { destruct (f (content t)) eqn:E; [|reflexivity].
      apply mem_bytes_In in Hm. pose proof (ji_tried _ _ HJ _ Hm E). lia. }
    split; [exact HJ|]. split.
    + apply k_of_fail_MI; [exact HI' | discriminate].
    + apply (LSP_fail s' (it_best it) t Skipped H1 HL' Hrm Hf). discriminate.
  - (* accepted *)
    pose proof Hrm as Hrm0. unfold block_of in Hrm0. cbn [fst] in Hrm0.
    destruct (mm_block (it_best it) _ _ t Hwf (mi_cs _ _ HI') (conj H1 (mi_ce _ _ HI')) Hrm0)
      as (Hwt & Hsub & _ & Hlt).
    specialize (Hlt (ji_ne _ _ HJ)).
    cbn [it_best]. split; [|split].
    + constructor; cbn [it_best it_tried].
      * exact Hwt.
      * apply (mm_sub_reducible_nonempty (it_best it) t Hwf Hsub (ji_ne _ _ HJ)).
      * apply (sub_reducible_trans _ _ _ (ji_sub _ _ HJ) Hsub).
      * apply (det_yes _ _ _ Hi).
      * intros c [Hc|Hc] Hfc; [subst c; lia|].
        pose proof (ji_tried _ _ HJ _ Hc Hfc). lia.
    + apply (k_of_succ_MI s' (it_best it) t HI' Hwf H1 Hrm).
    + apply LSP_succ.
  - (* rejected *)
    assert (HL' : LSP s' (it_best it)).
    { destruct Hs' as [Hs'|[_ Hs']]; [subst s'; exact HL | apply LSP_fresh; exact Hs']. }
    pose proof (det_no _ _ _ Hi) as Hf.
    cbn [it_best]. split; [|split].
    + constructor; cbn [it_best it_tried]; try apply HJ.
      intros c [Hc|Hc] Hfc; [subst c; rewrite Hf in Hfc; discriminate Hfc|].
      apply (ji_tried _ _ HJ _ Hc Hfc).
    + apply k_of_fail_MI; [exact HI' | discriminate].
    + apply (LSP_fail s' (it_best it) t (Tested false) H1 HL' Hrm Hf). discriminate.
Qed.

Lemma KI_steps : forall cfg clk tc0 a b,
  lsteps (minimize cfg clk no_post) (det f) a b -> on_KI cfg tc0 a -> on_KI cfg tc0 b.
Proof.
  intros cfg clk tc0 a b Hs. induction Hs as [s|a b c Hab Hbc IH]; intros Ha.
  - exact Ha.
  - apply IH. eapply KI_step; eassumption.
Qed.

Lemma mstart_MI : forall cfg clk tc0,
  c_min cfg = 1 -> is_power_of_two (c_max cfg) = true -> c_limit cfg = None ->
  MI (mstart cfg clk tc0) tc0 /\ m_chunk_end (mstart cfg clk tc0) = tc_len tc0.
Proof.
  intros cfg clk tc0 Hmin Hmax Hlim. split; [|reflexivity].
  pose proof (mm_ipot_ge1 _ Hmax) as H1. pose proof (mm_lpot_ge1 (tc_len tc0)) as H2.
  unfold mstart. rewrite Hlim, Hmin.
  constructor; cbn [m_phase m_deadline m_chunk_size m_min_chunk m_chunk_end];
    try reflexivity; lia.
Qed.

End WithTest.

(* ------------------------------------------------------------------ *)
(* end of a run                                                       *)
(* ------------------------------------------------------------------ *)

Lemma det_loop_not_raise : forall S (strat : strategy S) f fuel st it w w',
  loop strat (det f) fuel st it w <> Aborted None w'.
Proof.
  intros S strat f fuel st it w w' H.
  destruct (loop_follows_lsteps S strat (det f) fuel st it w _ H) as (st' & it' & w1 & _ & Hm).
  cbv beta iota in Hm. destruct Hm as (t & k & _ & _ & Hi).
  exact (det_never_raises f _ _ _ Hi).
Qed.

(* the file left by a finished loop is the content of the final best *)
Lemma loop_finished_file : forall S (strat : strategy S) verdict fuel tc0 file0 rc wf,
  loop strat verdict fuel (s_start strat tc0) (it0 tc0) (wY tc0 file0) = Finished rc wf ->
  exists st' it' w',
    lsteps strat verdict (LS (s_start strat tc0) (it0 tc0) (wY tc0 file0)) (LS st' it' w') /\
    s_next strat st' (it_best it') = Done /\
    rc = (if it_any it' then 0 else 1) /\
    w_file (finally wf) = content (it_best it').
Proof.
  intros S strat verdict fuel tc0 file0 rc wf Hr.
  destruct (loop_follows_lsteps S strat verdict fuel _ _ _ _ Hr) as (st' & it' & w' & Hs & Hm).
  cbv beta iota in Hm. destruct Hm as (Hd & Hwf & Hrc).
  exists st', it', w'. split; [exact Hs|]. split; [exact Hd|]. split; [exact Hrc|].
  pose proof (lsteps_good S strat verdict None _ _ Hs (good_start_G tc0 file0)) as Hg.
  cbn [on_state] in Hg. destruct Hg as [[HG _] _].
  subst wf. apply file_finally.
  - cbn [write_file w_last]. apply (g_last _ _ HG).
  - right. reflexivity.
Qed.

Lemma det_first_yes : forall f file0, f file0 = true -> det f 1 file0 = Yes.
Proof. intros f file0 H. unfold det. rewrite H. reflexivity. Qed.

(* ------------------------------------------------------------------ *)
(* C03, first theorem, assuming the loop finishes                      *)
(* ------------------------------------------------------------------ *)

Lemma minimize_one_minimal_loop :
  forall cfg clk f tc0 file0 fuel rc wfin,
    wf tc0 -> Forall (fun p => p <> []) (tc_parts tc0) ->
    c_min cfg = 1 -> is_power_of_two (c_max cfg) = true -> c_repeat cfg <> Never ->
    c_limit cfg = None ->
    f (content tc0) = true ->
    loop (minimize cfg clk no_post) (det f) fuel (mstart cfg clk tc0) (it0 tc0) (wY tc0 file0)
      = Finished rc wfin ->
    exists tf,
      sub_reducible tc0 tf /\ w_file (finally wfin) = content tf /\ f (content tf) = true /\
      mm_one_minimal f tf.
Proof.
  intros cfg clk f tc0 file0 fuel rc wf0 Hwf Hne Hmin Hmax Hrep Hlim Hf Hr.
  destruct (loop_finished_file mstate (minimize cfg clk no_post) (det f) fuel tc0 file0 rc wf0 Hr)
    as (st' & it' & w' & Hs & Hd & _ & Hfile).
  destruct (mstart_MI cfg clk tc0 Hmin Hmax Hlim) as [HI0 Hce0].
  assert (H0 : on_KI f cfg tc0 (LS (mstart cfg clk tc0) (it0 tc0) (wY tc0 file0))).
  { cbn [on_KI]. split; [|split].
    - constructor; cbn [it0 it_best it_tried].
      + exact Hwf.
      + exact Hne.
      + apply sub_reducible_refl. exact Hwf.
      + exact Hf.
      + intros c Hc. destruct Hc.
    - exact HI0.
    - apply LSP_fresh. exact Hce0. }
  pose proof (KI_steps f cfg clk tc0 _ _ Hs H0) as HK. cbn [on_KI] in HK.
  destruct HK as (HJ & HI & HL).
  exists (it_best it'). split; [apply (ji_sub _ _ _ HJ)|]. split; [exact Hfile|].
  split; [apply (ji_f _ _ _ HJ)|].
  apply (done_one_minimal f cfg clk st' (it_best it') Hrep HI HL (ji_wf _ _ _ HJ)). exact Hd.
Qed.

(* the run does not run out of fuel and the strategy does not raise (provided by
   MinimizeBound.minimize_bounded_no_post) *)
Definition run_terminates (r : result) : Prop :=
  (forall w, r <> NoFuel w) /\ (forall e w, r <> Aborted (Some e) w).

Lemma minimize_one_minimal_if_finished :
  forall cfg clk f tc0 file0 fuel,
    wf tc0 -> Forall (fun p => p <> []) (tc_parts tc0) -> content tc0 = file0 ->
    c_min cfg = 1 -> is_power_of_two (c_max cfg) = true -> c_repeat cfg <> Never ->
    c_limit cfg = None ->
    f file0 = true -> tc_len tc0 <> 0 ->
    run_terminates (run (minimize cfg clk no_post) (det f) fuel tc0 file0) ->
    exists rc w tf,
      run (minimize cfg clk no_post) (det f) fuel tc0 file0 = Finished rc w /\
      sub_reducible tc0 tf /\ w_file w = content tf /\ f (content tf) = true /\
      mm_one_minimal f tf.
Proof.
  intros cfg clk f tc0 file0 fuel Hwf Hne Hc Hmin Hmax Hrep Hlim Hf Hlen [HnoF HnoA].
  pose proof (det_first_yes f file0 Hf) as Hv.
  destruct (run_cases mstate (minimize cfg clk no_post) (det f) fuel tc0 file0)
    as [[Hl _]|[(_ & Hv' & _)|[(_ & Hv' & _)|(_ & _ & He)]]].
  - exfalso. exact (Hlen Hl).
  - rewrite Hv in Hv'. discriminate Hv'.
  - rewrite Hv in Hv'. discriminate Hv'.
  - cbn [s_start minimize] in He.
    destruct (loop (minimize cfg clk no_post) (det f) fuel (mstart cfg clk tc0) (it0 tc0)
                   (wY tc0 file0)) as [rc wfin|[e|] wfin|wfin] eqn:EL; cbn [map_world] in He.
    + subst file0.
      destruct (minimize_one_minimal_loop cfg clk f tc0 (content tc0) fuel rc wfin
                  Hwf Hne Hmin Hmax Hrep Hlim Hf EL) as (tf & Hsub & Hfile & Hft & Hom).
      exists rc, (finally wfin), tf. split; [exact He|].
      split; [exact Hsub|]. split; [exact Hfile|]. split; [exact Hft | exact Hom].
    + exfalso. exact (HnoA e (finally wfin) He).
    + exfalso. exact (det_loop_not_raise _ _ _ _ _ _ _ _ EL).
    + exfalso. exact (HnoF wfin He).
Qed.

(* ------------------------------------------------------------------ *)
(* C03, second theorem: a chunk-size-1 re-run on a 1-minimal file      *)
(* ------------------------------------------------------------------ *)

Section Noop.
Variable f : bytes -> bool.
Variable tf : tcase.
Hypothesis Hwf_tf : wf tf.
Hypothesis Hom_tf : mm_one_minimal f tf.

Definition NI (st : mstate) (it : iter) : Prop :=
  it_best it = tf /\ it_any it = false /\ MI st tf /\ m_chunk_size st = 1.

Definition on_NI (s : lstate mstate) : Prop :=
  match s with LS st it _ => NI st it end.

Lemma NI_step : forall cfg clk a b, c_repeat cfg = Never ->
  lstep (minimize cfg clk no_post) (det f) a b -> on_NI a -> on_NI b.
Proof.
  intros cfg clk a b Hrep Hstep. destruct Hstep as
    [st it w b0 st' Hn | st it w t k Hn Hm | st it w t k w' Hn Hm Hi | st it w t k w' Hn Hm Hi];
    cbn [on_NI]; intros (Hb & Hany & HI & Hcs);
    change (s_next (minimize cfg clk no_post) st (it_best it))
      with (mnext cfg clk no_post st (it_best it)) in Hn;
    rewrite Hb in Hn;
    (destruct (mnext_shape cfg clk st tf HI Hwf_tf)
      as [(Hd & _)|(s' & t0 & HI' & H1 & Hs' & Hrm & Hp)];
     [rewrite Hd in Hn; discriminate Hn|]);
    rewrite Hp in Hn; try discriminate Hn;
    injection Hn as Ht Hk; subst t0 k;
    (destruct Hs' as [Hs'|[Hs' _]];
     [subst s'
     |rewrite (decide_state_never cfg st tf Hrep) in Hs';
      [discriminate Hs' | rewrite Hcs, (mi_min _ _ HI); lia]]);
    (assert (Hf : f (content t) = false);
     [apply (Hom_tf (m_chunk_end st - 1) t);
      [pose proof (mi_ce _ _ HI); lia
      |rewrite <- Hrm; unfold block_of; cbn [fst]; rewrite Hcs; f_equal; lia]|]).
  - split; [exact Hb|]. split; [exact Hany|]. split.
    + apply k_of_fail_MI; [exact HI | discriminate].
    + exact Hcs.
  - pose proof (det_yes f _ _ _ Hi) as Hy. rewrite Hf in Hy. discriminate Hy.
  - cbn [it_best it_any]. split; [exact Hb|]. split; [exact Hany|]. split.
    + apply k_of_fail_MI; [exact HI | discriminate].
    + exact Hcs.
Qed.

Lemma NI_steps : forall cfg clk a b, c_repeat cfg = Never ->
  lsteps (minimize cfg clk no_post) (det f) a b -> on_NI a -> on_NI b.
Proof.
  intros cfg clk a b Hrep Hs. induction Hs as [s|a b c Hab Hbc IH]; intros Ha.
  - exact Ha.
  - apply IH. eapply NI_step; eassumption.
Qed.

End Noop.

Lemma mm_numbered_ge : forall l i e, numbered_from i l -> In e l -> i <= fst (test_nums e).
Proof.
  intros l. induction l as [|x l IH]; intros i e Hn Hin; [destruct Hin|].
  cbn [numbered_from] in Hn. destruct Hn as [Hx Hr]. destruct Hin as [Hin|Hin].
  - subst x. rewrite Hx. cbn [fst]. lia.
  - pose proof (IH (i + 1) e Hr Hin). lia.
Qed.

Definition cfg_one : mcfg :=
  {| c_min := 1; c_max := 1; c_repeat := Never; c_first := false; c_limit := None |}.

Lemma chunk_size_one_rerun_noop_if_finished :
  forall clk f tf fuel,
    wf tf -> f (content tf) = true -> mm_one_minimal f tf -> tc_len tf <> 0 ->
    run_terminates (run (minimize cfg_one clk no_post) (det f) fuel tf (content tf)) ->
    exists w, run (minimize cfg_one clk no_post) (det f) fuel tf (content tf) = Finished 1 w /\
              w_file w = content tf /\
              (forall k p g, In (ETest k p g Yes) (chron w) -> k = 1).
Proof.
  intros clk f tf fuel Hwf Hf Hom Hlen [HnoF HnoA].
  pose proof (det_first_yes f (content tf) Hf) as Hv.
  destruct (run_cases mstate (minimize cfg_one clk no_post) (det f) fuel tf (content tf))
    as [[Hl _]|[(_ & Hv' & _)|[(_ & Hv' & _)|(_ & _ & He)]]].
  - exfalso. exact (Hlen Hl).
  - rewrite Hv in Hv'. discriminate Hv'.
  - rewrite Hv in Hv'. discriminate Hv'.
  - pose proof He as He0. cbn [s_start minimize] in He.
    destruct (loop (minimize cfg_one clk no_post) (det f) fuel (mstart cfg_one clk tf) (it0 tf)
                   (wY tf (content tf))) as [rc wfin|[e|] wfin|wfin] eqn:EL;
      cbn [map_world] in He.
    + destruct (loop_finished_file mstate (minimize cfg_one clk no_post) (det f) fuel tf
                  (content tf) rc wfin EL) as (st' & it' & w' & Hs & _ & Hrc & Hfile).
      destruct (mstart_MI cfg_one clk tf eq_refl eq_refl eq_refl) as [HI0 _].
      assert (H0 : on_NI tf (LS (mstart cfg_one clk tf) (it0 tf) (wY tf (content tf)))).
      { cbn [on_NI]. split; [reflexivity|]. split; [reflexivity|]. split; [exact HI0|].
        unfold mstart. cbn [m_chunk_size cfg_one c_max].
        pose proof (mm_lpot_ge1 (tc_len tf)). lia. }
      pose proof (NI_steps f tf Hwf Hom cfg_one clk _ _ eq_refl Hs H0) as HN.
      cbn [on_NI] in HN. destruct HN as (Hb & Hany & _ & _).
      rewrite Hany in Hrc. subst rc. rewrite Hb in Hfile.
      exists (finally wfin). split; [exact He|]. split; [exact Hfile|].
      intros k p g Hin.
      destruct (run_status mstate (minimize cfg_one clk no_post) (det f) fuel tf (content tf)
                  1 (finally wfin) Hlen Hv He) as [_ Hiff].
      pose proof (run_temp_log mstate (minimize cfg_one clk no_post) (det f) fuel tf
                    (content tf) eq_refl) as Hlog.
      cbv zeta in Hlog. rewrite He in Hlog. cbn [result_world] in Hlog.
      destruct Hlog as (_ & Hnum & _).
      assert (Hin' : In (ETest k p g Yes) (tests_of (chron (finally wfin)))).
      { unfold tests_of. apply filter_In. split; [exact Hin | reflexivity]. }
      pose proof (mm_numbered_ge _ _ _ Hnum Hin') as Hge. cbn [test_nums fst] in Hge.
      destruct (Z_lt_le_dec 1 k) as [Hlt|Hle]; [|lia].
      exfalso. assert (H10 : 1 = 0) by (apply Hiff; exists k, p, g; split; assumption).
      discriminate H10.
    + exfalso. exact (HnoA e (finally wfin) He).
    + exfalso. exact (det_loop_not_raise _ _ _ _ _ _ _ _ EL).
    + exfalso. exact (HnoF wfin He).
Qed.

(* ------------------------------------------------------------------ *)
(* termination (Proofs/MinimizeBound.v) and the statements of C03      *)
(* ------------------------------------------------------------------ *)

From Lithium Require MinimizeBound.

Lemma run_terminates_minimize : forall cfg clk verdict tc0 file0 fuel,
  wf tc0 -> valid_cfg cfg -> (Z.to_nat (2 * c09_bound (tc_len tc0)) <= fuel)%nat ->
  run_terminates (run (minimize cfg clk no_post) verdict fuel tc0 file0).
Proof.
  intros cfg clk verdict tc0 file0 fuel Hwf Hv Hfuel.
  pose proof (MinimizeBound.minimize_bounded_no_post cfg clk verdict tc0 file0 fuel Hwf Hv Hfuel)
    as H. cbv zeta in H. destruct H as (H1 & H2 & _). split; assumption.
Qed.

Lemma minimize_one_minimal :
  forall cfg clk f tc0 file0 fuel,
    wf tc0 -> Forall (fun p => p <> []) (tc_parts tc0) -> content tc0 = file0 ->
    c_min cfg = 1 -> is_power_of_two (c_max cfg) = true -> c_repeat cfg <> Never ->
    c_limit cfg = None ->
    f file0 = true -> tc_len tc0 <> 0 ->
    (Z.to_nat (2 * c09_bound (tc_len tc0)) <= fuel)%nat ->
    exists rc w tf,
      run (minimize cfg clk no_post) (det f) fuel tc0 file0 = Finished rc w /\
      sub_reducible tc0 tf /\ w_file w = content tf /\ f (content tf) = true /\
      mm_one_minimal f tf.
Proof.
  intros cfg clk f tc0 file0 fuel Hwf Hne Hc Hmin Hmax Hrep Hlim Hf Hlen Hfuel.
  apply minimize_one_minimal_if_finished; try assumption.
  apply run_terminates_minimize; [exact Hwf| |exact Hfuel].
  split; [rewrite Hmin; reflexivity | exact Hmax].
Qed.

Lemma chunk_size_one_rerun_noop :
  forall clk f tf fuel,
    wf tf -> Forall (fun p => p <> []) (tc_parts tf) -> f (content tf) = true ->
    mm_one_minimal f tf -> tc_len tf <> 0 ->
    (Z.to_nat (2 * c09_bound (tc_len tf)) <= fuel)%nat ->
    let cfg := {| c_min := 1; c_max := 1; c_repeat := Never; c_first := false; c_limit := None |} in
    exists w, run (minimize cfg clk no_post) (det f) fuel tf (content tf) = Finished 1 w /\
              w_file w = content tf /\
              (forall k p g, In (ETest k p g Yes) (chron w) -> k = 1).
Proof.
  intros clk f tf fuel Hwf _ Hf Hom Hlen Hfuel cfg.
  change cfg with cfg_one.
  apply chunk_size_one_rerun_noop_if_finished; try assumption.
  apply run_terminates_minimize; [exact Hwf| |exact Hfuel].
  split; reflexivity.
Qed.

Print Assumptions minimize_one_minimal.
Print Assumptions chunk_size_one_rerun_noop.
