(* Proofs about runs whose test changes the testcase file (Model/Scribble.v): a simulation
   between `loop_s` / `run_s` and `loop` / `run` (everything but the bytes at the testcase path is
   equal), the final file, and the transfer of the C01 / C02 / C12 lemmas of DriverProofs.v.
   Used by Props/Scribbles.v.  No axioms. *)
From Coq Require Import ZArith NArith List Bool Lia.
From Lithium Require Import PyBase TcRecord Testcase Driver TraceSpec Scribble DriverProofs.
Import ListNotations.
Open Scope Z_scope.

(* ------------------------------------------------------------------ *)
(* same_but_file                                                      *)
(* ------------------------------------------------------------------ *)

Lemma sbf_refl : forall w, same_but_file w w.
Proof. intros w. unfold same_but_file. repeat split. Qed.

Lemma sbf_trans : forall wa wb wc,
  same_but_file wa wb -> same_but_file wb wc -> same_but_file wa wc.
Proof.
  intros wa wb wc (A1 & A2 & A3 & A4 & A5 & A6 & A7) (B1 & B2 & B3 & B4 & B5 & B6 & B7).
  unfold same_but_file.
  rewrite A1, A2, A3, A4, A5, A6, A7. repeat split; assumption.
Qed.

Lemma sbf_chron : forall wa wb, same_but_file wa wb -> chron wa = chron wb.
Proof.
  intros wa wb (_ & _ & _ & _ & _ & _ & A7). unfold chron. rewrite A7. reflexivity.
Qed.

Lemma sbf_set_file : forall b w, same_but_file (set_file b w) w.
Proof. intros b w. unfold same_but_file, set_file. wsimpl. repeat split. Qed.

Lemma sbf_leave : forall scr w, same_but_file (leave scr w) w.
Proof.
  intros scr w. unfold leave. destruct (scr (w_tests w) (w_file w)) as [b|].
  - apply sbf_set_file.
  - apply sbf_refl.
Qed.

Lemma leave_none : forall scr w, scr (w_tests w) (w_file w) = None -> leave scr w = w.
Proof. intros scr w Hn. unfold leave. rewrite Hn. reflexivity. Qed.

Lemma sbf_write_file : forall b wa wb,
  same_but_file wa wb -> same_but_file (write_file b wa) (write_file b wb).
Proof.
  intros b wa wb (A1 & A2 & A3 & A4 & A5 & A6 & A7). unfold same_but_file. wsimpl.
  rewrite A1, A2, A3, A4, A5, A6, A7. repeat split.
Qed.

Lemma sbf_wafter : forall wa wb t a,
  same_but_file wa wb -> same_but_file (wafter wa t a) (wafter wb t a).
Proof.
  intros wa wb t a (A1 & A2 & A3 & A4 & A5 & A6 & A7).
  destruct a; unfold same_but_file, wafter, wtest; wsimpl;
    rewrite ?A1, ?A2, ?A3, ?A4, ?A5, ?A7; repeat split.
Qed.

Lemma sbf_finally : forall wa wb,
  same_but_file wa wb -> same_but_file (finally wa) (finally wb).
Proof.
  intros wa wb (A1 & A2 & A3 & A4 & A5 & A6 & A7). unfold finally. wsimpl.
  rewrite A5, A6. destruct (w_last wb) as [t|] eqn:EL; [destruct (w_dirty wb) eqn:ED|];
    unfold same_but_file; wsimpl; repeat split; congruence.
Qed.

Lemma sbf_result_world : forall r1 r2,
  same_result_but_file r1 r2 -> same_but_file (result_world r1) (result_world r2).
Proof.
  intros r1 r2 H.
  destruct r1 as [rc1 wa|e1 wa|wa]; destruct r2 as [rc2 wb|e2 wb|wb];
    cbn [same_result_but_file result_world] in *; try contradiction.
  - destruct H as [_ H]. exact H.
  - destruct H as [_ H]. exact H.
  - exact H.
Qed.

(* ------------------------------------------------------------------ *)
(* the `finally` block and the file                                   *)
(* ------------------------------------------------------------------ *)

Lemma finally_dirty : forall w, w_dirty (finally w) = w_dirty w.
Proof.
  intros w. destruct (finally_cases w) as [[He _]|(t & _ & _ & He)]; rewrite He; reflexivity.
Qed.

Lemma finally_last : forall w, w_last (finally w) = w_last w.
Proof.
  intros w. destruct (finally_cases w) as [[He _]|(t & _ & _ & He)]; rewrite He; reflexivity.
Qed.

(* the restoring dump overwrites what the test left *)
Lemma finally_file_dirty : forall wa wb t,
  same_but_file wa wb -> w_last wb = Some t -> w_dirty wb = true ->
  w_file (finally wa) = w_file (finally wb).
Proof.
  intros wa wb t (_ & _ & _ & _ & A5 & A6 & _) Hl Hd. unfold finally. wsimpl.
  rewrite A5, A6, Hl, Hd. reflexivity.
Qed.

Lemma finally_file_eq : forall wa wb,
  same_but_file wa wb -> w_file wa = w_file wb ->
  w_file (finally wa) = w_file (finally wb).
Proof.
  intros wa wb (_ & _ & _ & _ & A5 & A6 & _) Hf. unfold finally. wsimpl.
  rewrite A5, A6. destruct (w_last wb) as [t|]; [destruct (w_dirty wb)|]; wsimpl;
    try reflexivity; exact Hf.
Qed.

(* ------------------------------------------------------------------ *)
(* one tested candidate                                               *)
(* ------------------------------------------------------------------ *)

Lemma interesting_true_eq : forall verdict w t,
  interesting verdict w t true =
  (wafter w t (verdict (w_tests w + 1) (content t)), verdict (w_tests w + 1) (content t)).
Proof.
  intros verdict w t. unfold interesting. wsimpl.
  destruct (verdict (w_tests w + 1) (content t)); reflexivity.
Qed.

Lemma interesting_s_true_eq : forall verdict scr w t,
  interesting_s verdict scr w t true =
  (leave scr (wafter w t (verdict (w_tests w + 1) (content t))),
   verdict (w_tests w + 1) (content t)).
Proof.
  intros verdict scr w t. unfold interesting_s. rewrite interesting_true_eq. reflexivity.
Qed.

(* the relation kept by the two loops: equal but for the file; last_interesting is set; and
   (under the side condition c: the first test left the file alone) as long as Lithium has not
   written a candidate, the files are equal too *)
Definition rel (c : Prop) (wa wb : world) : Prop :=
  same_but_file wa wb /\
  (exists t, w_last wb = Some t) /\
  (c -> w_dirty wb = false -> w_file wa = w_file wb).

Definition rel_result (c : Prop) (r1 r2 : result) : Prop :=
  match r1, r2 with
  | Finished rc1 wa, Finished rc2 wb =>
      rc1 = rc2 /\ same_but_file wa wb /\ w_file wa = w_file wb
  | Aborted e1 wa, Aborted e2 wb => e1 = e2 /\ rel c wa wb
  | NoFuel wa, NoFuel wb => same_but_file wa wb
  | _, _ => False
  end.

Lemma rel_write_file : forall c b wa wb, rel c wa wb -> rel c (write_file b wa) (write_file b wb).
Proof.
  intros c b wa wb (Hs & Hl & Hf). split; [|split].
  - apply sbf_write_file. exact Hs.
  - exact Hl.
  - intros _ _. reflexivity.
Qed.

Lemma rel_tested : forall c scr wa wb t a,
  rel c wa wb -> rel c (leave scr (wafter wa t a)) (wafter wb t a).
Proof.
  intros c scr wa wb t a (Hs & [t0 Hl] & _). split; [|split].
  - eapply sbf_trans; [apply sbf_leave | apply sbf_wafter; exact Hs].
  - rewrite wafter_last. destruct a.
    + exists t. reflexivity.
    + exists t0. exact Hl.
    + exists t0. exact Hl.
  - intros _ Hd. rewrite wafter_dirty in Hd. discriminate Hd.
Qed.

(* ------------------------------------------------------------------ *)
(* the simulation of the loop                                         *)
(* ------------------------------------------------------------------ *)

Lemma loop_sim : forall S (strat : strategy S) verdict scr c fuel st it wa wb,
  rel c wa wb ->
  rel_result c (loop_s strat verdict scr fuel st it wa) (loop strat verdict fuel st it wb).
Proof.
  intros S strat verdict scr c fuel. induction fuel as [|fuel IH]; intros st it wa wb Hrel.
  - cbn [loop_s loop rel_result]. destruct Hrel as [Hs _]. exact Hs.
  - cbn [loop_s loop]. destruct (s_next strat st (it_best it)) as [t k|b st1| |e].
    + destruct (mem_bytes (content t) (it_tried it)).
      * apply IH. exact Hrel.
      * rewrite interesting_s_true_eq, interesting_true_eq.
        assert (Ht : w_tests wa = w_tests wb).
        { destruct Hrel as [(_ & A2 & _) _]. exact A2. }
        rewrite Ht.
        pose proof (rel_tested c scr wa wb t (verdict (w_tests wb + 1) (content t)) Hrel)
          as Hrel'.
        destruct (verdict (w_tests wb + 1) (content t)).
        -- apply IH. exact Hrel'.
        -- apply IH. exact Hrel'.
        -- cbn [rel_result]. split; [reflexivity | exact Hrel'].
    + apply IH. apply rel_write_file. exact Hrel.
    + cbn [rel_result]. split; [reflexivity|]. split; [|reflexivity].
      apply sbf_write_file. destruct Hrel as [Hs _]. exact Hs.
    + cbn [rel_result]. split; [reflexivity | exact Hrel].
Qed.

(* after the `finally` block *)
Definition rel_final (c : Prop) (r1 r2 : result) : Prop :=
  match r1, r2 with
  | Finished rc1 wa, Finished rc2 wb =>
      rc1 = rc2 /\ same_but_file wa wb /\ w_file wa = w_file wb
  | Aborted e1 wa, Aborted e2 wb =>
      e1 = e2 /\ same_but_file wa wb /\ (w_dirty wb = true \/ c -> w_file wa = w_file wb)
  | NoFuel wa, NoFuel wb => same_but_file wa wb
  | _, _ => False
  end.

Lemma rel_result_finally : forall c r1 r2,
  rel_result c r1 r2 -> rel_final c (map_world finally r1) (map_world finally r2).
Proof.
  intros c r1 r2 H.
  destruct r1 as [rc1 wa|e1 wa|wa]; destruct r2 as [rc2 wb|e2 wb|wb];
    cbn [rel_result map_world rel_final] in *; try contradiction.
  - destruct H as (Hrc & Hs & Hf). split; [exact Hrc|]. split.
    + apply sbf_finally. exact Hs.
    + apply finally_file_eq; assumption.
  - destruct H as (He & Hs & [t Hl] & Hf). split; [exact He|]. split.
    + apply sbf_finally. exact Hs.
    + intros Hor. rewrite finally_dirty in Hor. destruct (w_dirty wb) eqn:D.
      * eapply finally_file_dirty; eassumption.
      * apply finally_file_eq; [exact Hs|]. apply Hf; [|reflexivity].
        destruct Hor as [Hor|Hor]; [discriminate Hor | exact Hor].
  - exact H.
Qed.

Lemma rel_final_same : forall c r1 r2, rel_final c r1 r2 -> same_result_but_file r1 r2.
Proof.
  intros c r1 r2 H.
  destruct r1 as [rc1 wa|e1 wa|wa]; destruct r2 as [rc2 wb|e2 wb|wb];
    cbn [rel_final same_result_but_file] in *; try contradiction.
  - destruct H as (Hrc & Hs & _). split; assumption.
  - destruct H as (He & Hs & _). split; assumption.
  - exact H.
Qed.

(* ------------------------------------------------------------------ *)
(* the four ways the two runs can go                                  *)
(* ------------------------------------------------------------------ *)

Lemma interesting_s_initial : forall verdict scr tc0 file0,
  interesting_s verdict scr (w0 tc0 file0) tc0 false =
  (leave scr (match verdict 1 file0 with
              | Yes => wY tc0 file0 | No => wN tc0 file0 | Raise => w1 tc0 file0 Raise end),
   verdict 1 file0).
Proof.
  intros verdict scr tc0 file0. unfold interesting_s. rewrite interesting_initial. reflexivity.
Qed.

Lemma run_s_cases : forall S (strat : strategy S) verdict scr fuel tc0 file0,
  (tc_len tc0 = 0 /\
   run_s strat verdict scr fuel tc0 file0 = Finished 0 (finally (w0 tc0 file0))) \/
  (tc_len tc0 <> 0 /\ verdict 1 file0 = Raise /\
   run_s strat verdict scr fuel tc0 file0 =
   Aborted None (finally (leave scr (w1 tc0 file0 Raise)))) \/
  (tc_len tc0 <> 0 /\ verdict 1 file0 = No /\
   run_s strat verdict scr fuel tc0 file0 = Finished 1 (finally (leave scr (wN tc0 file0)))) \/
  (tc_len tc0 <> 0 /\ verdict 1 file0 = Yes /\
   run_s strat verdict scr fuel tc0 file0 =
   map_world finally (loop_s strat verdict scr fuel (s_start strat tc0) (it0 tc0)
                             (leave scr (wY tc0 file0)))).
Proof.
  intros S strat verdict scr fuel tc0 file0. unfold run_s, strategy_main_s.
  change (temp_copy Original (content tc0) false (log EInit (init_world file0)))
    with (w0 tc0 file0).
  destruct (tc_len tc0 =? 0) eqn:E.
  - left. apply Z.eqb_eq in E. split; [exact E | reflexivity].
  - right. apply Z.eqb_neq in E. rewrite interesting_s_initial.
    destruct (verdict 1 file0) eqn:V.
    + right. right. split; [exact E|]. split; reflexivity.
    + right. left. split; [exact E|]. split; reflexivity.
    + left. split; [exact E|]. split; reflexivity.
Qed.

(* the worlds right after the initial check: test number 1 found file0 *)
Lemma leave_initial_none : forall (scr : scribble_t) (file0 : bytes) (w : world),
  w_tests w = 1 -> w_file w = file0 -> scr 1 file0 = None -> leave scr w = w.
Proof.
  intros scr file0 w Ht Hf Hn. apply leave_none. rewrite Ht, Hf. exact Hn.
Qed.

Lemma rel_start : forall scr tc0 file0,
  rel (scr 1 file0 = None) (leave scr (wY tc0 file0)) (wY tc0 file0).
Proof.
  intros scr tc0 file0. split; [|split].
  - apply sbf_leave.
  - exists tc0. reflexivity.
  - intros Hn _. rewrite (leave_initial_none scr file0 (wY tc0 file0)); auto.
Qed.

(* how the two runs are related *)
Inductive both_runs (verdict : verdict_t) (scr : scribble_t) (tc0 : tcase) (file0 : bytes)
  : result -> result -> Prop :=
| br_empty : forall wa wb,
    tc_len tc0 = 0 -> same_but_file wa wb -> w_file wa = w_file wb -> w_dirty wb = false ->
    both_runs verdict scr tc0 file0 (Finished 0 wa) (Finished 0 wb)
| br_raise : forall wa wb,
    tc_len tc0 <> 0 -> verdict 1 file0 = Raise -> same_but_file wa wb ->
    (scr 1 file0 = None -> w_file wa = w_file wb) -> w_dirty wb = false ->
    both_runs verdict scr tc0 file0 (Aborted None wa) (Aborted None wb)
| br_no : forall wa wb,
    tc_len tc0 <> 0 -> verdict 1 file0 = No -> same_but_file wa wb ->
    (scr 1 file0 = None -> w_file wa = w_file wb) -> w_dirty wb = false ->
    both_runs verdict scr tc0 file0 (Finished 1 wa) (Finished 1 wb)
| br_loop : forall r1 r2,
    tc_len tc0 <> 0 -> verdict 1 file0 = Yes -> rel_final (scr 1 file0 = None) r1 r2 ->
    both_runs verdict scr tc0 file0 r1 r2.

Lemma run_s_both : forall S (strat : strategy S) verdict scr fuel tc0 file0,
  both_runs verdict scr tc0 file0
            (run_s strat verdict scr fuel tc0 file0) (run strat verdict fuel tc0 file0).
Proof.
  intros S strat verdict scr fuel tc0 file0.
  destruct (run_s_cases S strat verdict scr fuel tc0 file0)
    as [[L1 E1]|[(L1 & V1 & E1)|[(L1 & V1 & E1)|(L1 & V1 & E1)]]];
  destruct (run_cases S strat verdict fuel tc0 file0)
    as [[L2 E2]|[(L2 & V2 & E2)|[(L2 & V2 & E2)|(L2 & V2 & E2)]]];
  try (exfalso; congruence); rewrite E1, E2.
  - apply br_empty; [exact L1 | apply sbf_refl | reflexivity | reflexivity].
  - apply br_raise; [exact L1 | exact V1 | | | reflexivity].
    + apply sbf_finally. apply sbf_leave.
    + intros Hn. rewrite (leave_initial_none scr file0 (w1 tc0 file0 Raise)); auto.
  - apply br_no; [exact L1 | exact V1 | | | reflexivity].
    + apply sbf_finally. apply sbf_leave.
    + intros Hn. rewrite (leave_initial_none scr file0 (wN tc0 file0)); auto.
  - apply br_loop; [exact L1 | exact V1 |].
    apply rel_result_finally. apply loop_sim. apply rel_start.
Qed.

(* ------------------------------------------------------------------ *)
(* 1. the simulation of the run                                        *)
(* ------------------------------------------------------------------ *)

Lemma run_s_same_but_file :
  forall S (strat : strategy S) verdict scr fuel tc0 file0,
    same_result_but_file (run_s strat verdict scr fuel tc0 file0) (run strat verdict fuel tc0 file0).
Proof.
  intros S strat verdict scr fuel tc0 file0.
  destruct (run_s_both S strat verdict scr fuel tc0 file0)
    as [wa wb _ Hs _ _|wa wb _ _ Hs _ _|wa wb _ _ Hs _ _|r1 r2 _ _ Hf].
  - cbn [same_result_but_file]. split; [reflexivity | exact Hs].
  - cbn [same_result_but_file]. split; [reflexivity | exact Hs].
  - cbn [same_result_but_file]. split; [reflexivity | exact Hs].
  - eapply rel_final_same. exact Hf.
Qed.

(* ------------------------------------------------------------------ *)
(* 2. the final file                                                   *)
(* ------------------------------------------------------------------ *)

(* a little more than the statement of Props/Scribbles.v: an accepted original is enough for
   finished runs *)
Lemma run_s_final_file_gen :
  forall S (strat : strategy S) verdict scr fuel tc0 file0,
    match run_s strat verdict scr fuel tc0 file0, run strat verdict fuel tc0 file0 with
    | Finished _ wa, Finished _ wb =>
        (verdict 1 file0 = Yes /\ tc_len tc0 <> 0) \/ w_dirty wb = true \/
        scr 1 file0 = None \/ tc_len tc0 = 0 -> w_file wa = w_file wb
    | Aborted _ wa, Aborted _ wb => w_dirty wb = true \/ scr 1 file0 = None -> w_file wa = w_file wb
    | _, _ => True
    end.
Proof.
  intros S strat verdict scr fuel tc0 file0.
  destruct (run_s_both S strat verdict scr fuel tc0 file0)
    as [wa wb L Hs Hf Hd|wa wb L V Hs Hf Hd|wa wb L V Hs Hf Hd|r1 r2 L V Hf].
  - intros _. exact Hf.
  - intros [H|H]; [rewrite Hd in H; discriminate H | exact (Hf H)].
  - intros [[H _]|[H|[H|H]]].
    + rewrite V in H. discriminate H.
    + rewrite Hd in H. discriminate H.
    + exact (Hf H).
    + exfalso. exact (L H).
  - destruct r1 as [rc1 wa|e1 wa|wa]; destruct r2 as [rc2 wb|e2 wb|wb];
      cbn [rel_final] in Hf; try contradiction; try exact I.
    + intros _. destruct Hf as (_ & _ & Hf). exact Hf.
    + destruct Hf as (_ & _ & Hf). exact Hf.
Qed.

Lemma run_s_final_file :
  forall S (strat : strategy S) verdict scr fuel tc0 file0,
    match run_s strat verdict scr fuel tc0 file0, run strat verdict fuel tc0 file0 with
    | Finished _ w1, Finished _ w2 => w_dirty w2 = true \/ scr 1 file0 = None \/ tc_len tc0 = 0 -> w_file w1 = w_file w2
    | Aborted _ w1, Aborted _ w2 => w_dirty w2 = true \/ scr 1 file0 = None -> w_file w1 = w_file w2
    | _, _ => True
    end.
Proof.
  intros S strat verdict scr fuel tc0 file0.
  pose proof (run_s_final_file_gen S strat verdict scr fuel tc0 file0) as H.
  destruct (run_s strat verdict scr fuel tc0 file0) as [rc1 wa|e1 wa|wa];
    destruct (run strat verdict fuel tc0 file0) as [rc2 wb|e2 wb|wb]; try exact I.
  - intros Hor. apply H. right. exact Hor.
  - exact H.
Qed.

(* ------------------------------------------------------------------ *)
(* 3. C01                                                              *)
(* ------------------------------------------------------------------ *)

Lemma run_s_final_is_last_accepted :
  forall S (strat : strategy S) verdict scr fuel tc0 file0 rc w,
    content tc0 = file0 ->
    run_s strat verdict scr fuel tc0 file0 = Finished rc w ->
    (verdict 1 file0 = Yes /\ tc_len tc0 <> 0) \/ scr 1 file0 = None \/ tc_len tc0 = 0 ->
    w_file w = last_accepted (chron w) file0.
Proof.
  intros S strat verdict scr fuel tc0 file0 rc w Hc Hr Hside.
  pose proof (run_s_same_but_file S strat verdict scr fuel tc0 file0) as Hsame.
  pose proof (run_s_final_file_gen S strat verdict scr fuel tc0 file0) as Hfile.
  rewrite Hr in Hsame, Hfile.
  destruct (run strat verdict fuel tc0 file0) as [rc2 wb|e2 wb|wb] eqn:Hr2;
    cbn [same_result_but_file] in Hsame; try contradiction.
  destruct Hsame as [_ Hs].
  rewrite (sbf_chron _ _ Hs).
  rewrite <- (run_final_is_last_accepted S strat verdict fuel tc0 file0 rc2 wb Hc Hr2).
  apply Hfile. destruct Hside as [H|[H|H]].
  - left. exact H.
  - right. right. left. exact H.
  - right. right. right. exact H.
Qed.

(* ------------------------------------------------------------------ *)
(* 4. C02                                                              *)
(* ------------------------------------------------------------------ *)

(* an aborted run that got past the initial check had written a candidate *)
Lemma run_abort_dirty :
  forall S (strat : strategy S) verdict fuel tc0 file0 e w,
    run strat verdict fuel tc0 file0 = Aborted e w ->
    1 < n_tests (chron w) -> w_dirty w = true.
Proof.
  intros S strat verdict fuel tc0 file0 e w Hr Hn.
  destruct (run_cases S strat verdict fuel tc0 file0)
    as [[_ He]|[(_ & _ & He)|[(_ & _ & He)|(_ & _ & He)]]]; rewrite He in Hr.
  - discriminate Hr.
  - inversion Hr; subst.
    change (n_tests (chron (finally (w1 tc0 file0 Raise)))) with 1 in Hn. lia.
  - discriminate Hr.
  - destruct (loop_run_summary S strat verdict None fuel _ _ _ _
                               (good_start_G tc0 file0) Hr)
      as (it' & [HG _] & _).
    cbn [result_world] in HG.
    destruct (g_dirty _ _ HG) as [H|H]; [exact H | lia].
Qed.

Lemma run_s_abort_restores :
  forall S (strat : strategy S) verdict scr fuel tc0 file0 e w,
    content tc0 = file0 ->
    run_s strat verdict scr fuel tc0 file0 = Aborted e w ->
    1 < n_tests (chron w) ->
    w_file w = last_accepted (chron w) file0 /\ hooks_ok (chron w).
Proof.
  intros S strat verdict scr fuel tc0 file0 e w Hc Hr Hn.
  pose proof (run_s_same_but_file S strat verdict scr fuel tc0 file0) as Hsame.
  pose proof (run_s_final_file S strat verdict scr fuel tc0 file0) as Hfile.
  rewrite Hr in Hsame, Hfile.
  destruct (run strat verdict fuel tc0 file0) as [rc2 wb|e2 wb|wb] eqn:Hr2;
    cbn [same_result_but_file] in Hsame; try contradiction.
  destruct Hsame as [_ Hs].
  rewrite (sbf_chron _ _ Hs) in *.
  destruct (run_abort_restores_corrected S strat verdict fuel tc0 file0 e2 wb Hc Hr2)
    as [Himp Hhk].
  split; [|exact Hhk].
  rewrite <- Himp; [|right; left; exact Hn].
  apply Hfile. left.
  exact (run_abort_dirty S strat verdict fuel tc0 file0 e2 wb Hr2 Hn).
Qed.

(* ------------------------------------------------------------------ *)
(* 5. C12 / kill                                                       *)
(* ------------------------------------------------------------------ *)

Lemma run_s_result_world :
  forall S (strat : strategy S) verdict scr fuel tc0 file0,
    same_but_file (result_world (run_s strat verdict scr fuel tc0 file0))
                  (result_world (run strat verdict fuel tc0 file0)).
Proof.
  intros S strat verdict scr fuel tc0 file0. apply sbf_result_world. apply run_s_same_but_file.
Qed.

Lemma run_s_temp_log :
  forall S (strat : strategy S) verdict scr fuel tc0 file0,
    content tc0 = file0 ->
    let w := result_world (run_s strat verdict scr fuel tc0 file0) in
    rev (w_temp w) = (Original, file0) :: expected_temp (chron w) /\
    numbered_from 1 (tests_of (chron w)) /\
    w_tests w = n_tests (chron w).
Proof.
  intros S strat verdict scr fuel tc0 file0 Hc w. subst w.
  pose proof (run_s_result_world S strat verdict scr fuel tc0 file0) as Hs.
  rewrite (sbf_chron _ _ Hs).
  destruct Hs as (A1 & A2 & _). rewrite A1, A2.
  destruct (run_temp_log S strat verdict fuel tc0 file0 Hc) as (H1 & H2 & H3 & _).
  split; [exact H1|]. split; [exact H2 | exact H3].
Qed.

Lemma run_s_kill_tempdir :
  forall S (strat : strategy S) verdict scr fuel tc0 file0 pre k p f a post,
    content tc0 = file0 ->
    chron (result_world (run_s strat verdict scr fuel tc0 file0)) = pre ++ ETest k p f a :: post ->
    best_tagged (copies pre) None = Some (last_accepted pre file0).
Proof.
  intros S strat verdict scr fuel tc0 file0 pre k p f a post Hc Heq.
  rewrite (sbf_chron _ _ (run_s_result_world S strat verdict scr fuel tc0 file0)) in Heq.
  exact (kill_tempdir S strat verdict fuel tc0 file0 pre k p f a post Hc Heq).
Qed.

(* ------------------------------------------------------------------ *)
(* 6. the rejected original                                            *)
(* ------------------------------------------------------------------ *)

Definition sx_strat : strategy unit := {| s_start := fun _ => tt; s_next := fun _ _ => Done |}.
Definition sx_tc : tcase :=
  {| tc_before := []; tc_parts := [[0%N]]; tc_red := [true]; tc_after := [] |}.
Definition sx_scr : scribble_t := fun _ _ => Some [7%N].

Lemma run_s_rejected_original_example :
  exists (strat : strategy unit) verdict scr tc0 file0 w,
    content tc0 = file0 /\ run_s strat verdict scr 5 tc0 file0 = Finished 1 w /\
    w_file w <> last_accepted (chron w) file0.
Proof.
  exists sx_strat, (fun _ _ => No), sx_scr, sx_tc, [0%N].
  eexists. split; [reflexivity|]. split; [vm_compute; reflexivity|].
  vm_compute. intros H. discriminate H.
Qed.
