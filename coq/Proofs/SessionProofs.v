(* Proofs about a FOLLOWING run on a re-used Lithium object (Model/Session.v): the statements of
   run_final_is_last_accepted, run_rejected_original, check_only_spec and the abort half of
   run_abort_restores_corrected for every previous world, given that run() resets
   testcase_written; and two witnesses showing that without the reset they fail.
   Used by Props/C11s.v.  No axioms.

   The invariants invG / invH of DriverProofs.v tie the counters and the temp dir to the trace
   (w_tests w = n_tests (chron w), ...), which is false of a carried world (counters, temp dir
   survive, the trace starts empty).  The invariant `sinv` below keeps only what the file
   statements need; it makes no assumption on w_tests, w_tfc, w_temp, and the stale
   `w_last prev` is harmless because the loop is only entered after an accepted first test,
   which overwrites w_last. *)
From Coq Require Import ZArith NArith List Bool Lia ZifyBool.
From Lithium Require Import PyBase TcRecord Testcase Driver TraceSpec Session DriverProofs.
Import ListNotations.
Open Scope Z_scope.

(* ------------------------------------------------------------------ *)
(* `finally`                                                          *)
(* ------------------------------------------------------------------ *)

Lemma finally_clean : forall w, w_dirty w = false -> finally w = log ECleanup w.
Proof.
  intros w Hd. destruct (finally_cases w) as [[He _]|(t & _ & Hd' & _)].
  - exact He.
  - rewrite Hd in Hd'. discriminate Hd'.
Qed.

Lemma last_accepted_finally : forall w c,
  last_accepted (chron (finally w)) c = last_accepted (chron w) c.
Proof.
  intros w c. destruct (finally_chron_quiet w) as (q & Hq & Hc).
  rewrite Hc. apply (last_accepted_quiet_app _ _ _ Hq).
Qed.

Lemma n_tests_finally : forall w, n_tests (chron (finally w)) = n_tests (chron w).
Proof.
  intros w. destruct (finally_chron_quiet w) as (q & Hq & Hc).
  rewrite Hc. apply (n_tests_quiet_app _ _ Hq).
Qed.

(* if the finished trace has no write, `finally` wrote nothing and neither did the run *)
Lemma no_writes_finally : forall w,
  no_writes (chron (finally w)) -> no_writes (chron w) /\ w_file (finally w) = w_file w.
Proof.
  intros w Hn. destruct (finally_cases w) as [[He _]|(t & _ & _ & He)]; rewrite He in *.
  - rewrite chron_log in Hn. unfold no_writes in Hn. apply Forall_app in Hn.
    destruct Hn as [Hn _]. split; [exact Hn | reflexivity].
  - exfalso. rewrite chron_write_file in Hn. unfold no_writes in Hn. apply Forall_app in Hn.
    destruct Hn as [_ Hn]. exact (no_writes_write_absurd _ _ Hn).
Qed.

Lemma no_writes_existsb : forall tr, existsb is_write tr = true -> ~ no_writes tr.
Proof.
  induction tr as [|e r IH]; intros He Hn.
  - discriminate He.
  - cbn [existsb] in He. inversion Hn as [|x l Hx Hl]. subst x l.
    rewrite Hx in He. cbn [orb] in He. exact (IH He Hl).
Qed.

(* ------------------------------------------------------------------ *)
(* the loop invariant of a following run                              *)
(* ------------------------------------------------------------------ *)

Record sinv (file0 : bytes) (it : iter) (w : world) : Prop := {
  s_last : w_last w = Some (it_best it);
  s_best : content (it_best it) = last_accepted (chron w) file0;
  s_dirty : w_dirty w = true \/ n_tests (chron w) = 1;
  s_nowr : no_writes (chron w) -> w_file w = last_accepted (chron w) file0
}.

Lemma sinv_quiet : forall file0 it w w2 q,
  sinv file0 it w -> forallb quietb q = true ->
  chron w2 = chron w ++ q ->
  w_last w2 = w_last w ->
  (w_dirty w = true -> w_dirty w2 = true) ->
  (no_writes q -> w_file w2 = w_file w) ->
  sinv file0 it w2.
Proof.
  intros file0 it w w2 q Hs Hq Hc Hl Hd Hf.
  constructor; rewrite ?Hc, ?Hl, ?(last_accepted_quiet_app _ _ _ Hq), ?(n_tests_quiet_app _ _ Hq).
  - apply (s_last _ _ _ Hs).
  - apply (s_best _ _ _ Hs).
  - destruct (s_dirty _ _ _ Hs) as [H|H]; [left; apply Hd; exact H | right; exact H].
  - intros Hn. unfold no_writes in Hn. apply Forall_app in Hn. destruct Hn as [Hn1 Hn2].
    rewrite (Hf Hn2). apply (s_nowr _ _ _ Hs). exact Hn1.
Qed.

Lemma sinv_write_file : forall file0 it w b, sinv file0 it w -> sinv file0 it (write_file b w).
Proof.
  intros file0 it w b Hs.
  apply (sinv_quiet file0 it w (write_file b w) [EWrite b] Hs); try reflexivity.
  - intros H. exact H.
  - intros H. exfalso. exact (no_writes_write_absurd _ _ H).
Qed.

Lemma sinv_tested : forall file0 it w t a,
  sinv file0 it w -> sinv file0 (it_after it t a) (wafter w t a).
Proof.
  intros file0 it w t a Hs. constructor.
  - rewrite wafter_last. destruct a; cbn [it_after it_best]; try reflexivity;
      apply (s_last _ _ _ Hs).
  - rewrite chron_wafter, last_accepted_app.
    destruct a; cbn [it_after it_best tcopy last_accepted]; try reflexivity;
      apply (s_best _ _ _ Hs).
  - left. apply wafter_dirty.
  - intros Hn. exfalso. rewrite chron_wafter in Hn. unfold no_writes in Hn.
    apply Forall_app in Hn. destruct Hn as [_ Hn]. exact (no_writes_write_absurd _ _ Hn).
Qed.

Lemma sinv_lstep : forall S (strat : strategy S) verdict file0 a b,
  lstep strat verdict a b -> on_state (sinv file0) a -> on_state (sinv file0) b.
Proof.
  intros S strat verdict file0 a b Hstep. destruct Hstep as
    [st it w b0 st' Hn | st it w t k Hn Hm | st it w t k w' Hn Hm Hi | st it w t k w' Hn Hm Hi];
    cbn [on_state]; intros Hs.
  - apply sinv_write_file. exact Hs.
  - exact Hs.
  - apply interesting_true_inv in Hi. destruct Hi as [_ Hw]. subst w'.
    exact (sinv_tested file0 it w t Yes Hs).
  - apply interesting_true_inv in Hi. destruct Hi as [_ Hw]. subst w'.
    exact (sinv_tested file0 it w t No Hs).
Qed.

Lemma sinv_lsteps : forall S (strat : strategy S) verdict file0 a b,
  lsteps strat verdict a b -> on_state (sinv file0) a -> on_state (sinv file0) b.
Proof.
  intros S strat verdict file0 a b Hs. induction Hs as [s|a b c Hab Hbc IH]; intros Hg.
  - exact Hg.
  - apply IH. eapply sinv_lstep; eassumption.
Qed.

(* the file after `finally`, in the three situations in which it is determined *)
Lemma sinv_finally_file : forall file0 it w,
  sinv file0 it w ->
  (w_dirty w = true \/ w_file w = content (it_best it) \/ no_writes (chron (finally w))) ->
  w_file (finally w) = last_accepted (chron (finally w)) file0.
Proof.
  intros file0 it w Hs Hcase. rewrite last_accepted_finally.
  destruct Hcase as [Hd|[Hf|Hn]].
  - rewrite (file_finally w (it_best it) (s_last _ _ _ Hs) (or_introl Hd)).
    apply (s_best _ _ _ Hs).
  - rewrite (file_finally w (it_best it) (s_last _ _ _ Hs) (or_intror Hf)).
    apply (s_best _ _ _ Hs).
  - destruct (no_writes_finally w Hn) as [Hn' Hfile]. rewrite Hfile.
    apply (s_nowr _ _ _ Hs). exact Hn'.
Qed.

Lemma session_loop_end : forall S (strat : strategy S) verdict file0 fuel st it w r,
  sinv file0 it w -> map_world finally (loop strat verdict fuel st it w) = r ->
  match r with
  | Finished rc wf => w_file wf = last_accepted (chron wf) file0
  | Aborted e wf => (e = None \/ 1 < n_tests (chron wf) \/ no_writes (chron wf)) ->
                    w_file wf = last_accepted (chron wf) file0
  | NoFuel wf => True
  end.
Proof.
  intros S strat verdict file0 fuel st it w r Hs Hr.
  destruct (loop_follows_lsteps S strat verdict fuel st it w _ eq_refl)
    as (st' & it' & w' & Hsteps & Hm).
  pose proof (sinv_lsteps S strat verdict file0 _ _ Hsteps Hs) as Hs'. cbn [on_state] in Hs'.
  destruct (loop strat verdict fuel st it w) as [rc wf|[e|] wf|wf];
    cbn [map_world] in Hr; subst r.
  - destruct Hm as (_ & Hwf & _). subst wf.
    apply (sinv_finally_file file0 it'); [apply sinv_write_file; exact Hs'|].
    right. left. reflexivity.
  - destruct Hm as [_ Hwf]. subst wf. intros Hcond.
    destruct (w_dirty w') eqn:D.
    + apply (sinv_finally_file file0 it' w' Hs'). left. exact D.
    + destruct (s_dirty _ _ _ Hs') as [Hd|Hn1]; [rewrite Hd in D; discriminate D|].
      destruct Hcond as [Hcond|[Hcond|Hcond]].
      * discriminate Hcond.
      * exfalso. rewrite n_tests_finally in Hcond. lia.
      * apply (sinv_finally_file file0 it' w' Hs'). right. right. exact Hcond.
  - destruct Hm as (t & k & _ & _ & Hi). intros _.
    apply interesting_true_inv in Hi. destruct Hi as [_ Hwf]. subst wf.
    apply (sinv_finally_file file0 (it_after it' t Raise)).
    + apply sinv_tested. exact Hs'.
    + left. apply wafter_dirty.
  - exact I.
Qed.

(* ------------------------------------------------------------------ *)
(* Strategy.main on a carried world: the four ways a following run goes *)
(* ------------------------------------------------------------------ *)

Definition s0 (tc0 : tcase) (prev : world) (file0 : bytes) : world :=
  temp_copy Original (content tc0) false (log EInit (carry true prev file0)).
Definition s1 (tc0 : tcase) (prev : world) (file0 : bytes) (a : answer) : world :=
  log (ETest (w_tests prev + 1) (w_tfc prev) file0 a) (count_test (tc_len tc0) (s0 tc0 prev file0)).
Definition sY (tc0 : tcase) (prev : world) (file0 : bytes) : world :=
  set_last tc0 (temp_copy (Numbered (w_tfc prev) true) (content tc0) true (s1 tc0 prev file0 Yes)).
Definition sN (tc0 : tcase) (prev : world) (file0 : bytes) : world :=
  temp_copy (Numbered (w_tfc prev) false) (content tc0) true (s1 tc0 prev file0 No).

Lemma session_interesting_initial : forall verdict tc0 prev file0,
  interesting verdict (s0 tc0 prev file0) tc0 false =
  (match verdict (w_tests prev + 1) file0 with
   | Yes => sY tc0 prev file0 | No => sN tc0 prev file0 | Raise => s1 tc0 prev file0 Raise end,
   verdict (w_tests prev + 1) file0).
Proof.
  intros verdict tc0 prev file0. unfold interesting. cbv zeta.
  change (w_tests (count_test (tc_len tc0) (s0 tc0 prev file0))) with (w_tests prev + 1).
  change (w_file (count_test (tc_len tc0) (s0 tc0 prev file0))) with file0.
  destruct (verdict (w_tests prev + 1) file0); reflexivity.
Qed.

Lemma session_cases : forall S (strat : strategy S) verdict fuel tc0 prev file0,
  (tc_len tc0 = 0 /\
   run_on strat verdict fuel tc0 (carry true prev file0) =
   Finished 0 (finally (s0 tc0 prev file0))) \/
  (tc_len tc0 <> 0 /\ verdict (w_tests prev + 1) file0 = Raise /\
   run_on strat verdict fuel tc0 (carry true prev file0) =
   Aborted None (finally (s1 tc0 prev file0 Raise))) \/
  (tc_len tc0 <> 0 /\ verdict (w_tests prev + 1) file0 = No /\
   run_on strat verdict fuel tc0 (carry true prev file0) =
   Finished 1 (finally (sN tc0 prev file0))) \/
  (tc_len tc0 <> 0 /\ verdict (w_tests prev + 1) file0 = Yes /\
   run_on strat verdict fuel tc0 (carry true prev file0) =
   map_world finally
     (loop strat verdict fuel (s_start strat tc0) (it0 tc0) (sY tc0 prev file0))).
Proof.
  intros S strat verdict fuel tc0 prev file0. unfold run_on, strategy_main.
  change (temp_copy Original (content tc0) false (log EInit (carry true prev file0)))
    with (s0 tc0 prev file0).
  destruct (tc_len tc0 =? 0) eqn:E.
  - left. apply Z.eqb_eq in E. split; [exact E | reflexivity].
  - right. apply Z.eqb_neq in E. rewrite session_interesting_initial.
    destruct (verdict (w_tests prev + 1) file0) eqn:V.
    + right. right. split; [exact E|]. split; reflexivity.
    + right. left. split; [exact E|]. split; reflexivity.
    + left. split; [exact E|]. split; reflexivity.
Qed.

(* the stale `w_last prev` has been overwritten, nothing has been written yet *)
Lemma sinv_start : forall tc0 prev file0,
  content tc0 = file0 -> sinv file0 (it0 tc0) (sY tc0 prev file0).
Proof.
  intros tc0 prev file0 Hc. subst file0. constructor.
  - reflexivity.
  - reflexivity.
  - right. reflexivity.
  - intros _. reflexivity.
Qed.

(* ------------------------------------------------------------------ *)
(* C01 on a re-used object                                            *)
(* ------------------------------------------------------------------ *)

Lemma session_final_is_last_accepted :
  forall S (strat : strategy S) verdict fuel tc0 file0 prev rc w,
    content tc0 = file0 ->
    run_on strat verdict fuel tc0 (carry true prev file0) = Finished rc w ->
    w_file w = last_accepted (chron w) file0.
Proof.
  intros S strat verdict fuel tc0 file0 prev rc w Hc Hr.
  destruct (session_cases S strat verdict fuel tc0 prev file0)
    as [[_ He]|[(_ & _ & He)|[(_ & _ & He)|(_ & _ & He)]]]; rewrite He in Hr.
  - inversion Hr; subst. rewrite (finally_clean (s0 tc0 prev (content tc0)) eq_refl).
    reflexivity.
  - discriminate Hr.
  - inversion Hr; subst. rewrite (finally_clean (sN tc0 prev (content tc0)) eq_refl).
    reflexivity.
  - exact (session_loop_end S strat verdict file0 fuel _ _ _ _
                            (sinv_start tc0 prev file0 Hc) Hr).
Qed.

(* ------------------------------------------------------------------ *)
(* C02 (abort half) on a re-used object                               *)
(* ------------------------------------------------------------------ *)

Lemma session_abort_restores :
  forall S (strat : strategy S) verdict fuel tc0 file0 prev e w,
    content tc0 = file0 ->
    run_on strat verdict fuel tc0 (carry true prev file0) = Aborted e w ->
    (e = None \/ 1 < n_tests (chron w) \/ no_writes (chron w)) ->
    w_file w = last_accepted (chron w) file0.
Proof.
  intros S strat verdict fuel tc0 file0 prev e w Hc Hr Hcond.
  destruct (session_cases S strat verdict fuel tc0 prev file0)
    as [[_ He]|[(_ & _ & He)|[(_ & _ & He)|(_ & _ & He)]]]; rewrite He in Hr.
  - discriminate Hr.
  - inversion Hr; subst. rewrite (finally_clean (s1 tc0 prev (content tc0) Raise) eq_refl).
    reflexivity.
  - discriminate Hr.
  - exact (session_loop_end S strat verdict file0 fuel _ _ _ _
                            (sinv_start tc0 prev file0 Hc) Hr Hcond).
Qed.

(* ------------------------------------------------------------------ *)
(* C11 on a re-used object                                            *)
(* ------------------------------------------------------------------ *)

Lemma session_rejected_original :
  forall S (strat : strategy S) verdict fuel tc0 file0 prev,
    tc_len tc0 <> 0 -> verdict (w_tests prev + 1) file0 = No ->
    exists w, run_on strat verdict fuel tc0 (carry true prev file0) = Finished 1 w /\
              n_tests (chron w) = 1 /\ no_writes (chron w) /\ w_file w = file0.
Proof.
  intros S strat verdict fuel tc0 file0 prev Hlen Hv.
  destruct (session_cases S strat verdict fuel tc0 prev file0)
    as [[Hl He]|[(_ & Hv' & He)|[(_ & _ & He)|(_ & Hv' & He)]]].
  - exfalso. exact (Hlen Hl).
  - rewrite Hv in Hv'. discriminate Hv'.
  - exists (finally (sN tc0 prev file0)). split; [exact He|].
    rewrite (finally_clean (sN tc0 prev file0) eq_refl).
    split; [reflexivity|]. split; [|reflexivity].
    unfold no_writes. cbn [chron w_trace log sN s1 s0 temp_copy count_test carry rev app].
    repeat constructor.
  - rewrite Hv in Hv'. discriminate Hv'.
Qed.

Lemma session_check_only_spec :
  forall verdict tc0 file0 prev,
    exists w, n_tests (chron w) = 1 /\ no_writes (chron w) /\ w_file w = file0 /\
      run_check_only_on verdict tc0 (carry true prev file0) =
        match verdict (w_tests prev + 1) file0 with
        | Yes => Finished 0 w | No => Finished 1 w | Raise => Aborted None w end.
Proof.
  intros verdict tc0 file0 prev. unfold run_check_only_on, check_only_main, interesting.
  cbv zeta.
  change (w_tests (count_test (tc_len tc0) (log EInit (carry true prev file0))))
    with (w_tests prev + 1).
  change (w_file (count_test (tc_len tc0) (log EInit (carry true prev file0)))) with file0.
  destruct (verdict (w_tests prev + 1) file0); cbn [map_world];
    (rewrite finally_clean by reflexivity;
     eexists; split; [|split; [|split; [|reflexivity]]];
     [ reflexivity
     | unfold no_writes;
       cbn [chron w_trace log set_last temp_copy count_test carry rev app];
       repeat constructor
     | reflexivity ]).
Qed.

(* ------------------------------------------------------------------ *)
(* without the reset: witnesses                                       *)
(* ------------------------------------------------------------------ *)

(* the previous run wrote a candidate: last_interesting = t_old, testcase_written = True *)
Definition t_old : tcase :=
  {| tc_before := []; tc_parts := [[7%N]]; tc_red := [true]; tc_after := [] |}.
Definition prev_written : world :=
  {| w_file := [7%N]; w_temp := []; w_tests := 2; w_tfc := 3; w_total := 2;
     w_last := Some t_old; w_dirty := true; w_trace := [] |}.

(* a following check-only run whose test answers Yes still rewrites the file *)
Lemma session_without_reset_refuted :
  exists verdict tc0 file0 prev w,
    run_check_only_on verdict tc0 (carry false prev file0) = Finished 0 w /\
    ~ no_writes (chron w).
Proof.
  exists (fun _ _ => Yes), cx_tc, [0%N], prev_written.
  exists (result_world
            (run_check_only_on (fun _ _ => Yes) cx_tc (carry false prev_written [0%N]))).
  split.
  - vm_compute. reflexivity.
  - apply no_writes_existsb. vm_compute. reflexivity.
Qed.

(* a following run whose original is rejected puts the PREVIOUS run's bytes ([7]) over the
   new file ([0]) *)
Lemma session_without_reset_clobbers :
  exists S (strat : strategy S) verdict fuel tc0 file0 prev w,
    tc_len tc0 <> 0 /\ verdict (w_tests prev + 1) file0 = No /\
    run_on strat verdict fuel tc0 (carry false prev file0) = Finished 1 w /\
    w_file w <> file0.
Proof.
  exists bool, cx_strat, (fun _ _ => No), 0%nat, cx_tc, [0%N], prev_written.
  exists (result_world
            (run_on cx_strat (fun _ _ => No) 0%nat cx_tc (carry false prev_written [0%N]))).
  split; [|split; [|split]].
  - vm_compute. intros H. discriminate H.
  - reflexivity.
  - vm_compute. reflexivity.
  - vm_compute. intros H. discriminate H.
Qed.
