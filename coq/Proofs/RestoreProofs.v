(* C02 for minimize / minimize-collapse-brace (Model/Minimize.v, any post-round callback):
   the raw write of the post-round callback can only happen after the first candidate was
   tested, so the testcase file is restored after every abort.

   The statement of Props/C02.v `C02_minimize_like_restores` (no hypothesis on tc0) is FALSE of
   the model: for an ill-formed testcase record (more reducibility flags than parts) tc_len is
   negative, the start state is already "at a round end", and the very first step of the
   strategy is the raw write (see `minimize_like_abort_restores_counterexample`).  With
   `wf tc0` (or just `0 <= tc_len tc0`) the statement holds
   (`minimize_like_abort_restores_corrected`).  No axioms. *)
From Coq Require Import ZArith NArith List Bool Lia ZifyBool.
From Lithium Require Import PyBase TcRecord Util Testcase Driver TraceSpec Minimize
  TestcaseProofs DriverProofs MinimizeProofs.
Import ListNotations.
Open Scope Z_scope.

(* ------------------------------------------------------------------ *)
(* 1. any strategy whose first step is not a raw write                 *)
(* ------------------------------------------------------------------ *)

Lemma n_tests_wY : forall tc0 file0, n_tests (chron (wY tc0 file0)) = 1.
Proof. intros tc0 file0. reflexivity. Qed.

Lemma n_tests_wafter : forall w t a,
  n_tests (chron (wafter w t a)) = n_tests (chron w) + 1.
Proof.
  intros w t a. rewrite chron_wafter, n_tests_app. unfold n_tests at 2.
  rewrite tests_of_block. reflexivity.
Qed.

Lemma n_tests_write_file : forall b w, n_tests (chron (write_file b w)) = n_tests (chron w).
Proof.
  intros b w. rewrite chron_write_file, n_tests_app.
  change (n_tests [EWrite b]) with 0. lia.
Qed.

Lemma n_tests_nonneg : forall tr, 0 <= n_tests tr.
Proof. intros tr. unfold n_tests. apply zlen_nonneg. Qed.

Lemma finally_wY : forall tc0 file0,
  finally (wY tc0 file0) = log ECleanup (wY tc0 file0).
Proof. intros tc0 file0. reflexivity. Qed.

Lemma no_writes_finally_wY : forall tc0 file0, no_writes (chron (finally (wY tc0 file0))).
Proof.
  intros tc0 file0. rewrite finally_wY.
  change (chron (log ECleanup (wY tc0 file0)))
    with [EInit; ECopy Original (content tc0); ETest 1 1 file0 Yes;
          ECopy (Numbered 1 true) (content tc0); ECleanup].
  unfold no_writes. repeat constructor.
Qed.

Section FirstStep.
  Context {S : Type}.
  Variables (strat : strategy S) (verdict : verdict_t) (tc0 : tcase) (file0 : bytes).
  Hypothesis first_not_raw :
    forall b s', s_next strat (s_start strat tc0) tc0 <> RawWrite b s'.

  (* either nothing happened since the accepted initial check, or a candidate was tested *)
  Definition fresh_or_tested (ls : lstate S) : Prop :=
    match ls with
    | LS st it w =>
        (st = s_start strat tc0 /\ it = it0 tc0 /\ w = wY tc0 file0) \/
        1 < n_tests (chron w)
    end.

  Lemma lstep_fresh_or_tested : forall a b,
    lstep strat verdict a b -> fresh_or_tested a -> fresh_or_tested b.
  Proof.
    intros a b Hstep. destruct Hstep as
      [st it w b0 st' Hn | st it w t k Hn Hm | st it w t k w' Hn Hm Hi | st it w t k w' Hn Hm Hi];
      cbn [fresh_or_tested]; intros [(Hst & Hit & Hw)|Hlt].
    - exfalso. subst st it. cbn [it_best it0] in Hn. exact (first_not_raw _ _ Hn).
    - right. rewrite n_tests_write_file. exact Hlt.
    - exfalso. subst it. cbn [it_tried it0 mem_bytes] in Hm. discriminate Hm.
    - right. exact Hlt.
    - right. apply interesting_true_inv in Hi. destruct Hi as [_ Hw']. subst w' w.
      rewrite n_tests_wafter, n_tests_wY. lia.
    - right. apply interesting_true_inv in Hi. destruct Hi as [_ Hw']. subst w'.
      rewrite n_tests_wafter. lia.
    - right. apply interesting_true_inv in Hi. destruct Hi as [_ Hw']. subst w' w.
      rewrite n_tests_wafter, n_tests_wY. lia.
    - right. apply interesting_true_inv in Hi. destruct Hi as [_ Hw']. subst w'.
      rewrite n_tests_wafter. lia.
  Qed.

  Lemma lsteps_fresh_or_tested : forall a b,
    lsteps strat verdict a b -> fresh_or_tested a -> fresh_or_tested b.
  Proof.
    intros a b Hs. induction Hs as [s|a b c Hab Hbc IH]; intros Hg.
    - exact Hg.
    - apply IH. eapply lstep_fresh_or_tested; eassumption.
  Qed.

  (* an internal failure of the strategy: a candidate had been tested, or nothing was written *)
  Lemma abort_some_tested_or_clean : forall fuel e w,
    run strat verdict fuel tc0 file0 = Aborted (Some e) w ->
    1 < n_tests (chron w) \/ no_writes (chron w).
  Proof.
    intros fuel e w Hr.
    destruct (run_cases S strat verdict fuel tc0 file0)
      as [[_ He]|[(_ & _ & He)|[(_ & _ & He)|(_ & _ & He)]]]; rewrite He in Hr;
      try discriminate Hr.
    destruct (loop strat verdict fuel (s_start strat tc0) (it0 tc0) (wY tc0 file0))
      as [rc wl|el wl|wl] eqn:Hl; cbn [map_world] in Hr; try discriminate Hr.
    injection Hr as Hel Hw. subst el w.
    destruct (loop_follows_lsteps S strat verdict fuel _ _ _ _ Hl)
      as (st' & it' & w' & Hs & Hm).
    cbv beta iota in Hm. destruct Hm as [_ Hwl]. subst wl.
    assert (H0 : fresh_or_tested (LS (s_start strat tc0) (it0 tc0) (wY tc0 file0))).
    { left. split; [reflexivity|]. split; reflexivity. }
    pose proof (lsteps_fresh_or_tested _ _ Hs H0) as H1. cbn [fresh_or_tested] in H1.
    destruct H1 as [(_ & _ & Hw)|Hlt].
    - right. subst w'. apply no_writes_finally_wY.
    - left. destruct (finally_chron_quiet w') as (q & Hq & Hc).
      rewrite Hc, (n_tests_quiet_app _ _ Hq). exact Hlt.
  Qed.

  Lemma abort_restores_first_not_raw : forall fuel e w,
    content tc0 = file0 ->
    run strat verdict fuel tc0 file0 = Aborted e w ->
    w_file w = last_accepted (chron w) file0 /\ hooks_ok (chron w).
  Proof.
    intros fuel e w Hc Hr.
    destruct (run_abort_restores_corrected S strat verdict fuel tc0 file0 e w Hc Hr)
      as [Himp Hhk].
    split; [|exact Hhk]. apply Himp. destruct e as [e|].
    - right. exact (abort_some_tested_or_clean fuel e w Hr).
    - left. reflexivity.
  Qed.
End FirstStep.

(* ------------------------------------------------------------------ *)
(* 2. the first step of minimize-like strategies                        *)
(* ------------------------------------------------------------------ *)

Lemma lpo2st_le : forall n, 1 <= n -> largest_power_of_two_smaller_than n <= n.
Proof.
  intros n Hn. destruct (Z.eq_dec n 1) as [E|E].
  - subst n. vm_compute. discriminate.
  - destruct (lpo2st_gen n ltac:(lia)) as (_ & _ & Hlt). specialize (Hlt ltac:(lia)). lia.
Qed.

Lemma propose_chunk_not_raw : forall s best b s', propose_chunk s best <> RawWrite b s'.
Proof.
  intros s best b s' H. unfold propose_chunk in H. cbv zeta in H.
  destruct (rmslice (copy best) (fst (block_of s)) (m_chunk_end s)); discriminate H.
Qed.

(* with a non-negative length the start state is not at a round end (or there is nothing to
   reduce): the first step is the proposal of the first chunk, never the post-round write *)
Lemma mstart_first_not_raw : forall cfg clk post tc0 b s',
  0 <= tc_len tc0 ->
  mnext cfg clk post (mstart cfg clk tc0) tc0 <> RawWrite b s'.
Proof.
  intros cfg clk post tc0 b s' Hlen H. unfold mnext, mstart in H.
  cbn [m_phase m_deadline m_reads m_chunk_end m_chunk_size m_min_chunk m_removed] in H.
  match type of H with (if ?c then _ else _) = _ => destruct c end; [discriminate H|].
  destruct (tc_len tc0 - Z.min (c_max cfg) (largest_power_of_two_smaller_than (tc_len tc0)) <? 0)
    eqn:Eend.
  - destruct (tc_len tc0 =? 0) eqn:E0; [discriminate H|].
    exfalso. apply Z.eqb_neq in E0. apply Z.ltb_lt in Eend.
    pose proof (lpo2st_le (tc_len tc0) ltac:(lia)) as Hle. lia.
  - exact (propose_chunk_not_raw _ _ _ _ H).
Qed.

(* ------------------------------------------------------------------ *)
(* 3. C02 for minimize-like strategies                                 *)
(* ------------------------------------------------------------------ *)

Lemma minimize_like_abort_restores_len :
  forall cfg clk post verdict fuel tc0 file0 e w,
    0 <= tc_len tc0 ->
    content tc0 = file0 ->
    run (minimize cfg clk post) verdict fuel tc0 file0 = Aborted e w ->
    w_file w = last_accepted (chron w) file0 /\ hooks_ok (chron w).
Proof.
  intros cfg clk post verdict fuel tc0 file0 e w Hlen Hc Hr.
  apply (abort_restores_first_not_raw (minimize cfg clk post) verdict tc0 file0) with (2 := Hc)
    (3 := Hr).
  intros b s'. cbn [minimize s_next s_start]. apply mstart_first_not_raw. exact Hlen.
Qed.

Lemma minimize_like_abort_restores_corrected :
  forall cfg clk post verdict fuel tc0 file0 e w,
    wf tc0 ->
    content tc0 = file0 ->
    run (minimize cfg clk post) verdict fuel tc0 file0 = Aborted e w ->
    w_file w = last_accepted (chron w) file0 /\ hooks_ok (chron w).
Proof.
  intros cfg clk post verdict fuel tc0 file0 e w Hwf.
  apply minimize_like_abort_restores_len. apply tc_len_nonneg. exact Hwf.
Qed.

(* ------------------------------------------------------------------ *)
(* 4. the statement without `wf tc0` is false                           *)
(* ------------------------------------------------------------------ *)

(* one reducibility flag, no part: tc_len = -1 *)
Definition mcx_tc : tcase :=
  {| tc_before := []; tc_parts := []; tc_red := [false]; tc_after := [] |}.
(* a post-round callback that writes [1] and whose re-load raises *)
Definition mcx_post : post_t := fun _ => Some ([1%N], Err RuntimeError).
Definition mcx_clk : clock_t := fun _ => 0.

Lemma mcx_not_wf : ~ wf mcx_tc.
Proof. intros H. discriminate H. Qed.

Lemma mcx_run :
  exists w, run (minimize default_cfg mcx_clk mcx_post) (fun _ _ => Yes) 2%nat mcx_tc [] =
            Aborted (Some RuntimeError) w /\
            w_file w = [1%N] /\ last_accepted (chron w) [] = [] /\ n_tests (chron w) = 1.
Proof. eexists. split; [vm_compute; reflexivity|]. split; [|split]; reflexivity. Qed.

Lemma minimize_like_abort_restores_counterexample :
  ~ (forall cfg clk post verdict fuel tc0 file0 e w,
       content tc0 = file0 ->
       run (minimize cfg clk post) verdict fuel tc0 file0 = Aborted e w ->
       w_file w = last_accepted (chron w) file0 /\ hooks_ok (chron w)).
Proof.
  intros H.
  pose proof (H default_cfg mcx_clk mcx_post (fun _ _ => Yes) 2%nat mcx_tc []) as H'.
  vm_compute in H'.
  destruct (H' _ _ eq_refl eq_refl) as [Hf _]. discriminate Hf.
Qed.
