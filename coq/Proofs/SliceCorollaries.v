(* Corollaries of rmslice_spec: the two ends of the range scale and the effect on the bytes.
   - an empty range [x,x) leaves the whole testcase object unchanged (not merely its bytes),
   - the full range [0,len) leaves exactly the non-reducible parts, in order,
   - the reducible count of the result is the count before minus the width, and never negative. *)
From Coq Require Import ZArith NArith List Bool Lia.
From Lithium Require Import PyBase TcRecord Testcase Spec TestcaseProofs.
Import ListNotations.
Open Scope Z_scope.

Lemma spec_rm_empty : forall lo hi l r, hi <= lo -> spec_rm lo hi r l = l.
Proof.
  intros lo hi l. induction l as [|[p b] l IH]; intros r H; simpl; [reflexivity|].
  destruct b.
  - destruct (lo <=? r) eqn:E1; destruct (r <? hi) eqn:E2; cbn [andb];
      try (f_equal; apply IH; exact H).
    apply Z.leb_le in E1. apply Z.ltb_lt in E2. lia.
  - f_equal. apply IH. exact H.
Qed.

Lemma combine_inj : forall (A B : Type) (a a' : list A) (b b' : list B),
  length a = length b -> length a' = length b' ->
  combine a b = combine a' b' -> a = a' /\ b = b'.
Proof.
  intros A B a. induction a as [|x a IH]; intros a' b b' H1 H2 H.
  - destruct b; [|discriminate]. destruct a' as [|x' a'].
    + destruct b'; [split; reflexivity|discriminate].
    + destruct b'; [discriminate|]. simpl in H. discriminate.
  - destruct b as [|y b]; [discriminate|].
    destruct a' as [|x' a']; [destruct b'; simpl in H; discriminate|].
    destruct b' as [|y' b']; [discriminate|].
    simpl in *. injection H as Hx Hy Hr.
    destruct (IH a' b b') as [Ea Eb]; [lia|lia|exact Hr|].
    subst. split; reflexivity.
Qed.

Lemma tcase_ext : forall t t', wf t -> wf t' ->
  zipped t' = zipped t -> tc_before t' = tc_before t -> tc_after t' = tc_after t -> t' = t.
Proof.
  intros [b p r a] [b' p' r' a'] Hw Hw' Hz Hb Ha. unfold wf, zipped in *. simpl in *.
  destruct (combine_inj _ _ p' p r' r Hw' Hw Hz) as [Ep Er]. subst. reflexivity.
Qed.

(* an empty range: the object is unchanged *)
Lemma rmslice_empty_range_id : forall t (a b : Z) t', wf t -> rmslice t a b = Ok t' ->
  py_clamp (tc_len t) a = py_clamp (tc_len t) b -> t' = t.
Proof.
  intros t a b t' Hwf Hrm Heq.
  destruct (rmslice_spec t a b t' Hwf Hrm) as (Hwf' & Hz & Hb & Ha & _); [lia|].
  apply tcase_ext; try assumption.
  rewrite Hz. apply spec_rm_empty. lia.
Qed.

Lemma spec_rm_all : forall hi l r, 0 <= r -> r + Z.of_nat (nred l) <= hi ->
  spec_rm 0 hi r l = filter nonred l.
Proof.
  intros hi l r H0 H.
  pose proof (spec_rm_mid 0 hi l r [] H0 H) as E.
  rewrite !app_nil_r in E. exact E.
Qed.

(* the full range: exactly the non-reducible parts remain, in order *)
Lemma rmslice_full_range : forall t t', wf t -> rmslice t 0 (tc_len t) = Ok t' ->
  zipped t' = filter nonred (zipped t) /\ tc_len t' = 0 /\
  tc_before t' = tc_before t /\ tc_after t' = tc_after t.
Proof.
  intros t t' Hwf Hrm.
  pose proof (tc_len_nonneg t Hwf) as Hn.
  assert (Elo : py_clamp (tc_len t) 0 = 0).
  { unfold py_clamp. simpl. lia. }
  assert (Ehi : py_clamp (tc_len t) (tc_len t) = tc_len t).
  { unfold py_clamp. destruct (tc_len t <? 0) eqn:E; [apply Z.ltb_lt in E; lia|lia]. }
  destruct (rmslice_spec t 0 (tc_len t) t' Hwf Hrm) as (Hwf' & Hz & Hb & Ha & Hl).
  { rewrite Elo, Ehi. exact Hn. }
  rewrite Elo, Ehi in *.
  split; [|split; [lia|split; assumption]].
  rewrite Hz. apply spec_rm_all; [lia|].
  rewrite tc_len_eq by exact Hwf. rewrite nred_ntrue, zipped_red by exact Hwf. lia.
Qed.

(* the count of reducible atoms after a removal, for every pair of integers *)
Lemma rmslice_len : forall t (a b : Z) t', wf t -> rmslice t a b = Ok t' ->
  py_clamp (tc_len t) a <= py_clamp (tc_len t) b ->
  0 <= tc_len t' <= tc_len t /\
  tc_len t' = tc_len t - (py_clamp (tc_len t) b - py_clamp (tc_len t) a).
Proof.
  intros t a b t' Hwf Hrm Hle.
  destruct (rmslice_spec t a b t' Hwf Hrm Hle) as (Hwf' & _ & _ & _ & Hl).
  pose proof (tc_len_nonneg t' Hwf'). split; [|exact Hl]. lia.
Qed.

(* the bytes written back after a removal: the prefix, the bytes of the surviving atoms in order,
   the suffix - so an empty range writes back the source file byte for byte *)
Lemma rmslice_content : forall t (a b : Z) t', wf t -> rmslice t a b = Ok t' ->
  py_clamp (tc_len t) a <= py_clamp (tc_len t) b ->
  content t' = tc_before t ++
               concat (map fst (spec_rm (py_clamp (tc_len t) a) (py_clamp (tc_len t) b) 0 (zipped t))) ++
               tc_after t.
Proof.
  intros t a b t' Hwf Hrm Hle.
  destruct (rmslice_spec t a b t' Hwf Hrm Hle) as (Hwf' & Hz & Hb & Ha & _).
  unfold content. rewrite Hb, Ha, <- Hz, zipped_parts by exact Hwf'. reflexivity.
Qed.

Lemma rmslice_empty_range_content : forall t (a b : Z) t', wf t -> rmslice t a b = Ok t' ->
  py_clamp (tc_len t) a = py_clamp (tc_len t) b -> content t' = content t.
Proof.
  intros t a b t' Hwf Hrm Heq. rewrite (rmslice_empty_range_id t a b t' Hwf Hrm Heq). reflexivity.
Qed.

(* ------------------------------------------------------------------ *)
(* sequences of removals on one lineage (what a strategy run does)     *)
(* ------------------------------------------------------------------ *)

Fixpoint rm_seq (t : tcase) (ops : list (Z * Z)) : res tcase :=
  match ops with
  | [] => Ok t
  | (a, b) :: r => match rmslice t a b with Ok t' => rm_seq t' r | Err e => Err e end
  end.

(* the specification of a sequence speaks about the atom list only *)
Fixpoint spec_seq (z : list (bytes * bool)) (ops : list (Z * Z)) : list (bytes * bool) :=
  match ops with
  | [] => z
  | (a, b) :: r =>
      let n := n_reducible z in
      spec_seq (spec_rm (py_clamp n a) (py_clamp n b) 0 z) r
  end.

Fixpoint ordered_seq (z : list (bytes * bool)) (ops : list (Z * Z)) : bool :=
  match ops with
  | [] => true
  | (a, b) :: r =>
      let n := n_reducible z in
      (py_clamp n a <=? py_clamp n b) &&
      ordered_seq (spec_rm (py_clamp n a) (py_clamp n b) 0 z) r
  end.

Lemma rm_seq_spec : forall ops t, wf t -> ordered_seq (zipped t) ops = true ->
  exists t', rm_seq t ops = Ok t' /\ wf t' /\
    zipped t' = spec_seq (zipped t) ops /\
    tc_before t' = tc_before t /\ tc_after t' = tc_after t /\
    tc_len t' <= tc_len t.
Proof.
  induction ops as [|[a b] ops IH]; intros t Hwf Hord.
  - exists t. simpl. repeat split; try reflexivity; try assumption; try lia.
  - cbn [rm_seq spec_seq ordered_seq] in *.
    apply andb_true_iff in Hord. destruct Hord as [Hle Hord].
    apply Z.leb_le in Hle.
    rewrite <- (n_reducible_eq t Hwf) in *.
    destruct (rmslice_total t a b Hwf) as [t1 H1]. rewrite H1.
    destruct (rmslice_spec t a b t1 Hwf H1 Hle) as (Hwf1 & Hz1 & Hb1 & Ha1 & Hl1).
    rewrite <- Hz1 in *.
    destruct (IH t1 Hwf1 Hord) as (t' & Hr & Hwf' & Hz' & Hb' & Ha' & Hl').
    exists t'. repeat split; try assumption; try congruence. lia.
Qed.

(* whoever only calls rmslice with ordered bounds - any strategy, present or future - can only
   delete reducible atoms: the result of any such chain is sub_reducible of the start *)
Lemma rm_seq_sub_reducible : forall ops t t', wf t -> ordered_seq (zipped t) ops = true ->
  rm_seq t ops = Ok t' -> sub_reducible t t'.
Proof.
  induction ops as [|[a b] ops IH]; intros t t' Hwf Hord Hr.
  - simpl in Hr. injection Hr as <-. apply sub_reducible_refl. exact Hwf.
  - cbn [rm_seq ordered_seq] in *.
    apply andb_true_iff in Hord. destruct Hord as [Hle Hord].
    apply Z.leb_le in Hle.
    rewrite <- (n_reducible_eq t Hwf) in *.
    destruct (rmslice t a b) as [t1|e] eqn:H1; [|discriminate].
    destruct (rmslice_spec t a b t1 Hwf H1 Hle) as (Hwf1 & Hz1 & _).
    rewrite <- Hz1 in Hord.
    apply (sub_reducible_trans t t1 t').
    + apply (rmslice_sub_reducible t a b t1 Hwf H1 Hle).
    + apply (IH t1 t' Hwf1 Hord Hr).
Qed.

(* ------------------------------------------------------------------ *)
(* two adjacent removals are one removal of the union                   *)
(* ------------------------------------------------------------------ *)
Definition shifted (lo mid r1 : Z) : Z :=
  if r1 <? lo then r1 else if r1 <=? mid then lo else r1 - (mid - lo).

Lemma shifted_lt : forall lo mid r, r < lo -> shifted lo mid r = r.
Proof. intros. unfold shifted. destruct (r <? lo) eqn:E; [reflexivity|apply Z.ltb_ge in E; lia]. Qed.
Lemma shifted_in : forall lo mid r, lo <= r <= mid -> shifted lo mid r = lo.
Proof. intros. unfold shifted. destruct (r <? lo) eqn:E; [apply Z.ltb_lt in E; lia|].
  destruct (r <=? mid) eqn:E2; [reflexivity|apply Z.leb_gt in E2; lia]. Qed.
Lemma shifted_ge : forall lo mid r, lo <= mid -> mid <= r -> shifted lo mid r = r - (mid - lo).
Proof. intros. unfold shifted. destruct (r <? lo) eqn:E; [apply Z.ltb_lt in E; lia|].
  destruct (r <=? mid) eqn:E2; [apply Z.leb_le in E2; lia|reflexivity]. Qed.

Lemma spec_rm_adjacent_gen : forall lo mid w2 l r1, lo <= mid -> 0 <= w2 ->
  spec_rm lo (lo + w2) (shifted lo mid r1) (spec_rm lo mid r1 l) = spec_rm lo (mid + w2) r1 l.
Proof.
  intros lo mid w2 l. induction l as [|[p b] l IH]; intros r1 Hlm Hw; [reflexivity|].
  destruct b; cbn [spec_rm].
  - specialize (IH (r1 + 1) Hlm Hw).
    destruct (Z_lt_le_dec r1 lo) as [HA|HA].
    + (* below the range *)
      assert (E1 : (lo <=? r1) = false) by (apply Z.leb_gt; lia).
      rewrite E1. cbn [andb spec_rm].
      rewrite shifted_lt by lia. rewrite E1. cbn [andb]. f_equal.
      destruct (Z_lt_le_dec (r1 + 1) lo) as [HB|HB].
      * rewrite shifted_lt in IH by lia. exact IH.
      * rewrite shifted_in in IH by lia. replace (r1 + 1) with lo by lia.
        replace (r1 + 1) with lo in IH by lia. exact IH.
    + destruct (Z_lt_le_dec r1 mid) as [HB|HB].
      * (* inside the first range *)
        assert (E1 : (lo <=? r1) = true) by (apply Z.leb_le; lia).
        assert (E2 : (r1 <? mid) = true) by (apply Z.ltb_lt; lia).
        assert (E3 : (r1 <? mid + w2) = true) by (apply Z.ltb_lt; lia).
        rewrite E1, E2, E3. cbn [andb].
        rewrite shifted_in by lia. rewrite shifted_in in IH by lia. exact IH.
      * (* at or after mid *)
        assert (E1 : (lo <=? r1) = true) by (apply Z.leb_le; lia).
        assert (E2 : (r1 <? mid) = false) by (apply Z.ltb_ge; lia).
        rewrite E1, E2. cbn [andb spec_rm].
        rewrite shifted_ge by lia. rewrite shifted_ge in IH by lia.
        assert (E4 : (lo <=? r1 - (mid - lo)) = true) by (apply Z.leb_le; lia).
        rewrite E4. cbn [andb].
        replace (r1 - (mid - lo) + 1) with (r1 + 1 - (mid - lo)) by lia.
        destruct (r1 <? mid + w2) eqn:E5.
        -- assert (E6 : (r1 - (mid - lo) <? lo + w2) = true) by (apply Z.ltb_lt; apply Z.ltb_lt in E5; lia).
           rewrite E6. exact IH.
        -- assert (E6 : (r1 - (mid - lo) <? lo + w2) = false) by (apply Z.ltb_ge; apply Z.ltb_ge in E5; lia).
           rewrite E6. f_equal. exact IH.
  - f_equal. apply IH; assumption.
Qed.

(* removing [lo,mid) and then, in the new numbering, [lo,lo+w2) is removing [lo,mid+w2) at once *)
Lemma spec_rm_adjacent : forall lo mid w2 l, 0 <= lo <= mid -> 0 <= w2 ->
  spec_rm lo (lo + w2) 0 (spec_rm lo mid 0 l) = spec_rm lo (mid + w2) 0 l.
Proof.
  intros lo mid w2 l [H0 Hlm] Hw.
  pose proof (spec_rm_adjacent_gen lo mid w2 l 0 Hlm Hw) as E.
  destruct (Z.eq_dec lo 0) as [->|Hne].
  - rewrite shifted_in in E by lia. exact E.
  - rewrite shifted_lt in E by lia. exact E.
Qed.

Lemma py_clamp_id : forall n x, 0 <= x <= n -> py_clamp n x = x.
Proof.
  intros n x H. unfold py_clamp. destruct (x <? 0) eqn:E; [apply Z.ltb_lt in E; lia|lia].
Qed.

(* the same on testcase objects: deleting a window in two adjacent steps or in one step gives
   the same object, field for field *)
Lemma rmslice_adjacent : forall t lo mid w t1 t2 t3, wf t ->
  0 <= lo <= mid -> 0 <= w -> mid + w <= tc_len t ->
  rmslice t lo mid = Ok t1 -> rmslice t1 lo (lo + w) = Ok t2 ->
  rmslice t lo (mid + w) = Ok t3 -> t2 = t3.
Proof.
  intros t lo mid w t1 t2 t3 Hwf Hlm Hw Hn H1 H2 H3.
  destruct (rmslice_spec t lo mid t1 Hwf H1) as (Hwf1 & Hz1 & Hb1 & Ha1 & Hl1).
  { rewrite !py_clamp_id by lia. lia. }
  rewrite !py_clamp_id in Hz1, Hl1 by lia.
  destruct (rmslice_spec t1 lo (lo + w) t2 Hwf1 H2) as (Hwf2 & Hz2 & Hb2 & Ha2 & _).
  { rewrite !py_clamp_id by lia. lia. }
  rewrite !py_clamp_id in Hz2 by lia.
  destruct (rmslice_spec t lo (mid + w) t3 Hwf H3) as (Hwf3 & Hz3 & Hb3 & Ha3 & _).
  { rewrite !py_clamp_id by lia. lia. }
  rewrite !py_clamp_id in Hz3 by lia.
  apply tcase_ext; try assumption; try congruence.
  rewrite Hz2, Hz1, Hz3. apply spec_rm_adjacent; lia.
Qed.

(* every non-reducible part survives any removal, in its place among the non-reducible parts *)
Lemma spec_rm_keeps_nonred : forall lo hi l r,
  filter nonred (spec_rm lo hi r l) = filter nonred l.
Proof.
  intros lo hi l. induction l as [|[p b] l IH]; intros r; [reflexivity|].
  destruct b; cbn [spec_rm].
  - destruct ((lo <=? r) && (r <? hi)); cbn [filter nonred snd negb]; apply IH.
  - cbn [filter nonred snd negb]. f_equal. apply IH.
Qed.

Lemma rmslice_keeps_nonred : forall t (a b : Z) t', wf t -> rmslice t a b = Ok t' ->
  py_clamp (tc_len t) a <= py_clamp (tc_len t) b ->
  filter nonred (zipped t') = filter nonred (zipped t).
Proof.
  intros t a b t' Hwf Hrm Hle.
  destruct (rmslice_spec t a b t' Hwf Hrm Hle) as (_ & Hz & _).
  rewrite Hz. apply spec_rm_keeps_nonred.
Qed.
