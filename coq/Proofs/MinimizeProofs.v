(* Proofs about the model of strategies.Minimize (Model/Minimize.v) and about deleting strategies
   in general.  Used by Props/C04.v and Props/C14.v.  No axioms. *)
From Coq Require Import ZArith NArith List Bool Lia ZifyBool.
From Lithium Require Import PyBase TcRecord Util Testcase Spec Driver TraceSpec Minimize StratSpec
  TestcaseProofs DriverProofs.
Import ListNotations.
Open Scope Z_scope.

(* ------------------------------------------------------------------ *)
(* powers of two                                                      *)
(* ------------------------------------------------------------------ *)

Lemma pow2_pos : forall c, pow2 c -> 1 <= c.
Proof.
  intros c [j [Hj Hc]]. subst c. pose proof (Z.pow_pos_nonneg 2 j ltac:(lia) Hj). lia.
Qed.

Lemma pow2_1 : pow2 1.
Proof. exists 0. split; [lia | reflexivity]. Qed.

Lemma pow2_lt_double : forall a b, pow2 a -> pow2 b -> a < b -> 2 * a <= b.
Proof.
  intros a b [i [Hi Ha]] [j [Hj Hb]] Hlt. subst a b.
  apply Z.pow_lt_mono_r_iff in Hlt; [|lia|lia].
  replace (2 * 2 ^ i) with (2 ^ (i + 1)) by (rewrite Z.pow_add_r; lia).
  apply Z.pow_le_mono_r; lia.
Qed.

Lemma pow2_half : forall c, pow2 c -> 1 < c -> pow2 (c / 2) /\ 2 * (c / 2) = c.
Proof.
  intros c [j [Hj Hc]] Hlt. subst c.
  assert (Hj1 : 1 <= j).
  { destruct (Z.eq_dec j 0) as [E|E]; [subst j; cbn in Hlt; lia | lia]. }
  replace (2 ^ j) with (2 * 2 ^ (j - 1)).
  2:{ replace j with (1 + (j - 1)) at 2 by lia. rewrite Z.pow_add_r; lia. }
  replace (2 * 2 ^ (j - 1) / 2) with (2 ^ (j - 1)).
  2:{ rewrite Z.mul_comm, Z.div_mul; lia. }
  split; [|reflexivity]. exists (j - 1). split; [lia | reflexivity].
Qed.

Lemma pow2_min : forall a b, pow2 a -> pow2 b -> pow2 (Z.min a b).
Proof.
  intros a b Ha Hb. destruct (Z.min_spec a b) as [[_ E]|[_ E]]; rewrite E; assumption.
Qed.

Lemma py_shr_1 : forall x, py_shr x 1 = x / 2.
Proof. intros x. unfold py_shr. rewrite Z.shiftr_div_pow2 by lia. reflexivity. Qed.

Lemma py_shl_1 : forall k, 0 <= k -> py_shl 1 k = 2 ^ k.
Proof. intros k Hk. unfold py_shl. rewrite Z.shiftl_mul_pow2 by exact Hk. lia. Qed.

(* ------------------------------------------------------------------ *)
(* util.is_power_of_two / largest_power_of_two_smaller_than           *)
(* ------------------------------------------------------------------ *)

Lemma top_bit_pos : forall x, 0 < x ->
  py_shl 1 (Z.max (bit_length x - 1) 0) = 2 ^ Z.log2 x.
Proof.
  intros x Hx. unfold bit_length.
  destruct (x =? 0) eqn:E; [lia|].
  rewrite Z.abs_eq by lia. pose proof (Z.log2_nonneg x) as Hl.
  replace (Z.max (Z.log2 x + 1 - 1) 0) with (Z.log2 x) by lia.
  apply py_shl_1. exact Hl.
Qed.

Lemma top_bit_positive : forall x, 0 < py_shl 1 (Z.max (bit_length x - 1) 0).
Proof.
  intros x. rewrite py_shl_1 by lia. apply Z.pow_pos_nonneg; lia.
Qed.

Lemma is_power_of_two_spec : forall x, is_power_of_two x = true <-> pow2 x.
Proof.
  intros x. unfold is_power_of_two. split.
  - intros H. apply Z.eqb_eq in H.
    pose proof (top_bit_positive x) as Hp.
    assert (Hx : 0 < x) by lia.
    rewrite (top_bit_pos x Hx) in H.
    exists (Z.log2 x). split; [apply Z.log2_nonneg | symmetry; exact H].
  - intros Hp. pose proof (pow2_pos x Hp) as Hx. destruct Hp as [j [Hj Hc]].
    apply Z.eqb_eq. rewrite (top_bit_pos x) by lia. subst x.
    rewrite Z.log2_pow2 by exact Hj. reflexivity.
Qed.

(* for every n >= 0 (n = 0 and n = 1 give 1) *)
Lemma lpo2st_gen : forall n, 0 <= n ->
  pow2 (largest_power_of_two_smaller_than n) /\ n <= 2 * largest_power_of_two_smaller_than n /\
  (2 <= n -> largest_power_of_two_smaller_than n < n).
Proof.
  intros n Hn. unfold largest_power_of_two_smaller_than. cbv zeta.
  destruct (Z.eq_dec n 0) as [E0|E0].
  { subst n. cbn. split; [apply pow2_1 | lia]. }
  assert (Hpos : 0 < n) by lia.
  rewrite (top_bit_pos n Hpos).
  pose proof (Z.log2_spec n Hpos) as [Hlo Hhi].
  pose proof (Z.log2_nonneg n) as Hl.
  replace (2 ^ Z.succ (Z.log2 n)) with (2 * 2 ^ Z.log2 n) in Hhi
    by (rewrite Z.pow_succ_r; lia).
  assert (Hp : pow2 (2 ^ Z.log2 n)) by (exists (Z.log2 n); split; [exact Hl | reflexivity]).
  destruct ((2 ^ Z.log2 n =? n) && (n >? 1)) eqn:E.
  - apply andb_true_iff in E. destruct E as [E1 E2].
    apply Z.eqb_eq in E1. rewrite py_shr_1.
    destruct (pow2_half (2 ^ Z.log2 n) Hp ltac:(lia)) as [Hh He].
    split; [exact Hh|]. lia.
  - split; [exact Hp|]. apply andb_false_iff in E. split; [lia|]. intros H2.
    destruct E as [E|E]; lia.
Qed.

Lemma lpo2st_spec :
  forall n, 2 <= n ->
    pow2 (largest_power_of_two_smaller_than n) /\
    largest_power_of_two_smaller_than n < n <= 2 * largest_power_of_two_smaller_than n.
Proof.
  intros n Hn. destruct (lpo2st_gen n ltac:(lia)) as (Hp & Hle & Hlt).
  split; [exact Hp|]. split; [apply Hlt; exact Hn | exact Hle].
Qed.

(* ------------------------------------------------------------------ *)
(* halve                                                              *)
(* ------------------------------------------------------------------ *)

Lemma halve_pow2_le : forall f cs len, pow2 cs ->
  pow2 (halve f cs len) /\ halve f cs len <= cs.
Proof.
  induction f as [|f IH]; intros cs len Hp; cbn [halve].
  - split; [exact Hp | lia].
  - destruct (cs >? 1) eqn:E1; [|split; [exact Hp | lia]].
    rewrite py_shr_1. destruct (pow2_half cs Hp ltac:(lia)) as [Hh He].
    destruct (cs / 2 <? len) eqn:E2.
    + split; [exact Hh | lia].
    + destruct (IH (cs / 2) len Hh) as [Hp' Hle]. split; [exact Hp' | lia].
Qed.

Lemma halve_lt : forall f cs len, pow2 cs -> 1 < cs -> halve (S f) cs len < cs.
Proof.
  intros f cs len Hp Hlt. cbn [halve].
  destruct (cs >? 1) eqn:E1; [|lia].
  rewrite py_shr_1. destruct (pow2_half cs Hp Hlt) as [Hh He].
  destruct (cs / 2 <? len) eqn:E2; [lia|].
  destruct (halve_pow2_le f (cs / 2) len Hh) as [_ Hle]. lia.
Qed.

(* a size strictly below a power of two m < cs is only reached if m itself was not < len *)
Lemma halve_below : forall f cs len m, pow2 cs -> pow2 m -> m < cs ->
  halve f cs len < m -> len <= m.
Proof.
  induction f as [|f IH]; intros cs len m Hp Hm Hlt Hr; cbn [halve] in Hr.
  - lia.
  - pose proof (pow2_pos m Hm) as Hm1.
    destruct (cs >? 1) eqn:E1; [|lia].
    rewrite py_shr_1 in Hr. destruct (pow2_half cs Hp ltac:(lia)) as [Hh He].
    pose proof (pow2_lt_double m cs Hm Hp Hlt) as Hd.
    destruct (cs / 2 <? len) eqn:E2; [lia|].
    destruct (Z.eq_dec m (cs / 2)) as [E|E]; [lia|].
    apply (IH (cs / 2) len m Hh Hm); [lia | exact Hr].
Qed.
