(* Proofs about the model of strategies.Minimize (Model/Minimize.v) and about deleting strategies
   in general.  Used by Props/C04.v and Props/C14.v.  No axioms. *)
From Coq Require Import ZArith NArith List Bool Lia ZifyBool.
From Lithium Require Import PyBase TcRecord Util Testcase Spec Driver TraceSpec Minimize StratSpec
  TestcaseProofs DriverProofs.
Import ListNotations.
Open Scope Z_scope.

(* ------------------------------------------------------------------ *)
(* powers of two                                                      *)
(* ------------------------------------------------------------------ *)

Lemma pow2_pos : forall c, pow2 c -> 1 <= c.
Proof.
  intros c [j [Hj Hc]]. subst c. pose proof (Z.pow_pos_nonneg 2 j ltac:(lia) Hj). lia.
Qed.

Lemma pow2_1 : pow2 1.
Proof. exists 0. split; [lia | reflexivity]. Qed.

Lemma pow2_lt_double : forall a b, pow2 a -> pow2 b -> a < b -> 2 * a <= b.
Proof.
  intros a b [i [Hi Ha]] [j [Hj Hb]] Hlt. subst a b.
  apply Z.pow_lt_mono_r_iff in Hlt; [|lia|lia].
  replace (2 * 2 ^ i) with (2 ^ (i + 1)) by (rewrite Z.pow_add_r; lia).
  apply Z.pow_le_mono_r; lia.
Qed.

Lemma pow2_half : forall c, pow2 c -> 1 < c -> pow2 (c / 2) /\ 2 * (c / 2) = c.
Proof.
  intros c [j [Hj Hc]] Hlt. subst c.
  assert (Hj1 : 1 <= j).
  { destruct (Z.eq_dec j 0) as [E|E]; [subst j; cbn in Hlt; lia | lia]. }
  replace (2 ^ j) with (2 * 2 ^ (j - 1)).
  2:{ replace j with (1 + (j - 1)) at 2 by lia. rewrite Z.pow_add_r; lia. }
  replace (2 * 2 ^ (j - 1) / 2) with (2 ^ (j - 1)).
  2:{ rewrite Z.mul_comm, Z.div_mul; lia. }
  split; [|reflexivity]. exists (j - 1). split; [lia | reflexivity].
Qed.

Lemma pow2_min : forall a b, pow2 a -> pow2 b -> pow2 (Z.min a b).
Proof.
  intros a b Ha Hb. destruct (Z.min_spec a b) as [[_ E]|[_ E]]; rewrite E; assumption.
Qed.

Lemma py_shr_1 : forall x, py_shr x 1 = x / 2.
Proof. intros x. unfold py_shr. rewrite Z.shiftr_div_pow2 by lia. reflexivity. Qed.

Lemma py_shl_1 : forall k, 0 <= k -> py_shl 1 k = 2 ^ k.
Proof. intros k Hk. unfold py_shl. rewrite Z.shiftl_mul_pow2 by exact Hk. lia. Qed.

(* ------------------------------------------------------------------ *)
(* util.is_power_of_two / largest_power_of_two_smaller_than           *)
(* ------------------------------------------------------------------ *)

Lemma top_bit_pos : forall x, 0 < x ->
  py_shl 1 (Z.max (bit_length x - 1) 0) = 2 ^ Z.log2 x.
Proof.
  intros x Hx. unfold bit_length.
  destruct (x =? 0) eqn:E; [lia|].
  rewrite Z.abs_eq by lia. pose proof (Z.log2_nonneg x) as Hl.
  replace (Z.max (Z.log2 x + 1 - 1) 0) with (Z.log2 x) by lia.
  apply py_shl_1. exact Hl.
Qed.

Lemma top_bit_positive : forall x, 0 < py_shl 1 (Z.max (bit_length x - 1) 0).
Proof.
  intros x. rewrite py_shl_1 by lia. apply Z.pow_pos_nonneg; lia.
Qed.

Lemma is_power_of_two_spec : forall x, is_power_of_two x = true <-> pow2 x.
Proof.
  intros x. unfold is_power_of_two. split.
  - intros H. apply Z.eqb_eq in H.
    pose proof (top_bit_positive x) as Hp.
    assert (Hx : 0 < x) by lia.
    rewrite (top_bit_pos x Hx) in H.
    exists (Z.log2 x). split; [apply Z.log2_nonneg | symmetry; exact H].
  - intros Hp. pose proof (pow2_pos x Hp) as Hx. destruct Hp as [j [Hj Hc]].
    apply Z.eqb_eq. rewrite (top_bit_pos x) by lia. subst x.
    rewrite Z.log2_pow2 by exact Hj. reflexivity.
Qed.

(* for every n >= 0 (n = 0 and n = 1 give 1) *)
Lemma lpo2st_gen : forall n, 0 <= n ->
  pow2 (largest_power_of_two_smaller_than n) /\ n <= 2 * largest_power_of_two_smaller_than n /\
  (2 <= n -> largest_power_of_two_smaller_than n < n).
Proof.
  intros n Hn. unfold largest_power_of_two_smaller_than. cbv zeta.
  destruct (Z.eq_dec n 0) as [E0|E0].
  { subst n. cbn. split; [apply pow2_1 | lia]. }
  assert (Hpos : 0 < n) by lia.
  rewrite (top_bit_pos n Hpos).
  pose proof (Z.log2_spec n Hpos) as [Hlo Hhi].
  pose proof (Z.log2_nonneg n) as Hl.
  replace (2 ^ Z.succ (Z.log2 n)) with (2 * 2 ^ Z.log2 n) in Hhi
    by (rewrite Z.pow_succ_r; lia).
  assert (Hp : pow2 (2 ^ Z.log2 n)) by (exists (Z.log2 n); split; [exact Hl | reflexivity]).
  destruct ((2 ^ Z.log2 n =? n) && (n >? 1)) eqn:E.
  - apply andb_true_iff in E. destruct E as [E1 E2].
    apply Z.eqb_eq in E1. rewrite py_shr_1.
    destruct (pow2_half (2 ^ Z.log2 n) Hp ltac:(lia)) as [Hh He].
    split; [exact Hh|]. lia.
  - split; [exact Hp|]. apply andb_false_iff in E. split; [lia|]. intros H2.
    destruct E as [E|E]; lia.
Qed.

Lemma lpo2st_spec :
  forall n, 2 <= n ->
    pow2 (largest_power_of_two_smaller_than n) /\
    largest_power_of_two_smaller_than n < n <= 2 * largest_power_of_two_smaller_than n.
Proof.
  intros n Hn. destruct (lpo2st_gen n ltac:(lia)) as (Hp & Hle & Hlt).
  split; [exact Hp|]. split; [apply Hlt; exact Hn | exact Hle].
Qed.

(* ------------------------------------------------------------------ *)
(* halve                                                              *)
(* ------------------------------------------------------------------ *)

Lemma halve_pow2_le : forall f cs len, pow2 cs ->
  pow2 (halve f cs len) /\ halve f cs len <= cs.
Proof.
  induction f as [|f IH]; intros cs len Hp; cbn [halve].
  - split; [exact Hp | lia].
  - destruct (cs >? 1) eqn:E1; [|split; [exact Hp | lia]].
    rewrite py_shr_1. destruct (pow2_half cs Hp ltac:(lia)) as [Hh He].
    destruct (cs / 2 <? len) eqn:E2.
    + split; [exact Hh | lia].
    + destruct (IH (cs / 2) len Hh) as [Hp' Hle]. split; [exact Hp' | lia].
Qed.

Lemma halve_lt : forall f cs len, pow2 cs -> 1 < cs -> halve (S f) cs len < cs.
Proof.
  intros f cs len Hp Hlt. cbn [halve].
  destruct (cs >? 1) eqn:E1; [|lia].
  rewrite py_shr_1. destruct (pow2_half cs Hp Hlt) as [Hh He].
  destruct (cs / 2 <? len) eqn:E2; [lia|].
  destruct (halve_pow2_le f (cs / 2) len Hh) as [_ Hle]. lia.
Qed.

Lemma halve_fuel_lt : forall cs len, pow2 cs -> 1 < cs -> halve (halve_fuel cs) cs len < cs.
Proof. intros cs len Hp Hlt. exact (halve_lt _ cs len Hp Hlt). Qed.

(* a size strictly below a power of two m < cs is only reached if m itself was not < len *)
Lemma halve_below : forall f cs len m, pow2 cs -> pow2 m -> m < cs ->
  halve f cs len < m -> len <= m.
Proof.
  induction f as [|f IH]; intros cs len m Hp Hm Hlt Hr; cbn [halve] in Hr.
  - lia.
  - pose proof (pow2_pos m Hm) as Hm1.
    destruct (cs >? 1) eqn:E1; [|lia].
    rewrite py_shr_1 in Hr. destruct (pow2_half cs Hp ltac:(lia)) as [Hh He].
    pose proof (pow2_lt_double m cs Hm Hp Hlt) as Hd.
    destruct (cs / 2 <? len) eqn:E2; [lia|].
    destruct (Z.eq_dec m (cs / 2)) as [E|E]; [lia|].
    apply (IH (cs / 2) len m Hh Hm); [lia | exact Hr].
Qed.

(* ------------------------------------------------------------------ *)
(* a generic invariant principle for the driver loop                  *)
(* ------------------------------------------------------------------ *)

Definition on_ls {S} (K : S -> iter -> world -> Prop) (s : lstate S) : Prop :=
  match s with LS st it w => K st it w end.

Lemma lsteps_on_ls : forall S (strat : strategy S) verdict (K : S -> iter -> world -> Prop),
  (forall a b, lstep strat verdict a b -> on_ls K a -> on_ls K b) ->
  forall a b, lsteps strat verdict a b -> on_ls K a -> on_ls K b.
Proof.
  intros S strat verdict K Hstep a b Hs. induction Hs as [s|a b c Hab Hbc IH]; intros Ha.
  - exact Ha.
  - apply IH. eapply Hstep; eassumption.
Qed.

(* invariants that relate only the strategy state and the current best *)
Definition step_inv {S} (strat : strategy S) (J : S -> tcase -> Prop) : Prop :=
  forall st best, J st best ->
    match s_next strat st best with
    | Propose t k => J (k Skipped) best /\ J (k (Tested false)) best /\ J (k (Tested true)) t
    | RawWrite _ st' => J st' best
    | Done => True
    | Fail _ => True
    end.

Lemma lsteps_step_inv : forall S (strat : strategy S) verdict (J : S -> tcase -> Prop),
  step_inv strat J ->
  forall a b, lsteps strat verdict a b ->
    on_ls (fun st it _ => J st (it_best it)) a -> on_ls (fun st it _ => J st (it_best it)) b.
Proof.
  intros S strat verdict J HJ. apply lsteps_on_ls.
  intros a b Hstep. destruct Hstep as
    [st it w b0 st' Hn | st it w t k Hn Hm | st it w t k w' Hn Hm Hi | st it w t k w' Hn Hm Hi];
    cbn [on_ls it_best]; intros Ha; pose proof (HJ _ _ Ha) as Hs; rewrite Hn in Hs.
  - exact Hs.
  - apply Hs.
  - apply Hs.
  - apply Hs.
Qed.

Lemma loop_start_state : forall S (strat : strategy S) verdict tc0 file0,
  exists w, loop_start strat verdict tc0 file0 = LS (s_start strat tc0) (it0 tc0) w.
Proof. intros S strat verdict tc0 file0. eexists. reflexivity. Qed.

Lemma reachable_step_inv : forall S (strat : strategy S) verdict (J : S -> tcase -> Prop)
    tc0 file0 st it w,
  step_inv strat J -> J (s_start strat tc0) tc0 ->
  reachable strat verdict tc0 file0 st it w -> J st (it_best it).
Proof.
  intros S strat verdict J tc0 file0 st it w HJ H0 Hr. unfold reachable in Hr.
  destruct (loop_start_state S strat verdict tc0 file0) as [w0' E]. rewrite E in Hr.
  apply (lsteps_step_inv S strat verdict J HJ _ _ Hr). cbn [on_ls it0 it_best]. exact H0.
Qed.

(* ------------------------------------------------------------------ *)
(* C04: deleting strategies only ever delete                          *)
(* ------------------------------------------------------------------ *)

Definition is_deletion (tc0 : tcase) (f : bytes) : Prop :=
  exists t, sub_reducible tc0 t /\ f = content t.

Lemma tad_app : forall tc0 l1 l2,
  tests_are_deletions tc0 l1 -> tests_are_deletions tc0 l2 -> tests_are_deletions tc0 (l1 ++ l2).
Proof. intros tc0 l1 l2 H1 H2. unfold tests_are_deletions. apply Forall_app. split; assumption. Qed.

Lemma tad_wafter : forall tc0 w t a,
  tests_are_deletions tc0 (chron w) -> sub_reducible tc0 t ->
  tests_are_deletions tc0 (chron (wafter w t a)).
Proof.
  intros tc0 w t a Hw Ht. rewrite chron_wafter. apply tad_app; [exact Hw|].
  constructor; [exact I|]. constructor.
  - exists t. split; [exact Ht | reflexivity].
  - destruct a; cbn [tcopy]; repeat constructor.
Qed.

Lemma tad_finally : forall tc0 w,
  tests_are_deletions tc0 (chron w) -> tests_are_deletions tc0 (chron (finally w)).
Proof.
  intros tc0 w Hw. destruct (finally_cases w) as [[He _]|(t & _ & _ & He)]; rewrite He.
  - rewrite chron_log. apply tad_app; [exact Hw|]. repeat constructor.
  - rewrite chron_write_file, chron_log. apply tad_app; [apply tad_app; [exact Hw|]|];
      repeat constructor.
Qed.

Lemma file_finally_deletion : forall tc0 w,
  is_deletion tc0 (w_file w) ->
  (forall t, w_last w = Some t -> sub_reducible tc0 t) ->
  is_deletion tc0 (w_file (finally w)).
Proof.
  intros tc0 w Hf Hl. destruct (finally_cases w) as [[He _]|(t & Ht & _ & He)]; rewrite He.
  - exact Hf.
  - exists t. split; [apply Hl; exact Ht | reflexivity].
Qed.

Section Deleting.
  Variables (S : Type) (strat : strategy S) (I : S -> tcase -> Prop) (verdict : verdict_t)
            (tc0 : tcase).
  Hypothesis Hdel : deleting strat I.

  Definition KD (st : S) (it : iter) (w : world) : Prop :=
    I st (it_best it) /\ sub_reducible tc0 (it_best it) /\
    tests_are_deletions tc0 (chron w) /\ is_deletion tc0 (w_file w) /\
    w_last w = Some (it_best it).

  Lemma sub_reducible_wf : forall t t', sub_reducible t t' -> wf t'.
  Proof. intros t t' (_ & _ & H & _). exact H. Qed.

  Lemma KD_step : forall a b, lstep strat verdict a b -> on_ls KD a -> on_ls KD b.
  Proof.
    intros a b Hstep. destruct Hstep as
      [st it w b0 st' Hn | st it w t k Hn Hm | st it w t k w' Hn Hm Hi | st it w t k w' Hn Hm Hi];
      cbn [on_ls]; intros (HI & Hsub & Htad & Hfile & Hlast);
      pose proof (Hdel _ _ HI (sub_reducible_wf _ _ Hsub)) as Hd; rewrite Hn in Hd.
    - contradiction.
    - destruct Hd as (_ & Hk & _). unfold KD. split; [exact Hk|]. split; [exact Hsub|].
      split; [exact Htad|]. split; [exact Hfile | exact Hlast].
    - destruct Hd as (Hst & _ & _ & Hk).
      apply interesting_true_inv in Hi. destruct Hi as [_ Hw]. subst w'.
      pose proof (sub_reducible_trans _ _ _ Hsub Hst) as Ht.
      unfold KD. cbn [it_best]. split; [exact Hk|]. split; [exact Ht|].
      split; [apply tad_wafter; assumption|]. split.
      + rewrite wafter_file. exists t. split; [exact Ht | reflexivity].
      + rewrite wafter_last. reflexivity.
    - destruct Hd as (Hst & _ & Hk & _).
      apply interesting_true_inv in Hi. destruct Hi as [_ Hw]. subst w'.
      pose proof (sub_reducible_trans _ _ _ Hsub Hst) as Ht.
      unfold KD. cbn [it_best]. split; [exact Hk|]. split; [exact Hsub|].
      split; [apply tad_wafter; assumption|]. split.
      + rewrite wafter_file. exists t. split; [exact Ht | reflexivity].
      + rewrite wafter_last. exact Hlast.
  Qed.
End Deleting.

Lemma deleting_runs_only_delete :
  forall S (strat : strategy S) (I : S -> tcase -> Prop) verdict fuel tc0 file0,
    wf tc0 -> content tc0 = file0 -> I (s_start strat tc0) tc0 -> deleting strat I ->
    let w := result_world (run strat verdict fuel tc0 file0) in
    tests_are_deletions tc0 (chron w) /\ exists t, sub_reducible tc0 t /\ w_file w = content t.
Proof.
  intros S strat I verdict fuel tc0 file0 Hwf Hc HI0 Hdel. cbv zeta.
  pose proof (sub_reducible_refl tc0 Hwf) as Hrefl.
  assert (Hfile0 : is_deletion tc0 file0).
  { exists tc0. split; [exact Hrefl | symmetry; exact Hc]. }
  fold (is_deletion tc0 (w_file (result_world (run strat verdict fuel tc0 file0)))).
  destruct (run_cases S strat verdict fuel tc0 file0)
    as [[_ Hr]|[(_ & _ & Hr)|[(_ & _ & Hr)|(_ & _ & Hr)]]]; rewrite Hr; cbn [result_world].
  - split.
    + apply tad_finally. repeat constructor.
    + apply file_finally_deletion; [exact Hfile0|]. intros t Ht. discriminate Ht.
  - split.
    + apply tad_finally. cbv [chron w1 w0 log count_test temp_copy init_world w_trace rev app
                              w_file w_temp w_tests w_tfc w_total w_last w_dirty].
      repeat constructor. exact Hfile0.
    + apply file_finally_deletion; [exact Hfile0|]. intros t Ht. discriminate Ht.
  - split.
    + apply tad_finally. cbv [chron wN w1 w0 log count_test temp_copy init_world w_trace rev app
                              w_file w_temp w_tests w_tfc w_total w_last w_dirty].
      repeat constructor. exact Hfile0.
    + apply file_finally_deletion; [exact Hfile0|]. intros t Ht. discriminate Ht.
  - assert (HK0 : KD S I tc0 (s_start strat tc0) (it0 tc0) (wY tc0 file0)).
    { unfold KD. cbn [it0 it_best]. split; [exact HI0|]. split; [exact Hrefl|]. split; [|split].
      - cbv [chron wY w1 w0 log count_test temp_copy set_last init_world w_trace rev app
             w_file w_temp w_tests w_tfc w_total w_last w_dirty].
        repeat constructor. exact Hfile0.
      - exact Hfile0.
      - reflexivity. }
    destruct (loop_follows_lsteps S strat verdict fuel (s_start strat tc0) (it0 tc0)
                (wY tc0 file0) _ eq_refl) as (st' & it' & w' & Hs & Hm).
    pose proof (lsteps_on_ls S strat verdict (KD S I tc0)
                  (KD_step S strat I verdict tc0 Hdel) _ _ Hs HK0) as HK.
    cbn [on_ls] in HK. destruct HK as (HI & Hsub & Htad & Hfile & Hlast).
    destruct (loop strat verdict fuel (s_start strat tc0) (it0 tc0) (wY tc0 file0))
      as [rc wf1|[e|] wf1|wf1]; cbn [map_world result_world].
    + destruct Hm as (_ & Hw & _). subst wf1. split.
      * apply tad_finally. rewrite chron_write_file. apply tad_app; [exact Htad|].
        repeat constructor.
      * apply file_finally_deletion.
        -- exists (it_best it'). split; [exact Hsub | reflexivity].
        -- intros t Ht. cbn [write_file w_last] in Ht. rewrite Hlast in Ht.
           inversion Ht. subst t. exact Hsub.
    + destruct Hm as [_ Hw]. subst wf1. split; [apply tad_finally; exact Htad|].
      apply file_finally_deletion; [exact Hfile|].
      intros t Ht. rewrite Hlast in Ht. inversion Ht. subst t. exact Hsub.
    + destruct Hm as (t & k & Hn & _ & Hi).
      pose proof (Hdel _ _ HI (sub_reducible_wf _ _ Hsub)) as Hd. rewrite Hn in Hd.
      destruct Hd as (Hst & _).
      pose proof (sub_reducible_trans _ _ _ Hsub Hst) as Ht.
      apply interesting_true_inv in Hi. destruct Hi as [_ Hw]. subst wf1. split.
      * apply tad_finally. apply tad_wafter; assumption.
      * apply file_finally_deletion.
        -- rewrite wafter_file. exists t. split; [exact Ht | reflexivity].
        -- intros t1 Ht1. rewrite wafter_last, Hlast in Ht1. inversion Ht1. subst t1. exact Hsub.
    + subst wf1. split; [exact Htad | exact Hfile].
Qed.

(* ------------------------------------------------------------------ *)
(* minimize: basic shapes                                             *)
(* ------------------------------------------------------------------ *)

Ltac msimpl :=
  cbn [m_chunk_size m_min_chunk m_chunk_end m_removed m_deadline m_reads m_phase set_phase].
Ltac msimpl_in H :=
  cbn [m_chunk_size m_min_chunk m_chunk_end m_removed m_deadline m_reads m_phase set_phase] in H.

Lemma lpo2st_nonneg : forall n, 0 <= largest_power_of_two_smaller_than n.
Proof.
  intros n. unfold largest_power_of_two_smaller_than. cbv zeta.
  pose proof (top_bit_positive n) as Hp.
  destruct ((py_shl 1 (Z.max (bit_length n - 1) 0) =? n) && (n >? 1)).
  - rewrite py_shr_1. apply Z.div_pos; lia.
  - lia.
Qed.

Lemma halve_nonneg : forall f cs len, 0 <= cs -> 0 <= halve f cs len.
Proof.
  induction f as [|f IH]; intros cs len Hcs; cbn [halve].
  - exact Hcs.
  - destruct (cs >? 1); [|exact Hcs].
    assert (H2 : 0 <= py_shr cs 1) by (rewrite py_shr_1; apply Z.div_pos; lia).
    destruct (py_shr cs 1 <? len); [exact H2 | apply IH; exact H2].
Qed.

(* what decide_state can return *)
Lemma decide_state_shape : forall cfg s best s',
  decide_state cfg s best = Some s' ->
  m_min_chunk s' = m_min_chunk s /\ m_chunk_end s' = tc_len best /\ m_phase s' = PHead /\
  (m_chunk_size s' = m_chunk_size s \/
   (m_min_chunk s < m_chunk_size s /\
    m_chunk_size s' = halve (halve_fuel (m_chunk_size s)) (m_chunk_size s) (tc_len best))).
Proof.
  intros cfg s best s' H. unfold decide_state in H. cbv zeta in H.
  destruct (m_chunk_size s <=? m_min_chunk s) eqn:E1.
  - destruct (m_removed s && repeats_last_or_always (c_repeat cfg)) eqn:E2; [|discriminate H].
    inversion H. subst s'. msimpl. repeat split. left. reflexivity.
  - destruct (m_removed s && is_always (c_repeat cfg) && (m_chunk_size s <? tc_len best)) eqn:E2;
      inversion H; subst s'; msimpl; repeat split.
    + left. reflexivity.
    + right. split; [lia | reflexivity].
Qed.

(* the candidate of propose_chunk *)
Lemma propose_chunk_shape : forall s best t k,
  propose_chunk s best = Propose t k ->
  rmslice best (Z.max 0 (m_chunk_end s - m_chunk_size s)) (m_chunk_end s) = Ok t /\
  (forall o, m_chunk_size (k o) = m_chunk_size s /\ m_min_chunk (k o) = m_min_chunk s /\
             m_phase (k o) = PHead) /\
  m_chunk_end (k (Tested true)) = Z.max 0 (m_chunk_end s - m_chunk_size s) /\
  (forall o, o <> Tested true -> m_chunk_end (k o) <= m_chunk_end s \/ m_chunk_size s <= 0).
Proof.
  intros s best t k H. unfold propose_chunk, block_of in H. cbv zeta in H. cbn [fst] in H.
  rewrite copy_id in H.
  destruct (rmslice best (Z.max 0 (m_chunk_end s - m_chunk_size s)) (m_chunk_end s))
    as [t1|e] eqn:Er; [|discriminate H].
  inversion H. subst t1. split; [reflexivity|]. split; [|split].
  - intros o. destruct o as [|[|]]; msimpl; repeat split.
  - reflexivity.
  - intros o Ho. destruct o as [|[|]]; msimpl; try (exfalso; apply Ho; reflexivity);
      destruct (m_chunk_size s <=? 2) eqn:E; lia.
Qed.

Lemma propose_chunk_cases : forall s best,
  (exists e, propose_chunk s best = Fail e) \/ (exists t k, propose_chunk s best = Propose t k).
Proof.
  intros s best. unfold propose_chunk. cbv zeta.
  destruct (rmslice (copy best) (fst (block_of s)) (m_chunk_end s)) as [t|e].
  - right. eexists. eexists. reflexivity.
  - left. exists e. reflexivity.
Qed.

(* mnext from the head of the loop with no post-round callback *)
Definition tick (s : mstate) : mstate :=
  {| m_chunk_size := m_chunk_size s; m_min_chunk := m_min_chunk s;
     m_chunk_end := m_chunk_end s; m_removed := m_removed s;
     m_deadline := m_deadline s;
     m_reads := match m_deadline s with Some _ => S (m_reads s) | None => m_reads s end;
     m_phase := PHead |}.

Lemma mnext_head_cases : forall cfg clk st best,
  m_phase st = PHead ->
  mnext cfg clk no_post st best = Done \/
  (m_chunk_end st - m_chunk_size st < 0 /\ tc_len best <> 0 /\
   exists s', decide_state cfg (tick st) best = Some s' /\
              mnext cfg clk no_post st best = propose_chunk s' best) \/
  (0 <= m_chunk_end st - m_chunk_size st /\
   mnext cfg clk no_post st best = propose_chunk (tick st) best).
Proof.
  intros cfg clk st best Hph. unfold mnext. rewrite Hph. cbv zeta. fold (tick st).
  destruct (match m_deadline st with Some d => clk (m_reads st) >? d | None => false end);
    [left; reflexivity|].
  change (m_chunk_end (tick st)) with (m_chunk_end st).
  change (m_chunk_size (tick st)) with (m_chunk_size st).
  destruct (m_chunk_end st - m_chunk_size st <? 0) eqn:E1.
  - destruct (tc_len best =? 0) eqn:E2; [left; reflexivity|].
    unfold no_post, decide.
    destruct (decide_state cfg (tick st) best) as [s'|] eqn:Ed; [|left; reflexivity].
    right. left. split; [lia|]. split; [lia|]. exists s'. split; reflexivity.
  - right. right. split; [lia | reflexivity].
Qed.

(* ------------------------------------------------------------------ *)
(* C04: minimize is a deleting strategy                               *)
(* ------------------------------------------------------------------ *)

Definition ID (st : mstate) (best : tcase) : Prop :=
  0 <= m_chunk_size st /\ m_phase st = PHead.

Lemma propose_chunk_deleting : forall s best,
  0 <= m_chunk_size s -> wf best ->
  match propose_chunk s best with
  | Propose t k => sub_reducible best t /\
                   ID (k Skipped) best /\ ID (k (Tested false)) best /\ ID (k (Tested true)) t
  | RawWrite _ _ => False
  | Done => True
  | Fail _ => True
  end.
Proof.
  intros s best Hcs Hwf.
  destruct (propose_chunk_cases s best) as [[e He]|(t & k & Hp)].
  - rewrite He. exact I.
  - rewrite Hp. destruct (propose_chunk_shape s best t k Hp) as (Hr & Hk & _).
    split.
    + apply (rmslice_sub_reducible best _ _ t Hwf Hr).
      pose proof (tc_len_nonneg best Hwf) as Hlen. unfold py_clamp.
      destruct (Z.max 0 (m_chunk_end s - m_chunk_size s) <? 0) eqn:E1;
        destruct (m_chunk_end s <? 0) eqn:E2; lia.
    + unfold ID. destruct (Hk Skipped) as (H1 & _ & H1').
      destruct (Hk (Tested false)) as (H2 & _ & H2').
      destruct (Hk (Tested true)) as (H3 & _ & H3').
      rewrite H1, H2, H3. repeat split; assumption.
Qed.

Lemma minimize_deleting_ID : forall cfg clk, deleting (minimize cfg clk no_post) ID.
Proof.
  intros cfg clk st best [Hcs Hph] Hwf. cbn [minimize s_next].
  destruct (mnext_head_cases cfg clk st best Hph)
    as [Hm|[(_ & _ & s' & Hds & Hm)|(_ & Hm)]]; rewrite Hm.
  - exact I.
  - apply propose_chunk_deleting; [|exact Hwf].
    destruct (decide_state_shape cfg (tick st) best s' Hds) as (_ & _ & _ & [Hc|[_ Hc]]);
      rewrite Hc; cbn [tick m_chunk_size]; [exact Hcs | apply halve_nonneg; exact Hcs].
  - apply propose_chunk_deleting; [exact Hcs | exact Hwf].
Qed.

Lemma minimize_is_deleting :
  forall cfg clk tc0, 1 <= c_max cfg ->
    exists I, I (mstart cfg clk tc0) tc0 /\ deleting (minimize cfg clk no_post) I.
Proof.
  intros cfg clk tc0 Hmax. exists ID. split; [|apply minimize_deleting_ID].
  split; [|reflexivity]. cbn [mstart m_chunk_size].
  pose proof (lpo2st_nonneg (tc_len tc0)). lia.
Qed.

Lemma minimize_only_deletes :
  forall cfg clk verdict fuel tc0 file0,
    wf tc0 -> content tc0 = file0 -> 1 <= c_max cfg ->
    let w := result_world (run (minimize cfg clk no_post) verdict fuel tc0 file0) in
    tests_are_deletions tc0 (chron w) /\ exists t, sub_reducible tc0 t /\ w_file w = content t.
Proof.
  intros cfg clk verdict fuel tc0 file0 Hwf Hc Hmax.
  destruct (minimize_is_deleting cfg clk tc0 Hmax) as (I & HI0 & Hdel).
  apply (deleting_runs_only_delete mstate (minimize cfg clk no_post) I verdict fuel tc0 file0
           Hwf Hc HI0 Hdel).
Qed.

(* ------------------------------------------------------------------ *)
(* C14: round-end decision, options, deadline                         *)
(* ------------------------------------------------------------------ *)

Lemma decide_repeat :
  forall cfg s best s',
    1 <= m_min_chunk s -> pow2 (m_chunk_size s) ->
    decide_state cfg s best = Some s' ->
    m_chunk_size s' <= m_chunk_size s /\ pow2 (m_chunk_size s') /\
    (m_chunk_size s' = m_chunk_size s ->
       m_removed s = true /\
       match c_repeat cfg with
       | Never => False
       | Last => m_chunk_size s <= m_min_chunk s
       | Always => True
       end).
Proof.
  intros cfg s best s' Hmin Hp H. unfold decide_state in H. cbv zeta in H.
  destruct (m_chunk_size s <=? m_min_chunk s) eqn:E1.
  - destruct (m_removed s && repeats_last_or_always (c_repeat cfg)) eqn:E2; [|discriminate H].
    inversion H. subst s'. msimpl. split; [lia|]. split; [exact Hp|]. intros _.
    apply andb_true_iff in E2. destruct E2 as [Er Em]. split; [exact Er|].
    destruct (c_repeat cfg); cbn [repeats_last_or_always] in Em;
      [exact I | lia | discriminate Em].
  - destruct (m_removed s && is_always (c_repeat cfg) && (m_chunk_size s <? tc_len best)) eqn:E2;
      injection H as H; subst s'; msimpl.
    + split; [lia|]. split; [exact Hp|]. intros _.
      apply andb_true_iff in E2. destruct E2 as [E2 _].
      apply andb_true_iff in E2. destruct E2 as [Er Em]. split; [exact Er|].
      destruct (c_repeat cfg); cbn [is_always] in Em; [exact I | discriminate Em | discriminate Em].
    + destruct (halve_pow2_le (halve_fuel (m_chunk_size s)) (m_chunk_size s)
                              (tc_len best) Hp) as [Hp' Hle].
      pose proof (halve_fuel_lt (m_chunk_size s) (tc_len best) Hp ltac:(lia)) as Hlt.
      split; [exact Hle|]. split; [exact Hp'|]. intros Heq.
      change (halve (halve_fuel (m_chunk_size s)) (m_chunk_size s) (tc_len best) = m_chunk_size s) in Heq. lia.
Qed.

Lemma decide_never_stops :
  forall cfg s best, c_repeat cfg = Never -> m_chunk_size s <= m_min_chunk s ->
    decide_state cfg s best = None.
Proof.
  intros cfg s best Hr Hle. unfold decide_state. cbv zeta.
  destruct (m_chunk_size s <=? m_min_chunk s) eqn:E1; [|lia].
  rewrite Hr. cbn [repeats_last_or_always]. rewrite andb_false_r. reflexivity.
Qed.

Lemma mstart_min_eq_max :
  forall cfg clk tc0, c_min cfg = c_max cfg -> 1 <= c_max cfg ->
    m_chunk_size (mstart cfg clk tc0) = m_min_chunk (mstart cfg clk tc0).
Proof.
  intros cfg clk tc0 He Hmax. cbn [mstart m_chunk_size m_min_chunk]. rewrite He. lia.
Qed.

Lemma mnext_deadline :
  forall cfg clk post s best d,
    m_phase s = PHead -> m_deadline s = Some d -> clk (m_reads s) > d ->
    mnext cfg clk post s best = Done.
Proof.
  intros cfg clk post s best d Hph Hd Hgt. unfold mnext. rewrite Hph, Hd.
  destruct (clk (m_reads s) >? d) eqn:E; [reflexivity | lia].
Qed.

Lemma mstart_deadline :
  forall cfg clk tc0 l, c_limit cfg = Some l ->
    m_deadline (mstart cfg clk tc0) = Some (clk O + l) /\ m_phase (mstart cfg clk tc0) = PHead.
Proof.
  intros cfg clk tc0 l Hl. cbn [mstart m_deadline m_phase]. rewrite Hl. split; reflexivity.
Qed.

Lemma step_inv_ID : forall cfg clk,
  step_inv (minimize cfg clk no_post) (fun st _ => m_phase st = PHead).
Proof.
  intros cfg clk st best Hph. cbn [minimize s_next].
  destruct (mnext_head_cases cfg clk st best Hph)
    as [Hm|[(_ & _ & s' & _ & Hm)|(_ & Hm)]]; rewrite Hm; [exact I| |].
  - destruct (propose_chunk_cases s' best) as [[e He]|(t & k & Hp)];
      [rewrite He; exact I|]. rewrite Hp.
    destruct (propose_chunk_shape s' best t k Hp) as (_ & Hk & _).
    repeat split; apply Hk.
  - destruct (propose_chunk_cases (tick st) best) as [[e He]|(t & k & Hp)];
      [rewrite He; exact I|]. rewrite Hp.
    destruct (propose_chunk_shape (tick st) best t k Hp) as (_ & Hk & _).
    repeat split; apply Hk.
Qed.

Lemma minimize_phase_head :
  forall cfg clk verdict tc0 file0 st it w,
    reachable (minimize cfg clk no_post) verdict tc0 file0 st it w -> m_phase st = PHead.
Proof.
  intros cfg clk verdict tc0 file0 st it w Hr.
  apply (reachable_step_inv mstate (minimize cfg clk no_post) verdict
           (fun st _ => m_phase st = PHead) tc0 file0 st it w (step_inv_ID cfg clk)
           eq_refl Hr).
Qed.

(* ------------------------------------------------------------------ *)
(* C14: every candidate of minimize is one block of the size in force *)
(* ------------------------------------------------------------------ *)

Lemma mnext_no_raw : forall cfg clk st best b s',
  m_phase st = PHead -> mnext cfg clk no_post st best <> RawWrite b s'.
Proof.
  intros cfg clk st best b s' Hph H.
  destruct (mnext_head_cases cfg clk st best Hph)
    as [Hm|[(_ & _ & s1 & _ & Hm)|(_ & Hm)]]; rewrite Hm in H.
  - discriminate H.
  - destruct (propose_chunk_cases s1 best) as [[e He]|(t & k & Hp)]; rewrite H in *; discriminate.
  - destruct (propose_chunk_cases (tick st) best) as [[e He]|(t & k & Hp)];
      rewrite H in *; discriminate.
Qed.

Section Blocks.
  Variables (cfg : mcfg) (n0 : Z).
  Hypothesis Hvalid : valid_cfg cfg.
  Hypothesis Hmm : c_min cfg <= c_max cfg.
  Hypothesis Hn0 : 0 <= n0.

  Record BI (st : mstate) (best : tcase) : Prop := {
    bi_phase : m_phase st = PHead;
    bi_pow2 : pow2 (m_chunk_size st);
    bi_max : m_chunk_size st <= eff_max cfg n0;
    bi_min : m_min_chunk st = Z.min (eff_max cfg n0) (c_min cfg);
    bi_end : m_chunk_end st <= tc_len best;
    bi_len : tc_len best <= n0;
    bi_wf : wf best;
    bi_small : m_chunk_size st < m_min_chunk st -> tc_len best <= m_min_chunk st
  }.

  Lemma cmin_pow2 : pow2 (c_min cfg).
  Proof. apply is_power_of_two_spec. exact (proj1 Hvalid). Qed.
  Lemma cmax_pow2 : pow2 (c_max cfg).
  Proof. apply is_power_of_two_spec. exact (proj2 Hvalid). Qed.
  Lemma eff_pow2 : pow2 (eff_max cfg n0).
  Proof.
    unfold eff_max. apply pow2_min; [exact cmax_pow2|]. apply (lpo2st_gen n0 Hn0).
  Qed.
  Lemma minchunk_pow2 : pow2 (Z.min (eff_max cfg n0) (c_min cfg)).
  Proof. apply pow2_min; [exact eff_pow2 | exact cmin_pow2]. Qed.

  Lemma BI_change : forall s best s' t,
    BI s best -> m_chunk_size s' = m_chunk_size s -> m_min_chunk s' = m_min_chunk s ->
    m_phase s' = PHead -> wf t -> tc_len t <= tc_len best -> m_chunk_end s' <= tc_len t ->
    BI s' t.
  Proof.
    intros s best s' t HB Hcs Hmin Hph Hwf Hlen Hend.
    constructor; rewrite ?Hcs, ?Hmin.
    - exact Hph.
    - apply (bi_pow2 _ _ HB).
    - apply (bi_max _ _ HB).
    - apply (bi_min _ _ HB).
    - exact Hend.
    - pose proof (bi_len _ _ HB). lia.
    - exact Hwf.
    - intros Hlt. pose proof (bi_small _ _ HB Hlt). lia.
  Qed.

  Lemma BI_below_min : forall s best,
    BI s best -> m_chunk_size s < c_min cfg -> tc_len best <= c_min cfg.
  Proof.
    intros s best HB Hlt.
    pose proof (bi_max _ _ HB) as Hmax. pose proof (bi_min _ _ HB) as Hmin.
    pose proof (bi_len _ _ HB) as Hlen. pose proof (bi_small _ _ HB) as Hsmall.
    destruct (lpo2st_gen n0 Hn0) as (HLp & HLd & _).
    unfold eff_max in *.
    destruct (Z_lt_dec (largest_power_of_two_smaller_than n0) (c_min cfg)) as [HL|HL].
    - pose proof (pow2_lt_double _ _ HLp cmin_pow2 HL). lia.
    - lia.
  Qed.

  Lemma BI_decide : forall s best s',
    BI s best -> decide_state cfg s best = Some s' ->
    BI s' best /\ m_chunk_end s' = tc_len best /\ m_chunk_size s' <= m_chunk_size s.
  Proof.
    intros s best s' HB Hd.
    destruct (decide_state_shape cfg s best s' Hd) as (Hmin & Hend & Hph & Hcs).
    destruct Hcs as [Hcs|[Hgt Hcs]].
    - split; [|split; [exact Hend | lia]].
      apply (BI_change s best s' best HB Hcs Hmin Hph (bi_wf _ _ HB)); lia.
    - pose proof (bi_pow2 _ _ HB) as Hp.
      destruct (halve_pow2_le (halve_fuel (m_chunk_size s)) (m_chunk_size s) (tc_len best) Hp)
        as [Hp' Hle].
      rewrite <- Hcs in Hp', Hle.
      split; [|split; [exact Hend | exact Hle]].
      constructor; rewrite ?Hmin.
      + exact Hph.
      + exact Hp'.
      + pose proof (bi_max _ _ HB). lia.
      + apply (bi_min _ _ HB).
      + lia.
      + apply (bi_len _ _ HB).
      + apply (bi_wf _ _ HB).
      + intros Hlt. rewrite Hcs in Hlt.
        apply (halve_below (halve_fuel (m_chunk_size s)) (m_chunk_size s) (tc_len best)
                 (m_min_chunk s) Hp); [|exact Hgt | exact Hlt].
        rewrite (bi_min _ _ HB). exact minchunk_pow2.
  Qed.

  Lemma BI_tick : forall s best, BI s best -> BI (tick s) best.
  Proof.
    intros s best HB.
    apply (BI_change s best (tick s) best HB eq_refl eq_refl eq_refl (bi_wf _ _ HB)).
    - lia.
    - apply (bi_end _ _ HB).
  Qed.

  Definition block_spec (st : mstate) (best t : tcase) (k : outcome -> mstate) : Prop :=
    exists s e c,
      rmslice best s e = Ok t /\ 0 <= s < e /\ e <= tc_len best /\
      pow2 c /\ c <= eff_max cfg n0 /\ c <= m_chunk_size st /\
      (forall o, m_chunk_size (k o) = c) /\
      (e - s = c \/ (s = 0 /\ e = tc_len best /\ e < c)) /\
      (e - s < c_min cfg -> tc_len best <= c_min cfg).

  Lemma BI_propose : forall s best t k,
    BI s best -> 0 < m_chunk_end s ->
    (m_chunk_end s - m_chunk_size s < 0 -> m_chunk_end s = tc_len best) ->
    propose_chunk s best = Propose t k ->
    block_spec s best t k /\
    BI (k Skipped) best /\ BI (k (Tested false)) best /\ BI (k (Tested true)) t.
  Proof.
    intros s best t k HB Hpos Hfirst Hp.
    destruct (propose_chunk_shape s best t k Hp) as (Hr & Hk & Hte & Hto).
    pose proof (bi_pow2 _ _ HB) as Hpw. pose proof (pow2_pos _ Hpw) as Hcs1.
    pose proof (bi_end _ _ HB) as Hend. pose proof (bi_wf _ _ HB) as Hwf.
    set (cs := m_chunk_size s) in *. set (ce := m_chunk_end s) in *.
    set (len := tc_len best) in *.
    assert (Hs0 : 0 <= Z.max 0 (ce - cs) < ce) by lia.
    assert (Hc1 : py_clamp len (Z.max 0 (ce - cs)) = Z.max 0 (ce - cs)).
    { unfold py_clamp. destruct (Z.max 0 (ce - cs) <? 0) eqn:E; lia. }
    assert (Hc2 : py_clamp len ce = ce).
    { unfold py_clamp. destruct (ce <? 0) eqn:E; lia. }
    pose proof (rmslice_spec best _ _ t Hwf Hr) as Hspec. cbv zeta in Hspec.
    fold len in Hspec. rewrite Hc1, Hc2 in Hspec.
    destruct (Hspec ltac:(lia)) as (Hwft & _ & _ & _ & Hlent).
    split; [|split; [|split]].
    - exists (Z.max 0 (ce - cs)), ce, cs.
      split; [exact Hr|]. split; [exact Hs0|]. split; [exact Hend|].
      split; [exact Hpw|]. split; [apply (bi_max _ _ HB)|]. split; [lia|].
      split; [intros o; apply (Hk o)|]. split.
      + destruct (Z_lt_dec (ce - cs) 0) as [Hlt|Hge].
        * right. pose proof (Hfirst Hlt). lia.
        * left. lia.
      + intros Hlt. destruct (Z_lt_dec cs (c_min cfg)) as [Hc|Hc].
        * apply (BI_below_min s best HB Hc).
        * pose proof (Hfirst ltac:(lia)). lia.
    - destruct (Hk Skipped) as (H1 & H2 & H3).
      apply (BI_change s best _ best HB H1 H2 H3 Hwf); [lia|].
      destruct (Hto Skipped ltac:(discriminate)) as [H|H]; fold cs ce in H; fold len; lia.
    - destruct (Hk (Tested false)) as (H1 & H2 & H3).
      apply (BI_change s best _ best HB H1 H2 H3 Hwf); [lia|].
      destruct (Hto (Tested false) ltac:(discriminate)) as [H|H]; fold cs ce in H; fold len; lia.
    - destruct (Hk (Tested true)) as (H1 & H2 & H3).
      apply (BI_change s best _ t HB H1 H2 H3 Hwft); [fold len; lia|].
      rewrite Hte, Hlent. lia.
  Qed.

  Lemma BI_mnext : forall clk st best t k,
    BI st best -> mnext cfg clk no_post st best = Propose t k ->
    block_spec st best t k /\
    BI (k Skipped) best /\ BI (k (Tested false)) best /\ BI (k (Tested true)) t.
  Proof.
    intros clk st best t k HB Hn.
    pose proof (BI_tick st best HB) as HBt.
    pose proof (pow2_pos _ (bi_pow2 _ _ HB)) as Hcs1.
    pose proof (tc_len_nonneg best (bi_wf _ _ HB)) as Hlen0.
    destruct (mnext_head_cases cfg clk st best (bi_phase _ _ HB))
      as [Hm|[(_ & Hne & s' & Hds & Hm)|(Hge & Hm)]]; rewrite Hm in Hn.
    - discriminate Hn.
    - destruct (BI_decide (tick st) best s' HBt Hds) as (HB' & Hend' & Hle').
      destruct (BI_propose s' best t k HB' ltac:(lia) ltac:(intros _; exact Hend') Hn)
        as ((s0 & e & c & Hb1 & Hb2 & Hb3 & Hb4 & Hb5 & Hb6 & Hb7) & HBk).
      split; [|exact HBk].
      exists s0, e, c. split; [exact Hb1|]. split; [exact Hb2|]. split; [exact Hb3|].
      split; [exact Hb4|]. split; [exact Hb5|]. split; [|exact Hb7].
      change (m_chunk_size (tick st)) with (m_chunk_size st) in Hle'. lia.
    - change (m_chunk_end st) with (m_chunk_end (tick st)) in Hge.
      change (m_chunk_size st) with (m_chunk_size (tick st)) in Hge, Hcs1.
      destruct (BI_propose (tick st) best t k HBt ltac:(lia) ltac:(lia) Hn) as (Hb & HBk).
      split; [exact Hb | exact HBk].
  Qed.

  Lemma BI_step_inv : forall clk, step_inv (minimize cfg clk no_post) BI.
  Proof.
    intros clk st best HB. cbn [minimize s_next].
    destruct (mnext cfg clk no_post st best) as [t k|b s'| |e] eqn:Hn.
    - apply (BI_mnext clk st best t k HB Hn).
    - exfalso. exact (mnext_no_raw cfg clk st best b s' (bi_phase _ _ HB) Hn).
    - exact I.
    - exact I.
  Qed.
End Blocks.

Lemma BI_start : forall cfg clk tc0,
  valid_cfg cfg -> c_min cfg <= c_max cfg -> wf tc0 ->
  BI cfg (tc_len tc0) (mstart cfg clk tc0) tc0.
Proof.
  intros cfg clk tc0 Hvalid Hmm Hwf.
  pose proof (tc_len_nonneg tc0 Hwf) as Hn0.
  pose proof (pow2_pos _ (cmin_pow2 cfg Hvalid)) as Hmin1.
  constructor; cbn [mstart m_phase m_chunk_size m_min_chunk m_chunk_end].
  - reflexivity.
  - apply (eff_pow2 cfg (tc_len tc0) Hvalid Hn0).
  - unfold eff_max. lia.
  - unfold eff_max. lia.
  - lia.
  - lia.
  - exact Hwf.
  - lia.
Qed.

Lemma minimize_blocks :
  forall cfg clk verdict tc0 file0 st it w t k,
    wf tc0 -> valid_cfg cfg -> c_min cfg <= c_max cfg ->
    reachable (minimize cfg clk no_post) verdict tc0 file0 st it w ->
    mnext cfg clk no_post st (it_best it) = Propose t k ->
    exists s e c,
      rmslice (it_best it) s e = Ok t /\ 0 <= s < e /\ e <= tc_len (it_best it) /\
      pow2 c /\ c <= eff_max cfg (tc_len tc0) /\ c <= m_chunk_size st /\
      (forall o, m_chunk_size (k o) = c) /\
      (e - s = c \/ (s = 0 /\ e = tc_len (it_best it) /\ e < c)) /\
      (e - s < c_min cfg -> tc_len (it_best it) <= c_min cfg).
Proof.
  intros cfg clk verdict tc0 file0 st it w t k Hwf Hvalid Hmm Hr Hn.
  pose proof (tc_len_nonneg tc0 Hwf) as Hn0.
  pose proof (reachable_step_inv mstate (minimize cfg clk no_post) verdict
                (BI cfg (tc_len tc0)) tc0 file0 st it w
                (BI_step_inv cfg (tc_len tc0) Hvalid Hmm Hn0 clk)
                (BI_start cfg clk tc0 Hvalid Hmm Hwf) Hr) as HB.
  destruct (BI_mnext cfg (tc_len tc0) Hvalid Hmm Hn0 clk st (it_best it) t k HB Hn) as [Hb _].
  exact Hb.
Qed.
