From Coq Require Import ZArith List Bool Lia ZifyBool.
From Lithium Require Import StatusTypes Status.
Open Scope Z_scope.

Lemma classify_timeout : forall t rc, classify t rc = TIMEOUT <-> t = true.
Proof.
  intros t rc. unfold classify. destruct t; [tauto|].
  destruct (rc =? 0); [split; discriminate|].
  destruct (negb (rc =? ERROR_CODE) && (0 <? rc) && (rc <? 2147483648)); split; discriminate.
Qed.

Lemma classify_finished : forall rc,
  (classify false rc = NORMAL <-> rc = 0) /\
  (classify false rc = CRASH <-> rc < 0 \/ rc = 77 \/ 2 ^ 31 <= rc) /\
  (classify false rc = ABNORMAL <-> 0 < rc < 2 ^ 31 /\ rc <> 77).
Proof.
  intro rc. unfold classify, ERROR_CODE. change (2 ^ 31) with 2147483648.
  destruct (rc =? 0) eqn:E0.
  - repeat split; intros; try discriminate; try lia.
  - destruct (negb (rc =? 77) && (0 <? rc) && (rc <? 2147483648)) eqn:E1;
      repeat split; intros; try discriminate; try lia.
Qed.

Lemma classify_posix : forall rc, -64 <= rc <= 255 ->
  (classify false rc = CRASH <-> rc < 0 \/ rc = 77).
Proof.
  intros rc H. destruct (classify_finished rc) as [_ [Hc _]]. rewrite Hc.
  change (2 ^ 31) with 2147483648. lia.
Qed.

Lemma code_reported : forall t rc,
  reported_code (classify t rc) rc = if t then None else Some rc.
Proof.
  intros t rc. destruct t; [reflexivity|].
  unfold classify. destruct (rc =? 0); [reflexivity|].
  destruct (negb (rc =? ERROR_CODE) && (0 <? rc) && (rc <? 2147483648)); reflexivity.
Qed.

Lemma crashes_iff : forall st, crashes_verdict st = true <-> st = CRASH.
Proof. intro st; destruct st; simpl; split; intro H; try discriminate; reflexivity. Qed.

Lemma hangs_iff : forall st, hangs_verdict st = true <-> st = TIMEOUT.
Proof. intro st; destruct st; simpl; split; intro H; try discriminate; reflexivity. Qed.
