(* The time limit of minimize-around / minimize-balanced (Model/Pairs.v):
   the deadline is fixed at the start, never changes, and once the clock stays beyond it the
   strategy proposes nothing more.  Used by Props/C14.v.  No axioms. *)
From Coq Require Import ZArith NArith List Bool Lia ZifyBool.
From Lithium Require Import PyBase TcRecord Util Testcase Driver Minimize Pairs.
Import ListNotations.
Open Scope Z_scope.

Ltac pdsimpl :=
  cbn [p_chunk_size p_final p_deadline p_reads p_any p_phase p_summary p_chunk_start
       p_i1 p_i2 p_i3 p_tables upd set_pp].
Ltac pdsimpl_in H :=
  cbn [p_chunk_size p_final p_deadline p_reads p_any p_phase p_summary p_chunk_start
       p_i1 p_i2 p_i3 p_tables upd set_pp] in H.

(* ------------------------------------------------------------------ *)
(* 1. "same deadline, no fewer clock reads"                            *)
(* ------------------------------------------------------------------ *)

Definition dl (s s' : pstate) : Prop :=
  p_deadline s' = p_deadline s /\ (p_reads s <= p_reads s')%nat.

Lemma dl_refl : forall s, dl s s.
Proof. intros s. split; [reflexivity | apply Nat.le_refl]. Qed.

Lemma dl_trans : forall a b c, dl a b -> dl b c -> dl a c.
Proof.
  intros a b c [Hd1 Hr1] [Hd2 Hr2]. split.
  - rewrite Hd2. exact Hd1.
  - eapply Nat.le_trans; eassumption.
Qed.

Lemma dl_set_pp : forall ph s, dl s (set_pp ph s).
Proof. intros ph s. split; [reflexivity | apply Nat.le_refl]. Qed.

Lemma dl_upd : forall s any ph sm cs a b c, dl s (upd s any ph sm cs a b c).
Proof. intros s any ph sm cs a b c. split; [reflexivity | apply Nat.le_refl]. Qed.

Lemma dl_bal_next : forall s any sm cst, dl s (bal_next s any sm cst).
Proof.
  intros s any sm cst. unfold bal_next.
  destruct (s_index sm (p_i1 s + 1)) as [l|]; apply dl_upd.
Qed.

Lemma dl_read_clock : forall clk s e s1, read_clock clk s = (e, s1) -> dl s s1.
Proof.
  intros clk s e s1 H. unfold read_clock in H. destruct (p_deadline s) as [d|] eqn:Ed.
  - injection H as _ H. subst s1. split; pdsimpl; [symmetry; exact Ed | apply Nat.le_succ_diag_r].
  - injection H as _ H. subst s1. apply dl_refl.
Qed.

(* with a deadline, the clock read is the comparison with the deadline and counts one read *)
Lemma read_clock_some : forall clk s d e s1,
  p_deadline s = Some d -> read_clock clk s = (e, s1) ->
  e = (clk (p_reads s) >? d) /\ p_deadline s1 = Some d /\ p_reads s1 = S (p_reads s) /\
  p_phase s1 = p_phase s.
Proof.
  intros clk s d e s1 Hd H. unfold read_clock in H. rewrite Hd in H.
  injection H as He H. subst s1. pdsimpl.
  split; [symmetry; exact He|]. split; [reflexivity|]. split; reflexivity.
Qed.

Lemma pass_start_dl : forall kind s best s',
  pass_start kind s best = Ok s' ->
  dl s s' /\ p_reads s' = p_reads s /\ (p_phase s' = PLoop \/ p_phase s' = PAfter).
Proof.
  intros kind s best s' H. unfold pass_start in H.
  destruct (divide_rounding_up (tc_len best) (p_chunk_size s)) as [nc|e]; cbn [bind] in H;
    [|discriminate H].
  destruct kind.
  - destruct (nc <? 3); injection H as H; subst s'; pdsimpl;
      (split; [apply dl_upd|]); (split; [reflexivity|]); [right | left]; reflexivity.
  - destruct (nc <? 2).
    + injection H as H; subst s'; pdsimpl.
      split; [apply dl_upd|]. split; [reflexivity | right; reflexivity].
    + destruct (flat_mapM _ (py_range nc)) as [tb|e]; cbn [bind] in H; [|discriminate H].
      injection H as H; subst s'; pdsimpl.
      split; [split; pdsimpl; [reflexivity | apply Nat.le_refl]|].
      split; [reflexivity | left; reflexivity].
Qed.

Lemma after_pass_dl : forall cfg clk s s', after_pass cfg clk s = Some s' -> dl s s'.
Proof.
  intros cfg clk s s' H. unfold after_pass in H.
  destruct (read_clock clk s) as [e s1] eqn:Erc.
  pose proof (dl_read_clock clk s e s1 Erc) as H1.
  destruct e; [discriminate H|]. cbv zeta in H.
  destruct (p_any s1 &&
            match c_repeat cfg with
            | Always => true
            | Last => p_chunk_size s1 <=? p_final s1
            | Never => false
            end).
  - injection H as H. subst s'. eapply dl_trans; [exact H1 | apply dl_set_pp].
  - destruct (p_chunk_size s1 <=? p_final s1); [discriminate H|].
    injection H as H. subst s'. eapply dl_trans; [exact H1|].
    split; pdsimpl; [reflexivity | apply Nat.le_refl].
Qed.

(* ------------------------------------------------------------------ *)
(* 2. the continuations of the proposals                               *)
(* ------------------------------------------------------------------ *)

Lemma around_propose_dl : forall s best t k,
  around_propose s best = Propose t k -> forall o, dl s (k o).
Proof.
  intros s best t k H o. unfold around_propose in H. cbv zeta in H.
  match type of H with
  | match ?m with Ok _ => _ | Err _ => _ end = _ => destruct m as [t1|e1]
  end; [|discriminate H].
  injection H as _ Hk. subst k. cbv beta.
  destruct o as [|[|]].
  - destruct (s_index (p_summary s) (p_i3 s + 1)); apply dl_upd.
  - destruct (s_rindex _ (p_i2 s)) as [b|].
    + destruct (s_index _ (p_i2 s + 1)) as [a|]; apply dl_upd.
    + destruct (s_index _ (p_i2 s + 1)) as [k1|]; [|apply dl_upd].
      destruct (s_index _ (k1 + 1)) as [a|]; apply dl_upd.
  - destruct (s_index (p_summary s) (p_i3 s + 1)); apply dl_upd.
Qed.

Lemma balanced_body_dl : forall s best,
  match balanced_body s best with
  | IStep (Propose t k) => forall o, dl s (k o)
  | IStep _ => True
  | ICont s2 => dl s s2
  end.
Proof.
  intros s best. unfold balanced_body. cbv zeta.
  destruct (negb (s_count (p_summary s) 0 (p_i1 s) * p_chunk_size s =? p_chunk_start s));
    [exact I|].
  destruct (nth_table (p_tables s) (p_i1 s)) as [n0|e]; [|exact I].
  destruct (zero3 n0).
  - destruct (rmslice (copy best) (p_chunk_start s)
                      (Z.min (tc_len best) (p_chunk_start s + p_chunk_size s))) as [t|e];
      [|exact I].
    intros o. destruct o as [|[|]]; apply dl_bal_next.
  - destruct (partner_scan _ _ (p_i1 s) n0) as [rhs n].
    destruct (negb (zero3 n)); [apply dl_bal_next|].
    match goal with
    | |- match (match ?m with Ok _ => _ | Err _ => _ end) with _ => _ end => destruct m as [t|e]
    end; [|exact I].
    intros o. destruct o as [|[|]]; apply dl_bal_next.
Qed.

(* ------------------------------------------------------------------ *)
(* 3. the deadline never changes                                       *)
(* ------------------------------------------------------------------ *)

Lemma pdrive_dl : forall kind cfg clk best fuel s t k,
  pdrive fuel kind cfg clk s best = Propose t k -> forall o, dl s (k o).
Proof.
  intros kind cfg clk best fuel. induction fuel as [|f IH]; intros s t k H o.
  - cbn [pdrive] in H. discriminate H.
  - cbn [pdrive] in H. destruct (p_phase s).
    + destruct (pass_start kind s best) as [s'|e] eqn:Eps; [|discriminate H].
      destruct (pass_start_dl kind s best s' Eps) as [Hd _].
      eapply dl_trans; [exact Hd | exact (IH s' t k H o)].
    + match type of H with
      | (if negb ?c then _ else _) = _ => destruct (negb c)
      end.
      * eapply dl_trans; [apply (dl_set_pp PAfter) | exact (IH _ t k H o)].
      * destruct (read_clock clk s) as [e s1] eqn:Erc.
        pose proof (dl_read_clock clk s e s1 Erc) as H1.
        destruct e.
        -- eapply dl_trans; [exact H1|].
           eapply dl_trans; [apply (dl_set_pp PAfter) | exact (IH _ t k H o)].
        -- destruct kind.
           ++ eapply dl_trans; [exact H1 | exact (around_propose_dl s1 best t k H o)].
           ++ pose proof (balanced_body_dl s1 best) as Hb.
              destruct (balanced_body s1 best) as [st|s2].
              ** subst st. eapply dl_trans; [exact H1 | exact (Hb o)].
              ** eapply dl_trans; [exact H1|].
                 eapply dl_trans; [exact Hb | exact (IH s2 t k H o)].
    + destruct (after_pass cfg clk s) as [s'|] eqn:Eap; [|discriminate H].
      eapply dl_trans; [exact (after_pass_dl cfg clk s s' Eap) | exact (IH s' t k H o)].
Qed.

Lemma pairs_deadline_constant :
  forall kind cfg clk s best t k o,
    pnext kind cfg clk s best = Propose t k ->
    p_deadline (k o) = p_deadline s /\ (p_reads s <= p_reads (k o))%nat.
Proof.
  intros kind cfg clk s best t k o H. unfold pnext in H.
  exact (pdrive_dl kind cfg clk best _ s t k H o).
Qed.

(* ------------------------------------------------------------------ *)
(* 4. the deadline at the start                                        *)
(* ------------------------------------------------------------------ *)

Lemma pairs_deadline_start :
  forall cfg clk tc0 l, c_limit cfg = Some l ->
    p_deadline (pstart cfg clk tc0) = Some (clk O + l) /\ p_reads (pstart cfg clk tc0) = 1%nat.
Proof.
  intros cfg clk tc0 l Hl. unfold pstart. pdsimpl. rewrite Hl. split; reflexivity.
Qed.

(* ------------------------------------------------------------------ *)
(* 5. an expired deadline stops the strategy                           *)
(* ------------------------------------------------------------------ *)

Definition stops (r : step pstate) : Prop := r = Done \/ exists e, r = Fail e.

Section Expired.
  Variables (kind : pkind) (cfg : mcfg) (clk : clock_t) (best : tcase) (d : Z).

  Definition late (s : pstate) : Prop :=
    p_deadline s = Some d /\ forall i, (p_reads s <= i)%nat -> clk i > d.

  Lemma late_set_pp : forall ph s, late s -> late (set_pp ph s).
  Proof. intros ph s H. exact H. Qed.

  Lemma late_read : forall s e s1, late s -> read_clock clk s = (e, s1) ->
    e = true /\ late s1 /\ p_phase s1 = p_phase s.
  Proof.
    intros s e s1 [Hd Hc] H.
    destruct (read_clock_some clk s d e s1 Hd H) as (He & Hd1 & Hr1 & Hp1).
    split.
    - rewrite He. pose proof (Hc (p_reads s) (Nat.le_refl _)) as Hlt. lia.
    - split; [|exact Hp1]. split; [exact Hd1|].
      intros i Hi. apply Hc. rewrite Hr1 in Hi. lia.
  Qed.

  (* phase PAfter: one transition *)
  Lemma expired_after : forall f s, late s -> p_phase s = PAfter ->
    stops (pdrive (S f) kind cfg clk s best).
  Proof.
    intros f s Hl Hph. cbn [pdrive]. rewrite Hph. unfold after_pass.
    destruct (read_clock clk s) as [e s1] eqn:Erc.
    destruct (late_read s e s1 Hl Erc) as (He & _ & _). subst e. left. reflexivity.
  Qed.

  (* phase PLoop: at most two transitions *)
  Lemma expired_loop : forall f s, late s -> p_phase s = PLoop ->
    stops (pdrive (S (S f)) kind cfg clk s best).
  Proof.
    intros f s Hl Hph. cbn [pdrive]. rewrite Hph.
    match goal with |- stops (if negb ?c then _ else _) => destruct (negb c) end.
    - apply (expired_after f (set_pp PAfter s)); [apply late_set_pp; exact Hl | reflexivity].
    - destruct (read_clock clk s) as [e s1] eqn:Erc.
      destruct (late_read s e s1 Hl Erc) as (He & Hl1 & _). subst e.
      apply (expired_after f (set_pp PAfter s1)); [apply late_set_pp; exact Hl1 | reflexivity].
  Qed.

  (* any phase: at most three transitions *)
  Lemma expired_any : forall f s, late s ->
    stops (pdrive (S (S (S f))) kind cfg clk s best).
  Proof.
    intros f s Hl. destruct (p_phase s) eqn:Hph.
    - cbn [pdrive]. rewrite Hph.
      destruct (pass_start kind s best) as [s'|e] eqn:Eps; [|right; exists e; reflexivity].
      destruct (pass_start_dl kind s best s' Eps) as ([Hd' _] & Hr' & Hph').
      assert (Hl' : late s').
      { destruct Hl as [Hd Hc]. split; [rewrite Hd'; exact Hd|].
        intros i Hi. apply Hc. rewrite <- Hr'. exact Hi. }
      destruct Hph' as [Hph'|Hph'].
      + apply (expired_loop f s' Hl' Hph').
      + apply (expired_after (S f) s' Hl' Hph').
    - apply (expired_loop (S f) s Hl Hph).
    - apply (expired_after (S (S f)) s Hl Hph).
  Qed.
End Expired.

Lemma pairs_fuel_ge3 : forall s best, exists f, pairs_fuel s best = S (S (S f)).
Proof.
  intros s best. unfold pairs_fuel.
  exists (3 * Z.to_nat (tc_len best) +
          4 * S (Z.to_nat (Z.log2 (Z.max 1 (p_chunk_size s)))) + 13)%nat.
  lia.
Qed.

Lemma pairs_deadline_stops :
  forall kind cfg clk s best d,
    p_deadline s = Some d -> (forall i, (p_reads s <= i)%nat -> clk i > d) ->
    pnext kind cfg clk s best = Done \/ exists e, pnext kind cfg clk s best = Fail e.
Proof.
  intros kind cfg clk s best d Hd Hc. unfold pnext.
  destruct (pairs_fuel_ge3 s best) as [f Hf]. rewrite Hf.
  apply (expired_any kind cfg clk best d f s). split; assumption.
Qed.
