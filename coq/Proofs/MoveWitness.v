(* A model-level witness of the known finding C11 `move-assertion-error`: with the experimental move, the strategy's own
   assertion fails right after a move was accepted (lines {, a, b, } - verdicts Y N N Y).  By computation. *)
From Coq Require Import ZArith NArith List Bool.
From Lithium Require Import PyBase TcRecord Testcase Driver TraceSpec Minimize PairsMove.
Import ListNotations.
Open Scope Z_scope.

Definition mv_tc : tcase :=
  {| tc_before := []; tc_parts := [[123%N; 10%N]; [97%N; 10%N]; [98%N; 10%N]; [125%N; 10%N]];
     tc_red := [true; true; true; true]; tc_after := [] |}.
Definition mv_verdict : verdict_t := fun k _ => if (k =? 1) || (k =? 4) then Yes else No.

Lemma move_assertion_witness :
  exists verdict tc0 w,
    run (pairs_move default_cfg (fun _ => 0)) verdict 200%nat tc0 (content tc0) = Aborted (Some AssertionError) w /\
    (exists k p f, In (ETest k p f Yes) (chron w) /\ 1 < k) /\
    w_file w = last_accepted (chron w) (content tc0) /\ w_file w <> content tc0.
Proof.
  exists mv_verdict, mv_tc.
  eexists. split; [vm_compute; reflexivity|].
  split; [exists 4, 4, [123%N; 10%N; 98%N; 10%N; 125%N; 10%N; 97%N; 10%N]; split; [vm_compute; tauto | reflexivity]|].
  split; [vm_compute; reflexivity | vm_compute; discriminate].
Qed.
