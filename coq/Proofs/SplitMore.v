(* C06 for the jsstr and attrs loaders: the generic loader theorem applied to the splitter
   facts of Split16Proofs. *)
From Coq Require Import ZArith NArith List Bool.
From Lithium Require Import PyBase TcRecord PyLines Markers Splitters SplitJs SplitAttrs SplitSpec
  SplitProofs Split16Proofs.

Lemma load_jsstr_ok : loader_ok load_jsstr /\ only_lithium_error load_jsstr.
Proof.
  split.
  - apply load_generic_ok. exact (proj1 split_jsstr_ok).
  - apply load_generic_errors. intros d e H. destruct (proj2 split_jsstr_ok d e H).
Qed.

Lemma load_attrs_ok : loader_ok load_attrs /\ only_lithium_error load_attrs.
Proof.
  split.
  - apply load_generic_ok. exact (proj1 split_attrs_ok).
  - apply load_generic_errors. intros d e H. destruct (proj2 split_attrs_ok d e H).
Qed.
