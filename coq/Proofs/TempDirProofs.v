(* Proofs for C20 (fresh temp directory under races and faults).  Every lemma used by
   Props/C20.v is here. *)
From Coq Require Import ZArith NArith List Bool Lia ZifyBool Arith.
From Lithium Require Import TempDir.
Import ListNotations.
Open Scope Z_scope.

(* ------------------------------------------------------------------------------------ *)
(* mem_z and the "entries >= i" measure                                                 *)
(* ------------------------------------------------------------------------------------ *)

Lemma mem_z_In : forall x l, mem_z x l = true <-> In x l.
Proof.
  intros x l. induction l as [|y l IH]; cbn [mem_z In].
  - split; [discriminate | intros []].
  - rewrite orb_true_iff, Z.eqb_eq, IH. split.
    + intros [H|H]; [left; symmetry; exact H | right; exact H].
    + intros [H|H]; [left; symmetry; exact H | right; exact H].
Qed.

Definition geq (i : Z) (fs : list Z) : nat := length (filter (fun x => i <=? x) fs).

Lemma geq_nil : forall i, geq i [] = O.
Proof. reflexivity. Qed.

Lemma geq_cons : forall i y fs,
  geq i (y :: fs) = ((if (i <=? y)%Z then 1 else 0) + geq i fs)%nat.
Proof.
  intros i y fs. unfold geq. cbn [filter]. destruct (i <=? y); reflexivity.
Qed.

Lemma geq_le_length : forall i fs, (geq i fs <= length fs)%nat.
Proof.
  intros i fs. induction fs as [|y fs IH].
  - rewrite geq_nil. cbn [length]. lia.
  - rewrite geq_cons. cbn [length]. destruct (i <=? y); lia.
Qed.

Lemma geq_succ_le : forall i fs, (geq (i + 1) fs <= geq i fs)%nat.
Proof.
  intros i fs. induction fs as [|y fs IH].
  - rewrite !geq_nil. lia.
  - rewrite !geq_cons. destruct (i + 1 <=? y) eqn:E1; destruct (i <=? y) eqn:E2; lia.
Qed.

Lemma geq_succ_lt : forall i fs, mem_z i fs = true -> (geq (i + 1) fs < geq i fs)%nat.
Proof.
  intros i fs. induction fs as [|y fs IH]; intros Hmem.
  - discriminate Hmem.
  - cbn [mem_z] in Hmem. rewrite !geq_cons.
    pose proof (geq_succ_le i fs) as Hle.
    destruct (i =? y) eqn:Eiy.
    + destruct (i + 1 <=? y) eqn:E1; destruct (i <=? y) eqn:E2; lia.
    + cbn [orb] in Hmem. specialize (IH Hmem).
      destruct (i + 1 <=? y) eqn:E1; destruct (i <=? y) eqn:E2; lia.
Qed.

(* ------------------------------------------------------------------------------------ *)
(* one run                                                                              *)
(* ------------------------------------------------------------------------------------ *)

Lemma ctd_from_nofault : forall fuel fs i, (geq i fs < fuel)%nat ->
  exists n, ctd_from fuel (fun _ => None) fs i = Dir n (n :: fs) /\
            i <= n /\ mem_z n fs = false /\ (forall m, i <= m < n -> mem_z m fs = true).
Proof.
  induction fuel as [|f IH]; intros fs i Hfuel.
  - lia.
  - cbn [ctd_from]. unfold mkdir. destruct (mem_z i fs) eqn:Hmem.
    + pose proof (geq_succ_lt i fs Hmem) as Hlt.
      destruct (IH fs (i + 1)) as [n [Hrun [Hle [Hfree Hbelow]]]]; [lia|].
      exists n. split; [exact Hrun|]. split; [lia|]. split; [exact Hfree|].
      intros m Hm. destruct (Z.eq_dec m i) as [Heq|Hne].
      * subst m. exact Hmem.
      * apply Hbelow. lia.
    + exists i. split; [reflexivity|]. split; [lia|]. split; [exact Hmem|].
      intros m Hm. lia.
Qed.

Lemma ctd_lowest_free :
  forall fs fuel, (length fs < fuel)%nat ->
    exists n, create_temp_dir fuel (fun _ => None) fs = Dir n (n :: fs) /\
              1 <= n /\ mem_z n fs = false /\ (forall m, 1 <= m < n -> mem_z m fs = true).
Proof.
  intros fs fuel Hfuel. unfold create_temp_dir. apply ctd_from_nofault.
  pose proof (geq_le_length 1 fs) as Hle. lia.
Qed.

Lemma ctd_from_fault_stops : forall fault fs n e fuel i,
  ctd_from fuel (fun _ => None) fs i = Dir n (n :: fs) ->
  fault n = Some e ->
  ctd_from fuel fault fs i = Failed e fs.
Proof.
  intros fault fs n e. induction fuel as [|f IH]; intros i Hrun Hfault.
  - discriminate Hrun.
  - cbn [ctd_from] in *. unfold mkdir in *. destruct (mem_z i fs) eqn:Hmem.
    + apply IH; assumption.
    + injection Hrun as Hin _. subst i. rewrite Hfault. reflexivity.
Qed.

Lemma ctd_fault_stops :
  forall fault fs fuel n e, (length fs < fuel)%nat ->
    create_temp_dir fuel (fun _ => None) fs = Dir n (n :: fs) ->
    fault n = Some e ->
    create_temp_dir fuel fault fs = Failed e fs.
Proof.
  intros fault fs fuel n e _ Hrun Hfault. unfold create_temp_dir in *.
  apply ctd_from_fault_stops with (n := n); assumption.
Qed.

Lemma ctd_from_terminates : forall fault fuel fs i, (geq i fs < fuel)%nat ->
  ctd_from fuel fault fs i <> Spinning.
Proof.
  intros fault. induction fuel as [|f IH]; intros fs i Hfuel.
  - lia.
  - cbn [ctd_from]. unfold mkdir. destruct (mem_z i fs) eqn:Hmem.
    + apply IH. pose proof (geq_succ_lt i fs Hmem) as Hlt. lia.
    + destruct (fault i) as [e|]; discriminate.
Qed.

Lemma ctd_terminates :
  forall fault fs fuel, (length fs < fuel)%nat -> create_temp_dir fuel fault fs <> Spinning.
Proof.
  intros fault fs fuel Hfuel. unfold create_temp_dir. apply ctd_from_terminates.
  pose proof (geq_le_length 1 fs) as Hle. lia.
Qed.

(* ------------------------------------------------------------------------------------ *)
(* update_nth / results                                                                 *)
(* ------------------------------------------------------------------------------------ *)

Lemma update_nth_app {A} : forall (l1 : list A) x y l2,
  update_nth (length l1) y (l1 ++ x :: l2) = l1 ++ y :: l2.
Proof.
  induction l1 as [|a l1 IH]; intros x y l2.
  - reflexivity.
  - cbn [length app update_nth]. rewrite IH. reflexivity.
Qed.

Lemma nth_error_update_nth_eq {A} : forall (l : list A) n x y,
  nth_error l n = Some x -> nth_error (update_nth n y l) n = Some y.
Proof.
  induction l as [|a l IH]; intros n x y Hn.
  - destruct n; discriminate Hn.
  - destruct n as [|n]; cbn [update_nth nth_error] in *.
    + reflexivity.
    + apply IH with (x := x). exact Hn.
Qed.

Lemma nth_error_update_nth_ne {A} : forall (l : list A) n m y,
  n <> m -> nth_error (update_nth n y l) m = nth_error l m.
Proof.
  induction l as [|a l IH]; intros n m y Hne.
  - destruct n; reflexivity.
  - destruct n as [|n]; destruct m as [|m]; cbn [update_nth nth_error].
    + contradiction Hne; reflexivity.
    + reflexivity.
    + reflexivity.
    + apply IH. intros E. apply Hne. rewrite E. reflexivity.
Qed.

Definition res_of (p : proc) : list Z :=
  match pr_done p with Some n => [n] | None => [] end.

Lemma results_app : forall l1 l2, results (l1 ++ l2) = results l1 ++ results l2.
Proof. intros l1 l2. unfold results. apply flat_map_app. Qed.

Lemma results_cons : forall p l, results (p :: l) = res_of p ++ results l.
Proof. reflexivity. Qed.

Lemma results_repeat0 : forall k, results (repeat proc0 k) = [].
Proof. induction k as [|k IH]; [reflexivity|]. cbn [repeat]. rewrite results_cons. exact IH. Qed.

(* ------------------------------------------------------------------------------------ *)
(* all schedules: distinct, fresh directories                                           *)
(* ------------------------------------------------------------------------------------ *)

Definition Inv (fs0 fs : list Z) (procs : list proc) : Prop :=
  NoDup (results procs) /\
  (forall n, In n (results procs) -> mem_z n fs0 = false /\ 1 <= n) /\
  (forall n, mem_z n fs = true <-> (mem_z n fs0 = true \/ In n (results procs))) /\
  (forall pr, In pr procs -> pr_done pr = None -> 1 <= pr_i pr).

Lemma Inv_step : forall fs0 fs procs p pr fs' pr',
  Inv fs0 fs procs -> nth_error procs p = Some pr -> pstep fs pr = (fs', pr') ->
  Inv fs0 fs' (update_nth p pr' procs).
Proof.
  intros fs0 fs procs p pr fs' pr' [Hnd [Hfresh [Hfs Hidx]]] Hnth Hstep.
  destruct (nth_error_split procs p Hnth) as [l1 [l2 [Hprocs Hlen]]].
  subst p. subst procs. rewrite update_nth_app.
  rewrite results_app, results_cons in Hnd, Hfresh, Hfs.
  unfold pstep in Hstep. unfold Inv. rewrite results_app, results_cons.
  assert (Hin_pr : In pr (l1 ++ pr :: l2)).
  { apply in_or_app. right. left. reflexivity. }
  assert (Hsub : forall q, In q (l1 ++ pr' :: l2) -> q = pr' \/ In q (l1 ++ pr :: l2)).
  { intros q Hq. apply in_app_or in Hq. destruct Hq as [Hq|[Hq|Hq]].
    - right. apply in_or_app. left. exact Hq.
    - left. symmetry. exact Hq.
    - right. apply in_or_app. right. right. exact Hq. }
  destruct (pr_done pr) as [d|] eqn:Hdone.
  - (* already done: nothing changes *)
    injection Hstep as Hfs' Hpr'. subst fs' pr'.
    split; [exact Hnd|]. split; [exact Hfresh|]. split; [exact Hfs|]. exact Hidx.
  - destruct (mem_z (pr_i pr) fs) eqn:Hmem.
    + (* name taken: bump the index *)
      injection Hstep as Hfs' Hpr'. subst fs' pr'.
      unfold res_of in *. rewrite Hdone in *. cbn [pr_done] in *.
      split; [exact Hnd|]. split; [exact Hfresh|]. split; [exact Hfs|].
      intros q Hq Hqd. destruct (Hsub q Hq) as [Heq|Hold].
      * subst q. cbn [pr_i]. specialize (Hidx pr Hin_pr Hdone). lia.
      * apply Hidx; assumption.
    + (* created *)
      injection Hstep as Hfs' Hpr'. subst fs' pr'.
      unfold res_of in *. rewrite Hdone in *. cbn [pr_done pr_i app] in *.
      assert (Hnotin : ~ In (pr_i pr) (results l1 ++ results l2)).
      { intros Hin. assert (Ht : mem_z (pr_i pr) fs = true).
        { apply Hfs. right. exact Hin. }
        rewrite Hmem in Ht. discriminate Ht. }
      assert (Hnot0 : mem_z (pr_i pr) fs0 = false).
      { destruct (mem_z (pr_i pr) fs0) eqn:E; [|reflexivity].
        assert (Ht : mem_z (pr_i pr) fs = true) by (apply Hfs; left; exact E).
        rewrite Hmem in Ht. discriminate Ht. }
      assert (Hinmid : forall n, In n (results l1 ++ pr_i pr :: results l2) <->
                                 (n = pr_i pr \/ In n (results l1 ++ results l2))).
      { intros n. rewrite !in_app_iff. cbn [In]. split.
        - intros [H|[H|H]]; [right; left; exact H | left; symmetry; exact H | right; right; exact H].
        - intros [H|[H|H]]; [right; left; symmetry; exact H | left; exact H | right; right; exact H]. }
      split.
      { apply (NoDup_Add (Add_app (pr_i pr) (results l1) (results l2))).
        split; [exact Hnd | exact Hnotin]. }
      split.
      { intros n Hn. apply Hinmid in Hn. destruct Hn as [Hn|Hn].
        - subst n. split; [exact Hnot0|]. apply Hidx; [exact Hin_pr | exact Hdone].
        - apply Hfresh. exact Hn. }
      split.
      { intros n. cbn [mem_z]. rewrite orb_true_iff, Z.eqb_eq, Hinmid, Hfs. tauto. }
      intros q Hq Hqd. destruct (Hsub q Hq) as [Heq|Hold].
      * subst q. discriminate Hqd.
      * apply Hidx; assumption.
Qed.

Lemma Inv_run : forall fs0 sched fs procs fs' procs',
  Inv fs0 fs procs -> run_sched sched fs procs = (fs', procs') -> Inv fs0 fs' procs'.
Proof.
  intros fs0. induction sched as [|p rest IH]; intros fs procs fs' procs' Hinv Hrun.
  - cbn [run_sched] in Hrun. injection Hrun as Hfs Hprocs. subst fs' procs'. exact Hinv.
  - cbn [run_sched] in Hrun. destruct (nth_error procs p) as [pr|] eqn:Hnth.
    + destruct (pstep fs pr) as [fs1 pr1] eqn:Hstep.
      apply (IH fs1 (update_nth p pr1 procs)); [|exact Hrun].
      apply Inv_step with (fs := fs) (pr := pr); assumption.
    + apply (IH fs procs); assumption.
Qed.

Lemma Inv_init : forall fs k, Inv fs fs (repeat proc0 k).
Proof.
  intros fs k. unfold Inv. rewrite results_repeat0. split; [constructor|].
  split; [intros n []|]. split.
  - intros n. split; [intros H; left; exact H | intros [H|[]]; exact H].
  - intros pr Hin _. apply repeat_spec in Hin. subst pr. cbn [pr_i proc0]. lia.
Qed.

Lemma sched_distinct_dirs :
  forall sched fs k,
    let '(fs', procs) := run_sched sched fs (repeat proc0 k) in
    NoDup (results procs) /\
    (forall n, In n (results procs) -> mem_z n fs = false /\ 1 <= n) /\
    (forall n, mem_z n fs' = true <-> (mem_z n fs = true \/ In n (results procs))).
Proof.
  intros sched fs k. destruct (run_sched sched fs (repeat proc0 k)) as [fs' procs] eqn:Hrun.
  destruct (Inv_run fs sched fs (repeat proc0 k) fs' procs (Inv_init fs k) Hrun)
    as [Hnd [Hfresh [Hfs _]]].
  split; [exact Hnd|]. split; [exact Hfresh | exact Hfs].
Qed.

(* ------------------------------------------------------------------------------------ *)
(* progress                                                                             *)
(* ------------------------------------------------------------------------------------ *)

Definition is_undone (p : proc) : bool :=
  match pr_done p with None => true | Some _ => false end.

Definition undone (l : list proc) : nat := length (filter is_undone l).

Lemma undone_app : forall l1 l2, undone (l1 ++ l2) = (undone l1 + undone l2)%nat.
Proof. intros l1 l2. unfold undone. rewrite filter_app, app_length. reflexivity. Qed.

Lemma undone_cons : forall p l,
  undone (p :: l) = ((if is_undone p then 1 else 0) + undone l)%nat.
Proof. intros p l. unfold undone. cbn [filter]. destruct (is_undone p); reflexivity. Qed.

Lemma undone_le_length : forall l, (undone l <= length l)%nat.
Proof.
  induction l as [|p l IH]; [unfold undone; cbn; lia|].
  rewrite undone_cons. cbn [length]. destruct (is_undone p); lia.
Qed.

(* a step of any process never increases  geq i fs + undone procs *)
Lemma pstep_measure : forall i fs procs q prq fs' prq',
  nth_error procs q = Some prq -> pstep fs prq = (fs', prq') ->
  (geq i fs' + undone (update_nth q prq' procs) <= geq i fs + undone procs)%nat.
Proof.
  intros i fs procs q prq fs' prq' Hnth Hstep.
  destruct (nth_error_split procs q Hnth) as [l1 [l2 [Hprocs Hlen]]].
  subst q. subst procs. rewrite update_nth_app.
  rewrite !undone_app, !undone_cons. unfold pstep in Hstep. unfold is_undone.
  destruct (pr_done prq) as [d|] eqn:Hdone.
  - injection Hstep as Hfs' Hpr'. subst fs' prq'. rewrite Hdone. lia.
  - destruct (mem_z (pr_i prq) fs).
    + injection Hstep as Hfs' Hpr'. subst fs' prq'. cbn [pr_done]. lia.
    + injection Hstep as Hfs' Hpr'. subst fs' prq'. cbn [pr_done]. rewrite geq_cons.
      destruct (i <=? pr_i prq); lia.
Qed.

Lemma progress_gen : forall sched fs procs p pr,
  nth_error procs p = Some pr ->
  (pr_done pr = None ->
   (geq (pr_i pr) fs + undone procs < count_occ Nat.eq_dec sched p)%nat) ->
  let '(_, procs') := run_sched sched fs procs in
  exists pr' n, nth_error procs' p = Some pr' /\ pr_done pr' = Some n.
Proof.
  induction sched as [|q rest IH]; intros fs procs p pr Hnth Hmeas.
  - cbn [run_sched]. destruct (pr_done pr) as [n|] eqn:Hdone.
    + exists pr, n. split; assumption.
    + specialize (Hmeas eq_refl). cbn [count_occ] in Hmeas. lia.
  - cbn [run_sched]. destruct (Nat.eq_dec q p) as [Heq|Hne].
    + subst q. rewrite Hnth. destruct (pstep fs pr) as [fs1 pr1] eqn:Hstep.
      apply (IH fs1 (update_nth p pr1 procs) p pr1).
      * apply nth_error_update_nth_eq with (x := pr). exact Hnth.
      * intros Hd1. pose proof (pstep_measure (pr_i pr) fs procs p pr fs1 pr1 Hnth Hstep) as Hle.
        unfold pstep in Hstep. destruct (pr_done pr) as [d|] eqn:Hdone.
        { injection Hstep as Hfs1 Hpr1. subst fs1 pr1. rewrite Hdone in Hd1. discriminate Hd1. }
        specialize (Hmeas eq_refl). rewrite count_occ_cons_eq in Hmeas by reflexivity.
        destruct (mem_z (pr_i pr) fs) eqn:Hmem.
        { injection Hstep as Hfs1 Hpr1. subst fs1 pr1. cbn [pr_i].
          pose proof (geq_succ_lt (pr_i pr) fs Hmem) as Hlt. lia. }
        { injection Hstep as Hfs1 Hpr1. subst fs1 pr1. discriminate Hd1. }
    + rewrite count_occ_cons_neq in Hmeas by exact Hne.
      destruct (nth_error procs q) as [prq|] eqn:Hq.
      * destruct (pstep fs prq) as [fs1 prq1] eqn:Hstep.
        apply (IH fs1 (update_nth q prq1 procs) p pr).
        { rewrite nth_error_update_nth_ne by exact Hne. exact Hnth. }
        { intros Hd. specialize (Hmeas Hd).
          pose proof (pstep_measure (pr_i pr) fs procs q prq fs1 prq1 Hq Hstep) as Hle. lia. }
      * apply (IH fs procs p pr); assumption.
Qed.

Lemma nth_error_repeat {A} : forall (x : A) k p, (p < k)%nat -> nth_error (repeat x k) p = Some x.
Proof.
  intros x. induction k as [|k IH]; intros p Hp; [lia|].
  destruct p as [|p]; cbn [repeat nth_error]; [reflexivity|]. apply IH. lia.
Qed.

Lemma sched_progress :
  forall sched fs k p,
    (p < k)%nat -> (length fs + k < count_occ Nat.eq_dec sched p)%nat ->
    let '(_, procs) := run_sched sched fs (repeat proc0 k) in
    exists pr n, nth_error procs p = Some pr /\ pr_done pr = Some n.
Proof.
  intros sched fs k p Hp Hcount.
  apply (progress_gen sched fs (repeat proc0 k) p proc0).
  - apply nth_error_repeat. exact Hp.
  - intros _. pose proof (geq_le_length (pr_i proc0) fs) as H1.
    pose proof (undone_le_length (repeat proc0 k)) as H2. rewrite repeat_length in H2. lia.
Qed.

(* ---- a run started through main(): without --tempdir a NEW directory is created whatever the object held
   before (process_args assigns temp_dir unconditionally) *)
Lemma main_fresh :
  forall before fs fuel, (length fs < fuel)%nat ->
    exists n, main_temp_dir fuel (fun _ => None) fs before None = (Some (TNum n), Dir n (n :: fs)) /\
              1 <= n /\ mem_z n fs = false /\ (forall m, 1 <= m < n -> mem_z m fs = true).
Proof.
  intros before fs fuel Hf.
  destruct (ctd_lowest_free fs fuel Hf) as (n & E & H1 & H2 & H3).
  exists n. unfold main_temp_dir, after_process_args. rewrite E. auto.
Qed.

Lemma main_given :
  forall before fs fuel fault p,
    main_temp_dir fuel fault fs before (Some p) = (Some (TGiven p), Dir 0 fs).
Proof. reflexivity. Qed.
