(* Proofs about the command-line model (Model/Cli.v) used by Props/C17.v. *)
From Coq Require Import ZArith NArith List Bool String Lia.
From Lithium Require Import PyBase Cli.
Import ListNotations.

(* ---- generic helpers ---- *)

Lemma cli_bytes_eqb_eq : forall a c : bytes, bytes_eqb a c = true -> a = c.
Proof.
  induction a as [|x a IH]; intros [|y c] H; cbn [bytes_eqb] in H.
  - reflexivity.
  - discriminate H.
  - discriminate H.
  - apply andb_true_iff in H. destruct H as [Hx Hr].
    apply N.eqb_eq in Hx. apply IH in Hr. subst. reflexivity.
Qed.

Lemma cli_bytes_eqb_refl : forall a : bytes, bytes_eqb a a = true.
Proof.
  induction a as [|x a IH]; cbn [bytes_eqb].
  - reflexivity.
  - rewrite N.eqb_refl, IH. reflexivity.
Qed.

(* induction that also gives access to the tail of the tail (scan may consume two tokens) *)
Lemma list_ind2 : forall (A : Type) (P : list A -> Prop),
  P [] ->
  (forall x l, P l -> (forall y l', l = y :: l' -> P l') -> P (x :: l)) ->
  forall l, P l.
Proof.
  intros A P Hnil Hcons l.
  assert (H : P l /\ (forall y l', l = y :: l' -> P l')).
  { induction l as [|x l IH].
    - split; [exact Hnil|]. intros y l' E. discriminate E.
    - destruct IH as [IH1 IH2]. split.
      + apply Hcons; assumption.
      + intros y l' E. injection E as _ E. subst l'. exact IH1. }
  exact (proj1 H).
Qed.

(* ---- scan: everything after the first positional is copied ---- *)

Lemma scan_isolation_gen :
  forall tbl lenient name rest, is_dash name = false ->
  forall pre acc items,
    scan tbl lenient pre acc = Ok (items, []) ->
    scan tbl lenient (pre ++ name :: rest) acc = Ok (items, name :: rest).
Proof.
  intros tbl lenient name rest Hname pre.
  induction pre as [|t r IH IH2] using list_ind2; intros acc items.
  - cbn [app scan]. rewrite Hname. cbn [negb]. intros H.
    injection H as H. rewrite H. reflexivity.
  - rewrite <- app_comm_cons. cbn [scan].
    destruct (negb (is_dash t)) eqn:Ed.
    + intros H. discriminate H.
    + destruct (split_eq t) as [[n v]|] eqn:Es.
      * destruct (lookup n tbl) as [[|]|] eqn:El.
        -- intros H. discriminate H.
        -- apply IH.
        -- destruct lenient.
           ++ apply IH.
           ++ intros H. discriminate H.
      * destruct (lookup t tbl) as [[|]|] eqn:El.
        -- apply IH.
        -- destruct r as [|v r'].
           ++ intros H. discriminate H.
           ++ rewrite <- app_comm_cons.
              destruct (is_dash v).
              ** intros H. discriminate H.
              ** apply (IH2 v r' eq_refl).
        -- destruct lenient.
           ++ apply IH.
           ++ intros H. discriminate H.
Qed.

Lemma scan_isolation :
  forall tbl lenient pre items name rest,
    scan tbl lenient pre [] = Ok (items, []) -> is_dash name = false ->
    scan tbl lenient (pre ++ name :: rest) [] = Ok (items, name :: rest).
Proof.
  intros tbl lenient pre items name rest H Hname.
  apply scan_isolation_gen; assumption.
Qed.

(* ---- two tables where the first ("main") is covered by the second ("early") ---- *)

Section Agree.
  Variable tblM tblE : optable.
  Hypothesis Hagree : forall n k, lookup n tblM = Some k -> lookup n tblE = Some k.

  Lemma strict_implies_lenient :
    forall argv acc items extra,
      scan tblM false argv acc = Ok (items, extra) ->
      scan tblE true argv acc = Ok (items, extra).
  Proof.
    intros argv.
    induction argv as [|t r IH IH2] using list_ind2; intros acc items extra.
    - cbn [scan]. intros H. exact H.
    - cbn [scan].
      destruct (negb (is_dash t)) eqn:Ed.
      + intros H. exact H.
      + destruct (split_eq t) as [[n v]|] eqn:Es.
        * destruct (lookup n tblM) as [k|] eqn:El.
          -- rewrite (Hagree _ _ El). destruct k.
             ++ intros H. exact H.
             ++ apply IH.
          -- intros H. discriminate H.
        * destruct (lookup t tblM) as [k|] eqn:El.
          -- rewrite (Hagree _ _ El). destruct k.
             ++ apply IH.
             ++ destruct r as [|v r'].
                ** intros H. exact H.
                ** destruct (is_dash v).
                   --- intros H. exact H.
                   --- apply (IH2 v r' eq_refl).
          -- intros H. discriminate H.
  Qed.

  Lemma scan_sync :
    forall name rest rest', is_dash name = false ->
    forall pre accE ie accM,
      scan tblE true pre accE = Ok (ie, []) ->
      (exists e e',
         scan tblM false (pre ++ name :: rest) accM = Err e /\
         scan tblM false (pre ++ name :: rest') accM = Err e') \/
      (exists items,
         scan tblM false (pre ++ name :: rest) accM = Ok (items, name :: rest) /\
         scan tblM false (pre ++ name :: rest') accM = Ok (items, name :: rest')).
  Proof.
    intros name rest rest' Hname pre.
    induction pre as [|t r IH IH2] using list_ind2; intros accE ie accM.
    - cbn [app scan]. rewrite Hname. cbn [negb]. intros _.
      right. exists (rev accM). split; reflexivity.
    - rewrite <- !app_comm_cons. cbn [scan].
      destruct (negb (is_dash t)) eqn:Ed.
      + intros H. discriminate H.
      + destruct (split_eq t) as [[n v]|] eqn:Es.
        * destruct (lookup n tblM) as [k|] eqn:El.
          -- rewrite (Hagree _ _ El). destruct k.
             ++ intros H. discriminate H.
             ++ apply IH.
          -- intros _. left. exists ValueError, ValueError. split; reflexivity.
        * destruct (lookup t tblM) as [k|] eqn:El.
          -- rewrite (Hagree _ _ El). destruct k.
             ++ apply IH.
             ++ destruct r as [|v r'].
                ** intros H. discriminate H.
                ** rewrite <- !app_comm_cons.
                   destruct (is_dash v).
                   --- intros H. discriminate H.
                   --- apply (IH2 v r' eq_refl).
          -- intros _. left. exists ValueError, ValueError. split; reflexivity.
  Qed.
End Agree.

(* ---- the early table agrees with every main table on the main table's names ---- *)

Definition okind_eqb (k k' : okind) : bool :=
  match k, k' with OFlag, OFlag => true | OValue, OValue => true | _, _ => false end.

Lemma okind_eqb_eq : forall k k', okind_eqb k k' = true -> k = k'.
Proof. intros [|] [|] H; try reflexivity; discriminate H. Qed.

Lemma lookup_In : forall n tbl k, lookup n tbl = Some k -> In (n, k) tbl.
Proof.
  intros n tbl k. induction tbl as [|[m k'] tbl IH]; cbn [lookup]; intros H.
  - discriminate H.
  - destruct (bytes_eqb n m) eqn:E.
    + apply cli_bytes_eqb_eq in E. injection H as H. subst. left. reflexivity.
    + right. apply IH. exact H.
Qed.

Definition covered (tblE : optable) (p : bytes * okind) : bool :=
  match lookup (fst p) tblE with Some k' => okind_eqb (snd p) k' | None => false end.

Lemma covered_all :
  forall s a, forallb (covered early_table) (main_table s a) = true.
Proof. intros s a. destruct s, a; vm_compute; reflexivity. Qed.

Lemma table_agree :
  forall s a n k, lookup n (main_table s a) = Some k -> lookup n early_table = Some k.
Proof.
  intros s a n k H. apply lookup_In in H.
  pose proof (covered_all s a) as Hall.
  rewrite forallb_forall in Hall. specialize (Hall _ H).
  unfold covered in Hall. cbn [fst snd] in Hall.
  destruct (lookup n early_table) as [k'|].
  - apply okind_eqb_eq in Hall. subst. reflexivity.
  - discriminate Hall.
Qed.

Lemma early_sees_main_items :
  forall s a argv items extra,
    scan (main_table s a) false argv [] = Ok (items, extra) ->
    scan early_table true argv [] = Ok (items, extra) /\
    early_choice early_table argv = (pick_strategy items SMinimize, pick_atom items ALine).
Proof.
  intros s a argv items extra H.
  pose proof (strict_implies_lenient (main_table s a) early_table (table_agree s a)
                argv [] items extra H) as HE.
  split; [exact HE|].
  unfold early_choice. rewrite HE. reflexivity.
Qed.

(* ---- process_args: nothing behind the test name matters ---- *)

Lemma process_args_isolation :
  forall pre ie name rest rest',
    scan early_table true pre [] = Ok (ie, []) -> is_dash name = false ->
    match process_args early_table (pre ++ name :: rest), process_args early_table (pre ++ name :: rest') with
    | Ok p, Ok p' =>
        pa_config p = pa_config p' /\ pa_test p = name /\ pa_test p' = name /\
        pa_test_args p = rest /\ pa_test_args p' = rest' /\
        pa_file p = match cf_testcase (pa_config p) with Some f => f | None => last (name :: rest) name end
    | Err _, Err _ => True
    | _, _ => False
    end.
Proof.
  intros pre ie name rest rest' Hpre Hname.
  pose proof (scan_isolation_gen early_table true name rest Hname pre [] ie Hpre) as He.
  pose proof (scan_isolation_gen early_table true name rest' Hname pre [] ie Hpre) as He'.
  unfold process_args, early_choice. rewrite He, He'.
  cbv beta iota zeta.
  set (s := pick_strategy ie SMinimize). set (a := pick_atom ie ALine).
  destruct (scan_sync (main_table s a) early_table (table_agree s a)
              name rest rest' Hname pre [] ie [] Hpre)
    as [[e [e' [H1 H2]]] | [items [H1 H2]]]; rewrite H1, H2; cbn [bind].
  - exact I.
  - cbv beta iota zeta.
    destruct (Nat.ltb 1 (atom_flag_count items)); [exact I|].
    destruct (apply_items (config0 s a) items) as [c|ec]; cbn [bind]; [|exact I].
    destruct (match s with SCheckOnly => Ok c | _ => finish_minimize c end) as [c'|ec'];
      cbn [bind]; [|exact I].
    repeat split; reflexivity.
Qed.

(* ---- the early parser before the fix ---- *)

Lemma old_early_parser_counterexample :
  exists argv items extra,
    scan (main_table SCheckOnly ALine) false argv [] = Ok (items, extra) /\
    pick_strategy items SMinimize = SCheckOnly /\
    early_choice old_early_table argv = (SMinimize, ALine).
Proof.
  exists [b "--testcase"; b "t.txt"; b "--strategy"; b "check-only"; b "yes.py"].
  exists [IVal (b "--testcase") (b "t.txt"); IVal (b "--strategy") (b "check-only")].
  exists [b "yes.py"].
  split; [vm_compute; reflexivity|].
  split; vm_compute; reflexivity.
Qed.

(* ---- rel_or_abs_import ---- *)

Lemma remove_first_head : forall d l, remove_first d (d :: l) = l.
Proof. intros d l. cbn [remove_first]. rewrite cli_bytes_eqb_refl. reflexivity. Qed.

Lemma import_resolution :
  forall origin (loaded : bytes -> option origin) in_dir builtin syspath cwd name,
    loaded name = None ->
    (forall d o, in_dir d name = Some o ->
       fst (rel_or_abs_import origin loaded in_dir builtin syspath cwd (Some d) name) = Some o) /\
    (forall o, in_dir cwd name = Some o ->
       fst (rel_or_abs_import origin loaded in_dir builtin syspath cwd None name) = Some o) /\
    (in_dir cwd name = None -> find_on_path origin in_dir syspath name = None ->
       fst (rel_or_abs_import origin loaded in_dir builtin syspath cwd None name) = builtin name) /\
    (forall d, in_dir d name = None -> find_on_path origin in_dir syspath name = None ->
       fst (rel_or_abs_import origin loaded in_dir builtin syspath cwd (Some d) name) = None).
Proof.
  intros origin loaded in_dir builtin syspath cwd name Hl.
  unfold rel_or_abs_import, import_module. rewrite Hl. cbn [find_on_path].
  split; [|split; [|split]].
  - intros d o H. rewrite H. reflexivity.
  - intros o H. rewrite H. reflexivity.
  - intros H1 H2. rewrite H1, H2. reflexivity.
  - intros d H1 H2. rewrite H1, H2. reflexivity.
Qed.

Lemma syspath_restored :
  forall origin (loaded : bytes -> option origin) in_dir builtin syspath cwd dir name,
    snd (rel_or_abs_import origin loaded in_dir builtin syspath cwd dir name) = syspath.
Proof.
  intros origin loaded in_dir builtin syspath cwd dir name.
  unfold rel_or_abs_import. rewrite remove_first_head.
  destruct (import_module origin loaded in_dir _ name); [reflexivity|].
  destruct dir; reflexivity.
Qed.

Lemma sys_modules_shadow :
  forall origin (loaded : bytes -> option origin) in_dir builtin syspath cwd dir name o,
    loaded name = Some o ->
    fst (rel_or_abs_import origin loaded in_dir builtin syspath cwd dir name) = Some o.
Proof.
  intros origin loaded in_dir builtin syspath cwd dir name o Hl.
  unfold rel_or_abs_import, import_module. rewrite Hl. reflexivity.
Qed.
