(* The CONCRETE pass of replace-properties-by-globals (Model/ReplaceProps.v) under the abstract outer loop
   of Model/Rewriters.v: the lemmas used by Props/C09r.v.  No axioms.

   1. the byte scanners
        props_of_count : 2 * zlen (props_of line) <= zlen line      (a match owns its dot and >= 1 word byte)
        sub_word_le    : zlen (sub_word word line) <= zlen line     (a rewritten run loses >= 1 byte)
   2. a pass: 2 * length (pass_items final c best) <= chars best  (one item per group, one group per index at
      most, one index per match), and every candidate has 0 <= maybe and chars t + maybe = chars best.
   3. the outer loop.  The interface fact `shrinking` of Rewriters.v (1 <= maybe for every candidate) is FALSE
      of the concrete pass: the work list is computed from the best at the start of the pass, the candidates
      from the CURRENT best, so after an accepted candidate a later item can find nothing to substitute
      (maybe = 0, same parts).  The bound of RewritersProofs.replace_properties_bounded is therefore proved
      again (section Outer) from the weaker facts
          0 <= maybe,  chars t + maybe <= chars best,  a continuation is strictly shorter (measure plen),
          plen (pass_start c best) <= K  whenever  chars best <= 2K+1
      with the same potential
          W = (log2 (max 1 chunk) + chars best + [r_removed <> 0]) * K + plen ps
      (an accepted candidate with maybe = 0 leaves [r_removed <> 0] and does not raise chars; with
      maybe >= 1 it sets [r_removed <> 0] but lowers chars by >= 1), and the run invariant
      chars best <= 2K+1 (the driver only replaces the best by an accepted candidate).
   4. the two theorems; both come from replace_properties_concrete_core, whose fuel demand
      (log2 (max 1 c0) + 1 + B) * (B/2) + 1 is below both fuel expressions.
      (The _square fuel (B+2)^2 + 4 is NOT above the _bounded fuel (B/2+2) * passes + 4 in general, so
      _square is derived from the core lemma, not from _bounded.)
   NOTE on Props/C09r.v line 18: `r_chunk _ (props_start _ cfg tc0)` leaves the type parameter PS of
   rstate undetermined (nothing else in the statement mentions c0's PS), so that file does not elaborate as
   written ("Cannot infer this placeholder").  c0 does not depend on PS (it reduces to
   Z.min (c_max cfg) (2 * largest_power_of_two_smaller_than (zlen (tc_parts tc0)))); here PS is instantiated
   with list (bytes * list Z), and `exact replace_properties_concrete_bounded` goes through by conversion
   for ANY instantiation of the two placeholders. *)
From Coq Require Import ZArith NArith List Bool Lia ZifyBool.
From Lithium Require Import PyBase TcRecord Util Testcase Driver TraceSpec Minimize StratSpec
  DriverProofs MinimizeBound MinimizeProofs RestoreProofs Rewriters RewritersProofs ReplaceProps.
Import ListNotations.
Open Scope Z_scope.

(* ------------------------------------------------------------------ *)
(* 1a. props_of                                                        *)
(* ------------------------------------------------------------------ *)

(* bytes already consumed by the match in progress *)
Definition cap_slack (cap : option bytes) : Z :=
  match cap with None => 0 | Some [] => 1 | Some (_ :: _) => 2 end.

Lemma find_props_count : forall s prevw cap,
  2 * zlen (find_props s prevw cap) <= zlen s + cap_slack cap.
Proof.
  induction s as [|c r IH]; intros prevw cap.
  - cbn [find_props]. destruct cap as [[|c w]|]; unfold zlen; cbn [length cap_slack]; lia.
  - cbn [find_props]. rewrite (zlen_cons _ c r). destruct cap as [w|].
    + destruct (is_w c) eqn:Ew.
      * pose proof (IH true (Some (c :: w))) as H. cbn [cap_slack] in H.
        destruct w as [|c' w']; cbn [cap_slack]; lia.
      * destruct w as [|c' w'].
        -- cbn [app]. rewrite andb_false_r. pose proof (IH false None) as H.
           cbn [cap_slack] in *. lia.
        -- rewrite zlen_app. unfold zlen at 1. cbn [length]. rewrite andb_true_r.
           pose proof (IH false (if is_dot c then Some [] else None)) as H.
           destruct (is_dot c); cbn [cap_slack] in *; unfold bytes in *; lia.
    + pose proof (IH (is_w c) (if is_dot c && prevw then Some [] else None)) as H.
      destruct (is_dot c && prevw); cbn [cap_slack] in *; lia.
Qed.

Lemma props_of_count : forall line, 2 * zlen (props_of line) <= zlen line.
Proof.
  intros line. unfold props_of. pose proof (find_props_count line false None) as H.
  cbn [cap_slack] in H. lia.
Qed.

(* ------------------------------------------------------------------ *)
(* 1b. sub_word                                                        *)
(* ------------------------------------------------------------------ *)

Lemma starts_with_len : forall p s, starts_with p s = true -> (length p <= length s)%nat.
Proof.
  induction p as [|a p IH]; intros s H.
  - cbn [length]. lia.
  - destruct s as [|b s]; cbn [starts_with] in H; [discriminate H|].
    apply andb_prop in H. destruct H as [_ H]. apply IH in H. cbn [length]. lia.
Qed.

Lemma last_occ_spec : forall p s off k, last_occ p s off = Some k ->
  (1 <= k)%nat /\ (k + length p <= off + length s)%nat.
Proof.
  intros p. induction s as [|a r IH]; intros off k H; cbn [last_occ] in H.
  - discriminate H.
  - destruct (last_occ p r (S off)) as [k'|] eqn:E.
    + inversion H; subst k'. apply IH in E. cbn [length]. lia.
    + destruct ((1 <=? off)%nat && starts_with p (a :: r)) eqn:E2; [|discriminate H].
      inversion H; subst k. apply andb_prop in E2. destruct E2 as [E3 E4].
      apply Nat.leb_le in E3. apply starts_with_len in E4. lia.
Qed.

Lemma sub_run_le : forall word run, (length (sub_run word run) <= length run)%nat.
Proof.
  intros word run. unfold sub_run.
  destruct (last_occ (46%N :: word) run 0) as [k|] eqn:E; [|lia].
  apply last_occ_spec in E. cbn [length] in E. rewrite app_length, skipn_length. lia.
Qed.

Lemma sub_scan_le : forall word s run,
  (length (sub_scan word s run) <= length s + length run)%nat.
Proof.
  intros word. induction s as [|c r IH]; intros run; cbn [sub_scan].
  - pose proof (sub_run_le word (rev run)) as H. rewrite rev_length in H. cbn [length]. lia.
  - destruct (is_wd c).
    + pose proof (IH (c :: run)) as H. cbn [length] in *. lia.
    + rewrite app_length. cbn [length].
      pose proof (IH []) as H. pose proof (sub_run_le word (rev run)) as H2.
      rewrite rev_length in H2. cbn [length] in *. lia.
Qed.

Lemma sub_word_le : forall word line, zlen (sub_word word line) <= zlen line.
Proof.
  intros word line. unfold sub_word, zlen. pose proof (sub_scan_le word line []) as H.
  cbn [length] in H. lia.
Qed.

(* ------------------------------------------------------------------ *)
(* 2a. the work list of a pass                                         *)
(* ------------------------------------------------------------------ *)

(* number of values stored in a dictionary of lists *)
Fixpoint total {KK V : Type} (d : list (KK * list V)) : nat :=
  match d with [] => 0 | e :: r => length (snd e) + total r end.

Lemma dict_add_total : forall V eqb k (v : V) d, total (dict_add eqb k v d) = S (total d).
Proof.
  intros V eqb k v. induction d as [|[k' vs] r IH]; cbn [dict_add].
  - reflexivity.
  - destruct (eqb k k'); cbn [total snd].
    + rewrite app_length. cbn [length]. lia.
    + rewrite IH. lia.
Qed.

Lemma fold_dict_add_total : forall (idx : Z) ws d,
  total (fold_left (fun d w => dict_add bytes_eqb w idx d) ws d) = (length ws + total d)%nat.
Proof.
  intros idx. induction ws as [|w ws IH]; intros d; cbn [fold_left length].
  - reflexivity.
  - rewrite IH, dict_add_total. lia.
Qed.

Fixpoint nprops (parts : list bytes) : nat :=
  match parts with [] => 0 | p :: ps => length (props_of p) + nprops ps end.

Lemma words_of_total : forall parts red idx d,
  (total (words_of parts red idx d) <= nprops parts + total d)%nat.
Proof.
  induction parts as [|p ps IH]; intros red idx d; cbn [words_of nprops].
  - lia.
  - destruct red as [|f fs]; [lia|].
    eapply Nat.le_trans; [apply IH|].
    destruct f; [rewrite fold_dict_add_total|]; lia.
Qed.

Lemma nprops_count : forall parts, (2 * nprops parts <= length (concat parts))%nat.
Proof.
  induction parts as [|p ps IH]; cbn [nprops concat].
  - cbn [length]. lia.
  - rewrite app_length. pose proof (props_of_count p) as H. unfold zlen in H. lia.
Qed.

Lemma zdict_add_length : forall k v d, (length (zdict_add k v d) <= S (length d))%nat.
Proof.
  intros k v. induction d as [|[k' vs] r IH]; cbn [zdict_add].
  - cbn [length]. lia.
  - destruct (k =? k'); cbn [length]; lia.
Qed.

Lemma groups_fold_length : forall c chunks d,
  (length (fold_left (fun d x => zdict_add (x / c) x d) chunks d) <= length chunks + length d)%nat.
Proof.
  intros c. induction chunks as [|x chunks IH]; intros d; cbn [fold_left length].
  - lia.
  - eapply Nat.le_trans; [apply IH|]. pose proof (zdict_add_length (x / c) x d) as H. lia.
Qed.

Lemma groups_length : forall c chunks, (length (groups c chunks) <= length chunks)%nat.
Proof.
  intros c chunks. unfold groups. pose proof (groups_fold_length c chunks []) as H.
  cbn [length] in H. lia.
Qed.

Lemma flat_map_le1 : forall (A B : Type) (f : A -> list B) l,
  (forall x, (length (f x) <= 1)%nat) -> (length (flat_map f l) <= length l)%nat.
Proof.
  intros A B f l Hf. induction l as [|x l IH]; cbn [flat_map length].
  - lia.
  - rewrite app_length. pose proof (Hf x) as H. lia.
Qed.

Lemma pass_items_total : forall final c best,
  (length (pass_items final c best) <= total (words_of (tc_parts best) (tc_red best) 0 []))%nat.
Proof.
  intros final c best. unfold pass_items.
  generalize (words_of (tc_parts best) (tc_red best) 0 []) as d.
  induction d as [|[w idxs] d IH]; cbn [flat_map total].
  - cbn [length]. lia.
  - rewrite app_length. cbn [fst snd].
    pose proof (groups_length c idxs) as Hg.
    match goal with |- (length (flat_map ?f ?l) + _ <= _)%nat =>
      assert (Hi : (length (flat_map f l) <= length l)%nat)
    end.
    { apply flat_map_le1. intros g.
      destruct ((zlen (snd g) =? 1) && negb (final =? c)); cbn [length]; lia. }
    lia.
Qed.

Lemma pass_items_bound : forall final c best,
  2 * zlen (pass_items final c best) <= chars best.
Proof.
  intros final c best. unfold chars, zlen.
  pose proof (pass_items_total final c best) as H1.
  pose proof (words_of_total (tc_parts best) (tc_red best) 0 []) as H2.
  pose proof (nprops_count (tc_parts best)) as H3.
  cbn [total] in H2. lia.
Qed.

(* ------------------------------------------------------------------ *)
(* 2b. a candidate                                                     *)
(* ------------------------------------------------------------------ *)

Lemma subst_at_spec : forall word i parts red ps fs d,
  subst_at word i parts red = (ps, fs, d) ->
  0 <= d /\ zlen (concat ps) + d = zlen (concat parts).
Proof.
  intros word. induction i as [|i IH]; intros parts red ps fs d H; cbn [subst_at] in H.
  - destruct parts as [|p ps0]; [inversion H; subst; lia|].
    destruct red as [|f fs0]; [inversion H; subst; lia|].
    inversion H; subst. cbn [concat]. rewrite !zlen_app.
    pose proof (sub_word_le word p) as Hs. lia.
  - destruct parts as [|p ps0]; [inversion H; subst; lia|].
    destruct red as [|f fs0]; [inversion H; subst; lia|].
    destruct (subst_at word i ps0 fs0) as [[ps' fs'] d'] eqn:E.
    inversion H; subst. apply IH in E. cbn [concat]. rewrite !zlen_app. lia.
Qed.

Definition cand_step (word : bytes) (acc : list bytes * list bool * Z) (c : Z)
  : list bytes * list bool * Z :=
  let '(ps, fs, d) := acc in
  let '(ps', fs', d') := subst_at word (Z.to_nat c) ps fs in (ps', fs', d + d').

Lemma cand_fold_spec : forall word starts ps fs d ps' fs' d',
  fold_left (cand_step word) starts (ps, fs, d) = (ps', fs', d') -> 0 <= d ->
  0 <= d' /\ zlen (concat ps') + d' = zlen (concat ps) + d.
Proof.
  intros word. induction starts as [|c starts IH]; intros ps fs d ps' fs' d' H Hd;
    cbn [fold_left] in H.
  - inversion H; subst. lia.
  - unfold cand_step at 2 in H.
    destruct (subst_at word (Z.to_nat c) ps fs) as [[ps1 fs1] d1] eqn:E.
    apply subst_at_spec in E. apply IH in H; lia.
Qed.

Lemma candidate_spec : forall word starts best d t,
  candidate word starts best = (d, t) -> 0 <= d /\ chars t + d = chars best.
Proof.
  intros word starts best d t H. unfold candidate in H.
  change (fun (acc : list bytes * list bool * Z) (c : Z) =>
            let '(ps, fs, d) := acc in
            let '(ps', fs', d') := subst_at word (Z.to_nat c) ps fs in (ps', fs', d + d'))
    with (cand_step word) in H.
  destruct (fold_left (cand_step word) starts (tc_parts best, tc_red best, 0))
    as [[ps fs] d0] eqn:E.
  inversion H; subst. apply cand_fold_spec in E; [|lia].
  unfold chars. cbn [tc_parts]. lia.
Qed.

Lemma props_pass_next_spec : forall items best maybe t k,
  props_pass_next items best = Some (maybe, t, k) ->
  (forall o, (S (length (k o)) <= length items)%nat) /\ 0 <= maybe /\ chars t + maybe <= chars best.
Proof.
  intros items best maybe t k H. unfold props_pass_next in H.
  destruct items as [|[word starts] rest]; [discriminate H|].
  destruct (candidate word starts best) as [d t'] eqn:E.
  inversion H; subst. apply candidate_spec in E.
  split; [intros o; cbn [length]; lia|]. lia.
Qed.

Lemma props_pass_start_len : forall cfg c best (K : nat),
  chars best <= 2 * Z.of_nat K + 1 -> (length (props_pass_start cfg c best) <= K)%nat.
Proof.
  intros cfg c best K H. unfold props_pass_start.
  pose proof (pass_items_bound (Z.max (c_min cfg) 1) c best) as Hb. unfold zlen in Hb. lia.
Qed.

(* ------------------------------------------------------------------ *)
(* 3. the outer loop under the weaker interface                        *)
(* ------------------------------------------------------------------ *)

Section Outer.
  Variable PS : Type.
  Variable pass_start : Z -> tcase -> PS.
  Variable pass_next : PS -> tcase -> option (Z * tcase * (outcome -> PS)).
  Variable cfg : mcfg.
  Variable K : nat.
  Variable plen : PS -> nat.
  Hypothesis Hstart : forall c best,
    chars best <= 2 * Z.of_nat K + 1 -> (plen (pass_start c best) <= K)%nat.
  Hypothesis Hnext : forall ps best maybe t k, pass_next ps best = Some (maybe, t, k) ->
    (forall o, (S (plen (k o)) <= plen ps)%nat) /\ 0 <= maybe /\ chars t + maybe <= chars best.

  (* invariant + "the potential of (s, best) is at most B" *)
  Definition Inv (s : rstate PS) (best : tcase) (B : Z) : Prop :=
    1 <= r_final PS s /\ 0 <= r_removed PS s /\ chars best <= 2 * Z.of_nat K + 1 /\
    match r_pass PS s with
    | None => (hlog (r_chunk PS s) + 1 + chars best) * Z.of_nat K <= B
    | Some ps =>
        (plen ps <= K)%nat /\
        (hlog (r_chunk PS s) + chars best + b2 (r_removed PS s)) * Z.of_nat K + Z.of_nat (plen ps) <= B
    end.

  Definition cneed (s : rstate PS) : Z :=
    match r_pass PS s with
    | None => 2 * hlog (r_chunk PS s) + 2
    | Some _ => 2 * hlog (r_chunk PS s) + 1 + 2 * b2 (r_removed PS s)
    end.

  Definition cpost (best : tcase) (B : Z) (r : step (rstate PS)) : Prop :=
    match r with
    | Done => True
    | Propose t k =>
        forall o, Inv (k o) (match o with Tested true => t | _ => best end) (B - 1)
    | _ => False
    end.

  Lemma Inv_nonneg : forall s best B, Inv s best B -> 0 <= B.
  Proof.
    intros s best B (Hf & Hr & Hcb & HW).
    pose proof (hlog_nonneg (r_chunk PS s)) as Hh.
    pose proof (chars_nonneg best) as Hc.
    pose proof (b2_range (r_removed PS s)) as Hb.
    destruct (r_pass PS s) as [ps|].
    - destruct HW as (_ & HB).
      assert (H : 0 <= (hlog (r_chunk PS s) + chars best + b2 (r_removed PS s)) * Z.of_nat K)
        by (apply Z.mul_nonneg_nonneg; lia).
      lia.
    - assert (H : 0 <= (hlog (r_chunk PS s) + 1 + chars best) * Z.of_nat K)
        by (apply Z.mul_nonneg_nonneg; lia).
      lia.
  Qed.

  Lemma cneed_pos : forall s, 1 <= cneed s.
  Proof.
    intros s. unfold cneed.
    pose proof (hlog_nonneg (r_chunk PS s)) as Hh.
    pose proof (b2_range (r_removed PS s)) as Hb.
    destruct (r_pass PS s); lia.
  Qed.

  Lemma cdrive_ok : forall fuel s best B,
    Inv s best B -> cneed s <= Z.of_nat fuel ->
    cpost best B (props_drive PS pass_start pass_next fuel cfg s best).
  Proof.
    induction fuel as [|f IH]; intros s best B HW Hn.
    - pose proof (cneed_pos s) as Hp. lia.
    - destruct s as [c fin rem p].
      destruct HW as (Hf & Hr & Hcb & HW). unfold cneed in Hn.
      cbn [r_chunk r_final r_removed r_pass] in Hf, Hr, HW, Hn.
      pose proof (hlog_nonneg c) as Hh.
      pose proof (chars_nonneg best) as Hcb0.
      pose proof (b2_range rem) as Hb.
      cbn [props_drive r_pass r_chunk r_final r_removed].
      destruct p as [ps|].
      + destruct HW as (HjK & HB).
        destruct (pass_next ps best) as [[[maybe t] k]|] eqn:Hpn.
        * (* a candidate *)
          cbn [cpost]. intros o.
          destruct (Hnext ps best maybe t k Hpn) as (Hlen & Hm & Hc).
          pose proof (chars_nonneg t) as Hct.
          pose proof (Hlen o) as Hko.
          unfold Inv. cbn [r_chunk r_final r_removed r_pass].
          split; [exact Hf|]. split; [destruct o as [|[|]]; lia|].
          split; [destruct o as [|[|]]; lia|].
          split; [lia|].
          destruct o as [|[|]].
          -- lia.
          -- destruct (Z.eq_dec maybe 0) as [Em|Em].
             ++ subst maybe. replace (rem + 0) with rem by lia.
                assert (HH : (hlog c + chars t + b2 rem) * Z.of_nat K
                             <= (hlog c + chars best + b2 rem) * Z.of_nat K)
                  by (apply Z.mul_le_mono_nonneg_r; lia).
                lia.
             ++ rewrite (b2_pos (rem + maybe)) by lia.
                assert (HH : (hlog c + chars t + 1) * Z.of_nat K
                             <= (hlog c + chars best + b2 rem) * Z.of_nat K)
                  by (apply Z.mul_le_mono_nonneg_r; lia).
                lia.
          -- lia.
        * (* the pass is exhausted *)
          cbv zeta.
          destruct (truthy_Z rem && rep_ok cfg (c <=? fin)) eqn:Erep.
          -- apply andb_prop in Erep. destruct Erep as [Etr _].
             assert (Hb1 : b2 rem = 1) by (unfold b2; rewrite Etr; reflexivity).
             apply IH.
             ++ unfold Inv. cbn [r_chunk r_final r_removed r_pass].
                split; [exact Hf|]. split; [lia|]. split; [exact Hcb|].
                rewrite Hb1 in HB.
                replace (hlog c + 1 + chars best) with (hlog c + chars best + 1) by lia. lia.
             ++ unfold cneed. cbn [r_chunk r_removed r_pass]. lia.
          -- destruct (c <=? fin) eqn:Elast.
             ++ exact I.
             ++ apply Z.leb_gt in Elast.
                assert (Hc2 : 2 <= c) by lia.
                pose proof (hlog_half c Hc2) as Hhalf.
                apply IH.
                ** unfold Inv. cbn [r_chunk r_final r_removed r_pass].
                   split; [exact Hf|]. split; [lia|]. split; [exact Hcb|].
                   rewrite Hhalf.
                   assert (HH : (hlog c - 1 + 1 + chars best) * Z.of_nat K
                                <= (hlog c + chars best + b2 rem) * Z.of_nat K)
                     by (apply Z.mul_le_mono_nonneg_r; lia).
                   lia.
                ** unfold cneed. cbn [r_chunk r_removed r_pass]. rewrite Hhalf. lia.
      + (* start a pass *)
        apply IH.
        * unfold Inv. cbn [r_chunk r_final r_removed r_pass].
          split; [exact Hf|]. split; [lia|]. split; [exact Hcb|].
          pose proof (Hstart c best Hcb) as Hs.
          split; [exact Hs|].
          rewrite b2_zero. lia.
        * unfold cneed. cbn [r_chunk r_removed r_pass]. rewrite b2_zero. lia.
  Qed.

  Lemma cneed_le_fuel : forall s, cneed s <= Z.of_nat (props_fuel PS s).
  Proof.
    intros s. unfold cneed, props_fuel.
    change (Z.log2 (Z.max 1 (r_chunk PS s))) with (hlog (r_chunk PS s)).
    pose proof (hlog_nonneg (r_chunk PS s)) as Hh.
    pose proof (b2_range (r_removed PS s)) as Hb.
    destruct (r_pass PS s); lia.
  Qed.

  Lemma cnext_ok : forall s best B,
    Inv s best B ->
    cpost best B (s_next (replace_properties PS pass_start pass_next cfg) s best).
  Proof.
    intros s best B HW. cbn [s_next replace_properties].
    apply cdrive_ok; [exact HW | apply cneed_le_fuel].
  Qed.

  Lemma cloop_bounded : forall verdict fuel st it w B,
    Inv st (it_best it) B -> B + 1 <= Z.of_nat fuel ->
    loop_res_ok (n_tests (chron w) + B)
                (loop (replace_properties PS pass_start pass_next cfg) verdict fuel st it w).
  Proof.
    intros verdict.
    induction fuel as [|fuel IH]; intros st it w B HW Hfuel.
    - pose proof (Inv_nonneg _ _ _ HW) as HB. lia.
    - pose proof (Inv_nonneg _ _ _ HW) as HB.
      pose proof (cnext_ok st (it_best it) B HW) as Hstep.
      cbn [loop].
      destruct (s_next (replace_properties PS pass_start pass_next cfg) st (it_best it))
        as [t k|b st'| |e]; cbn [cpost] in Hstep; try contradiction.
      + (* Propose *)
        destruct (mem_bytes (content t) (it_tried it)) eqn:Hmem.
        * pose proof (Hstep Skipped) as HW'. cbv iota in HW'.
          specialize (IH (k Skipped) it w (B - 1) HW' ltac:(lia)).
          unfold loop_res_ok in *.
          match goal with |- match ?l with _ => _ end =>
            destruct l as [rc wf|[e|] wf|wf]; lia end.
        * destruct (interesting verdict w t true) as [w' a] eqn:Hint.
          destruct (interesting_true_inv verdict w t w' a Hint) as [_ Hw']. subst w'.
          pose proof (n_tests_wafter w t a) as Hnt.
          destruct a.
          -- pose proof (Hstep (Tested true)) as HW'. cbv iota in HW'.
             specialize (IH (k (Tested true))
                            {| it_best := t;
                               it_tried := it_tried {| it_best := it_best it;
                                                       it_tried := content t :: it_tried it;
                                                       it_any := it_any it |};
                               it_any := true |} (wafter w t Yes) (B - 1)).
             cbn [it_best] in IH. specialize (IH HW' ltac:(lia)).
             unfold loop_res_ok in *.
             match goal with |- match ?l with _ => _ end =>
               destruct l as [rc wf|[e|] wf|wf]; lia end.
          -- pose proof (Hstep (Tested false)) as HW'. cbv iota in HW'.
             specialize (IH (k (Tested false))
                            {| it_best := it_best it; it_tried := content t :: it_tried it;
                               it_any := it_any it |} (wafter w t No) (B - 1)).
             cbn [it_best] in IH. specialize (IH HW' ltac:(lia)).
             unfold loop_res_ok in *.
             match goal with |- match ?l with _ => _ end =>
               destruct l as [rc wf|[e|] wf|wf]; lia end.
          -- pose proof (Inv_nonneg _ _ _ (Hstep (Tested false))) as HB'.
             cbn [loop_res_ok]. lia.
      + (* Done *)
        cbn [loop_res_ok]. rewrite n_tests_write_file. lia.
  Qed.

  Lemma cstart_Inv : forall tc0,
    chars tc0 <= 2 * Z.of_nat K + 1 ->
    Inv (props_start PS cfg tc0) tc0
        ((hlog (r_chunk PS (props_start PS cfg tc0)) + 1 + chars tc0) * Z.of_nat K).
  Proof.
    intros tc0 H. unfold Inv. cbn [props_start r_chunk r_final r_removed r_pass].
    split; [lia|]. split; [lia|]. split; [exact H|]. apply Z.le_refl.
  Qed.

  (* the run, with the exact fuel demand P + 1 *)
  Lemma outer_run_bounded : forall verdict tc0 file0 fuel,
    chars tc0 <= 2 * Z.of_nat K + 1 ->
    let P := (hlog (r_chunk PS (props_start PS cfg tc0)) + 1 + chars tc0) * Z.of_nat K in
    P + 1 <= Z.of_nat fuel ->
    let r := Driver.run (replace_properties PS pass_start pass_next cfg) verdict fuel tc0 file0 in
    (forall w, r <> NoFuel w) /\ (forall e w, r <> Aborted (Some e) w) /\
    n_tests (chron (result_world r)) <= 1 + P.
  Proof.
    intros verdict tc0 file0 fuel Hch P Hfz r.
    pose proof (hlog_nonneg (r_chunk PS (props_start PS cfg tc0))) as Hh.
    pose proof (chars_nonneg tc0) as Hc.
    assert (HP0 : 0 <= P) by (apply Z.mul_nonneg_nonneg; lia).
    destruct (run_cases (rstate PS) (replace_properties PS pass_start pass_next cfg)
                        verdict fuel tc0 file0)
      as [[Hn Hr]|[(Hn & Hv1 & Hr)|[(Hn & Hv1 & Hr)|(Hn & Hv1 & Hr)]]]; fold r in Hr.
    - rewrite Hr. split; [intros w; discriminate|]. split; [intros e w; discriminate|].
      cbn [result_world]. rewrite n_tests_finally.
      change (n_tests (chron (w0 tc0 file0))) with 0. lia.
    - rewrite Hr. split; [intros w; discriminate|]. split; [intros e w; discriminate|].
      cbn [result_world]. rewrite n_tests_finally.
      change (n_tests (chron (w1 tc0 file0 Raise))) with 1. lia.
    - rewrite Hr. split; [intros w; discriminate|]. split; [intros e w; discriminate|].
      cbn [result_world]. rewrite n_tests_finally.
      change (n_tests (chron (wN tc0 file0))) with 1. lia.
    - pose proof (cstart_Inv tc0 Hch) as HW. fold P in HW.
      pose proof (cloop_bounded verdict fuel (props_start PS cfg tc0) (it0 tc0) (wY tc0 file0) P
                    HW Hfz) as Hl.
      change (n_tests (chron (wY tc0 file0))) with 1 in Hl.
      cbn [s_start replace_properties] in Hr. rewrite Hr.
      destruct (loop (replace_properties PS pass_start pass_next cfg) verdict fuel
                     (props_start PS cfg tc0) (it0 tc0) (wY tc0 file0)) as [rc wf|[e|] wf|wf];
        cbn [loop_res_ok] in Hl; try contradiction; cbn [map_world result_world].
      + split; [intros w; discriminate|]. split; [intros e w; discriminate|].
        rewrite n_tests_finally. lia.
      + split; [intros w; discriminate|]. split; [intros e w; discriminate|].
        rewrite n_tests_finally. lia.
  Qed.
End Outer.

(* ------------------------------------------------------------------ *)
(* 4. the concrete strategy                                            *)
(* ------------------------------------------------------------------ *)

Definition cPS : Type := list (bytes * list Z).

Lemma replace_properties_concrete_core :
  forall cfg verdict tc0 file0 fuel,
    let B := chars tc0 in
    let c0 := r_chunk cPS (props_start cPS cfg tc0) in
    let P := (hlog c0 + 1 + B) * (B / 2) in
    P + 1 <= Z.of_nat fuel ->
    let r := Driver.run (replace_properties_concrete cfg) verdict fuel tc0 file0 in
    (forall w, r <> NoFuel w) /\ (forall e w, r <> Aborted (Some e) w) /\
    n_tests (chron (result_world r)) <= 1 + P.
Proof.
  intros cfg verdict tc0 file0 fuel B c0 P Hfuel r.
  pose proof (chars_nonneg tc0) as HB0. fold B in HB0.
  assert (Hh0 : 0 <= B / 2) by (apply Z.div_pos; lia).
  assert (HK : Z.of_nat (Z.to_nat (B / 2)) = B / 2) by (apply Z2Nat.id; exact Hh0).
  assert (Hdm : B <= 2 * (B / 2) + 1).
  { pose proof (Z.div_mod B 2 ltac:(lia)) as Hd.
    pose proof (Z.mod_pos_bound B 2 ltac:(lia)) as Hm. lia. }
  pose proof (outer_run_bounded cPS (props_pass_start cfg) props_pass_next cfg
                (Z.to_nat (B / 2)) (@length (bytes * list Z))
                (fun c best H => props_pass_start_len cfg c best (Z.to_nat (B / 2)) H)
                props_pass_next_spec verdict tc0 file0 fuel) as H.
  rewrite HK in H. fold B in H. fold c0 in H. fold P in H.
  exact (H Hdm Hfuel).
Qed.

Theorem replace_properties_concrete_bounded :
  forall cfg verdict tc0 file0 fuel,
    wf tc0 -> 1 <= c_max cfg ->
    let B := chars tc0 in
    let c0 := r_chunk (list (bytes * list Z)) (props_start (list (bytes * list Z)) cfg tc0) in
    let passes := Z.log2 (Z.max 1 c0) + 2 + B in
    (Z.to_nat ((B / 2 + 2) * passes + 4) <= fuel)%nat ->
    let r := Driver.run (replace_properties_concrete cfg) verdict fuel tc0 file0 in
    (forall w, r <> NoFuel w) /\ (forall e w, r <> Aborted (Some e) w) /\
    n_tests (chron (result_world r)) <= 1 + (B / 2) * passes.
Proof.
  intros cfg verdict tc0 file0 fuel _ _ B c0 passes Hfuel r.
  change (Z.log2 (Z.max 1 c0)) with (hlog c0) in passes.
  pose proof (hlog_nonneg c0) as Hh.
  pose proof (chars_nonneg tc0) as HB0. fold B in HB0.
  assert (Hh0 : 0 <= B / 2) by (apply Z.div_pos; lia).
  set (P := (hlog c0 + 1 + B) * (B / 2)).
  assert (HP : P <= (B / 2) * passes).
  { unfold P, passes. rewrite (Z.mul_comm (B / 2)). apply Z.mul_le_mono_nonneg_r; lia. }
  assert (Hpp : 0 <= passes) by (unfold passes; lia).
  assert (Hfz : P + 1 <= Z.of_nat fuel).
  { assert (H : (B / 2) * passes <= (B / 2 + 2) * passes)
      by (apply Z.mul_le_mono_nonneg_r; lia).
    lia. }
  pose proof (replace_properties_concrete_core cfg verdict tc0 file0 fuel Hfz) as H.
  fold r in H. destruct H as (H1 & H2 & H3).
  split; [exact H1|]. split; [exact H2|].
  assert (H3' : n_tests (chron (result_world r)) <= 1 + P) by exact H3. lia.
Qed.

Lemma hlog_c0_le : forall cfg tc0,
  zlen (tc_parts tc0) <= chars tc0 ->
  hlog (r_chunk cPS (props_start cPS cfg tc0)) <= 1 + chars tc0.
Proof.
  intros cfg tc0 Hn. cbn [props_start r_chunk].
  set (n := zlen (tc_parts tc0)) in *. set (B := chars tc0) in *.
  pose proof (zlen_nonneg _ (tc_parts tc0)) as Hn0. fold n in Hn0.
  pose proof (chars_nonneg tc0) as HB0. fold B in HB0.
  clearbody n B.
  assert (Hl : largest_power_of_two_smaller_than n <= Z.max 1 B).
  { destruct (Z.eq_dec n 0) as [E|E].
    - rewrite E. change (largest_power_of_two_smaller_than 0) with 1. lia.
    - pose proof (lpo2st_le n ltac:(lia)) as H. lia. }
  unfold hlog.
  assert (Hm : Z.max 1 (Z.min (c_max cfg) (2 * largest_power_of_two_smaller_than n))
               <= 2 * Z.max 1 B) by lia.
  eapply Z.le_trans; [apply Z.log2_le_mono; exact Hm|].
  rewrite Z.log2_double by lia.
  destruct (Z.eq_dec B 0) as [E0|E0].
  - rewrite E0. change (Z.log2 (Z.max 1 0)) with 0. lia.
  - rewrite Z.max_r by lia.
    pose proof (Z.log2_le_lin B ltac:(lia)) as Hlin. lia.
Qed.

Theorem replace_properties_concrete_square :
  forall cfg verdict tc0 file0 fuel,
    wf tc0 -> 1 <= c_max cfg ->
    zlen (tc_parts tc0) <= chars tc0 ->
    let B := chars tc0 in
    (Z.to_nat ((B + 2) * (B + 2) + 4) <= fuel)%nat ->
    let r := Driver.run (replace_properties_concrete cfg) verdict fuel tc0 file0 in
    (forall w, r <> NoFuel w) /\ (forall e w, r <> Aborted (Some e) w) /\
    n_tests (chron (result_world r)) <= (B + 2) * (B + 2).
Proof.
  intros cfg verdict tc0 file0 fuel _ _ Hparts B Hfuel r.
  pose proof (hlog_c0_le cfg tc0 Hparts) as Hc0. fold B in Hc0.
  set (c0 := r_chunk cPS (props_start cPS cfg tc0)) in *.
  pose proof (hlog_nonneg c0) as Hh.
  pose proof (chars_nonneg tc0) as HB0. fold B in HB0.
  assert (Hh0 : 0 <= B / 2) by (apply Z.div_pos; lia).
  assert (Hh1 : 2 * (B / 2) <= B) by (apply Z.mul_div_le; lia).
  set (h := B / 2) in *.
  set (P := (hlog c0 + 1 + B) * h).
  assert (HP : P <= (2 * B + 2) * h).
  { unfold P. apply Z.mul_le_mono_nonneg_r; lia. }
  assert (HP2 : 1 + (2 * B + 2) * h <= (B + 2) * (B + 2)) by nia.
  assert (Hfz : P + 1 <= Z.of_nat fuel) by lia.
  pose proof (replace_properties_concrete_core cfg verdict tc0 file0 fuel Hfz) as H.
  fold r in H. destruct H as (H1 & H2 & H3).
  split; [exact H1|]. split; [exact H2|].
  assert (H3' : n_tests (chron (result_world r)) <= 1 + P) by exact H3. lia.
Qed.

Print Assumptions replace_properties_concrete_bounded.
Print Assumptions replace_properties_concrete_square.
Print Assumptions props_of_count.
Print Assumptions sub_word_le.
