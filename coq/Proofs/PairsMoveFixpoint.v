(* minimize-balanced WITH the experimental move (Model/PairsMove.v) stops only at the fixpoint of the
   balanced moves, for a deterministic interestingness test, smallest chunk size 1, repeat mode last or
   always, and a clock that never passes the deadline.  Used by Props/C13m.v.  No axioms.

   Structure (that of Proofs/PairsFixpoint.v, which is re-used for everything about summaries, tables and
   partners):
     - driver side: the invariant JM - the best is well-formed, all-reducible, keeps before / after, its atoms
       are atoms of the original, it is accepted by f, and every accepted content in the de-duplication list
       is at least as long as the best.  Candidates are deletions (sub_reducible) or `moved` candidates; the
       latter are PERMUTATIONS of the parts because 0 <= lhs_start <= mid_start < rhs_start holds whenever
       the inner loop proposes, so the content length never grows and a strictly shorter proposal that is
       SKIPPED as a duplicate was rejected earlier;
     - strategy side: the invariant MVI over the states of `mdrive`.  During a pass at chunk size 1 that has
       not accepted anything yet (p_any = false; an accepted move sets p_any like an accepted deletion) the
       base state satisfies B1 of PairsFixpoint (summary all true, tables of the best, every earlier atom
       covered) and, inside the inner loop, additionally: the pair at lhs was rejected, orig = lhs,
       stay = false, mid_idx = mid_start, lhs < mid_start, rhs_start < len - so no `summary.index` fails and
       leaving the inner loop advances to lhs + 1 exactly like `bal_next`.
     - the time limit: p_deadline is None or Some (clk 0 + l) with c_limit cfg = Some l throughout, so under
       `never_expires` no clock reading expires; a reading only changes p_reads (`bump`). *)
From Coq Require Import ZArith NArith List Bool Lia ZifyBool Permutation.
From Lithium Require Import PyBase TcRecord Util Testcase Spec Driver TraceSpec Minimize StratSpec
  Pairs PairSpec TestcaseProofs DriverProofs MinimizeMinimal PairsFixpoint PairsMoveFrame PairsMove.
Import ListNotations.
Open Scope Z_scope.

(* ------------------------------------------------------------------ *)
(* 1. slices, moved candidates                                         *)
(* ------------------------------------------------------------------ *)

Lemma mvf_In_firstn : forall (A : Type) (n : nat) (l : list A) x, In x (firstn n l) -> In x l.
Proof.
  intros A n. induction n as [|n IH]; intros l x H; [destruct H|].
  destruct l as [|y l]; [destruct H|]. cbn [firstn In] in H. destruct H as [H|H].
  - left. exact H.
  - right. apply IH. exact H.
Qed.

Lemma mvf_In_skipn : forall (A : Type) (n : nat) (l : list A) x, In x (skipn n l) -> In x l.
Proof.
  intros A n. induction n as [|n IH]; intros l x H; [exact H|].
  destruct l as [|y l]; [destruct H|]. cbn [skipn] in H. right. apply IH. exact H.
Qed.

Lemma mvf_In_py_slice : forall (A : Type) (l : list A) a b x, In x (py_slice l a b) -> In x l.
Proof.
  intros A l a b x H. unfold py_slice in H. cbv zeta in H.
  apply mvf_In_firstn in H. apply mvf_In_skipn in H. exact H.
Qed.

Lemma mvf_In_parts_after : forall (A : Type) (l : list A) c ib start stop x,
  In x (parts_after (split5 l c ib start stop)) -> In x l.
Proof.
  intros A l c ib start stop x H. unfold split5, parts_after in H.
  repeat (apply in_app_or in H; destruct H as [H|H]); eapply mvf_In_py_slice; exact H.
Qed.

Lemma mvf_In_parts_before : forall (A : Type) (l : list A) c ib start stop x,
  In x (parts_before (split5 l c ib start stop)) -> In x l.
Proof.
  intros A l c ib start stop x H. unfold split5, parts_before in H.
  repeat (apply in_app_or in H; destruct H as [H|H]); eapply mvf_In_py_slice; exact H.
Qed.

Lemma mvf_perm_concat_length : forall (l l' : list bytes), Permutation l l' ->
  length (concat l) = length (concat l').
Proof.
  intros l l' H. induction H as [|x l l' H IH|x y l|l l' l'' H1 IH1 H2 IH2];
    cbn [concat]; rewrite ?app_length; lia.
Qed.

Lemma mvf_subred_In : forall l l' (x : bytes * bool), subred l l' -> In x l' -> In x l.
Proof.
  intros l l' x H. induction H as [|y l l' H IH|p l l' H IH]; intros Hin.
  - exact Hin.
  - destruct Hin as [Hin|Hin]; [left; exact Hin | right; apply IH; exact Hin].
  - right. apply IH. exact Hin.
Qed.

(* what the driver side needs to know about a candidate *)
Record cand (best t : tcase) : Prop := {
  cd_wf : wf t;
  cd_all : all_reducible t;
  cd_bef : tc_before t = tc_before best;
  cd_aft : tc_after t = tc_after best;
  cd_in : forall p, In p (tc_parts t) -> In p (tc_parts best);
  cd_len : (length (content t) <= length (content best))%nat
}.

Lemma sub_cand : forall best t, wf best -> all_reducible best -> sub_reducible best t -> cand best t.
Proof.
  intros best t Hwf Hall Hsub. pose proof Hsub as (Hb & Ha & Hwt & Hs). constructor.
  - exact Hwt.
  - exact (all_red_sub best t Hwf Hall Hsub).
  - exact Hb.
  - exact Ha.
  - intros p Hp. rewrite <- (zipped_parts t Hwt) in Hp. apply in_map_iff in Hp.
    destruct Hp as (x & Hx & Hin). rewrite <- (zipped_parts best Hwf). apply in_map_iff.
    exists x. split; [exact Hx|]. exact (mvf_subred_In _ _ x Hs Hin).
  - exact (sub_reducible_content_le best t Hwf Hsub).
Qed.

Lemma moved_after_cand : forall best c ib start stop, wf best -> all_reducible best ->
  0 <= ib -> ib <= start -> start <= stop -> 0 <= c ->
  cand best (moved best (parts_after (split5 (tc_parts best) c ib start stop))
                        (parts_after (split5 (tc_red best) c ib start stop))).
Proof.
  intros best c ib start stop Hwf Hall Hib Hst Hsp Hc. constructor.
  - apply moved_after_wf. exact Hwf.
  - unfold all_reducible, moved. cbn [tc_red]. apply Forall_forall. intros x Hx.
    apply mvf_In_parts_after in Hx. unfold all_reducible in Hall. rewrite Forall_forall in Hall.
    exact (Hall x Hx).
  - reflexivity.
  - reflexivity.
  - intros p Hp. unfold moved in Hp. cbn [tc_parts] in Hp. exact (mvf_In_parts_after _ _ _ _ _ _ _ Hp).
  - unfold content, moved. cbn [tc_before tc_parts tc_after]. rewrite !app_length.
    rewrite (mvf_perm_concat_length _ _ (parts_after_perm bytes (tc_parts best) c ib start stop Hib Hst Hsp Hc)).
    lia.
Qed.

Lemma moved_before_cand : forall best c ib start stop, wf best -> all_reducible best ->
  0 <= ib -> ib <= start -> start <= stop -> 0 <= c ->
  cand best (moved best (parts_before (split5 (tc_parts best) c ib start stop))
                        (parts_before (split5 (tc_red best) c ib start stop))).
Proof.
  intros best c ib start stop Hwf Hall Hib Hst Hsp Hc. constructor.
  - apply moved_before_wf. exact Hwf.
  - unfold all_reducible, moved. cbn [tc_red]. apply Forall_forall. intros x Hx.
    apply mvf_In_parts_before in Hx. unfold all_reducible in Hall. rewrite Forall_forall in Hall.
    exact (Hall x Hx).
  - reflexivity.
  - reflexivity.
  - intros p Hp. unfold moved in Hp. cbn [tc_parts] in Hp. exact (mvf_In_parts_before _ _ _ _ _ _ _ Hp).
  - unfold content, moved. cbn [tc_before tc_parts tc_after]. rewrite !app_length.
    rewrite (mvf_perm_concat_length _ _ (parts_before_perm bytes (tc_parts best) c ib start stop Hib Hst Hsp Hc)).
    lia.
Qed.

(* a clock reading changes p_reads only *)
Definition bump (s : pstate) : pstate :=
  {| p_chunk_size := p_chunk_size s; p_final := p_final s; p_deadline := p_deadline s;
     p_reads := S (p_reads s); p_any := p_any s; p_phase := p_phase s;
     p_summary := p_summary s; p_chunk_start := p_chunk_start s; p_i1 := p_i1 s;
     p_i2 := p_i2 s; p_i3 := p_i3 s; p_tables := p_tables s |}.

Ltac mcbn := cbn [bump set_tables move_tables_after move_tables_before upd set_pp
                  p_chunk_size p_final p_deadline p_reads p_any p_phase p_summary
                  p_chunk_start p_i1 p_i2 p_i3 p_tables
                  m_base m_phase m_lhs_start m_lhs_end m_rhs_start m_rhs_end m_rhs_idx
                  m_mid_start m_mid_idx m_orig_idx m_stay].
Ltac mcbn_in H := cbn [bump set_tables move_tables_after move_tables_before upd set_pp
                       p_chunk_size p_final p_deadline p_reads p_any p_phase p_summary
                       p_chunk_start p_i1 p_i2 p_i3 p_tables
                       m_base m_phase m_lhs_start m_lhs_end m_rhs_start m_rhs_end m_rhs_idx
                       m_mid_start m_mid_idx m_orig_idx m_stay] in H.

Section Move.
Variable f : bytes -> bool.
Variable cfg : mcfg.
Variable clk : clock_t.
Hypothesis Hnever : forall l, c_limit cfg = Some l -> forall i : nat, clk i <= clk O + l.
Hypothesis Hrep : c_repeat cfg <> Never.

(* ------------------------------------------------------------------ *)
(* 2. the deadline                                                     *)
(* ------------------------------------------------------------------ *)

Record PD (s : pstate) : Prop := {
  pd_dead : p_deadline s = None \/ exists l, c_limit cfg = Some l /\ p_deadline s = Some (clk O + l);
  pd_cs : 1 <= p_chunk_size s;
  pd_final : p_final s = 1
}.

Lemma PD_upd : forall s any ph sm cs i1 i2 i3, PD s -> PD (upd s any ph sm cs i1 i2 i3).
Proof. intros s any ph sm cs i1 i2 i3 [H1 H2 H3]. constructor; mcbn; assumption. Qed.

Lemma PD_set_pp : forall s ph, PD s -> PD (set_pp ph s).
Proof. intros s ph [H1 H2 H3]. constructor; mcbn; assumption. Qed.

Lemma PD_bump : forall s, PD s -> PD (bump s).
Proof. intros s [H1 H2 H3]. constructor; mcbn; assumption. Qed.

Lemma PD_set_tables : forall s sm tb i1, PD s -> PD (set_tables s sm tb i1).
Proof. intros s sm tb i1 [H1 H2 H3]. constructor; mcbn; assumption. Qed.

Lemma read_clock_PD : forall s, PD s ->
  read_clock clk s = (false, s) \/ read_clock clk s = (false, bump s).
Proof.
  intros s [Hd _ _]. unfold read_clock. destruct (p_deadline s) as [d|] eqn:Ed.
  - right. destruct Hd as [Hd|(l & Hl & Hd)]; [discriminate Hd|]. injection Hd as Hd. subst d.
    pose proof (Hnever l Hl (p_reads s)) as Hle.
    replace (clk (p_reads s) >? clk O + l) with false by lia.
    unfold bump. rewrite Ed. reflexivity.
  - left. reflexivity.
Qed.

(* after_pass once the clock has been read *)
Definition after_rest (s : pstate) : option pstate :=
  let last := p_chunk_size s <=? p_final s in
  let rep_ok := match c_repeat cfg with Always => true | Last => last | Never => false end in
  if p_any s && rep_ok then Some (set_pp PTop s)
  else if last then None
  else Some {| p_chunk_size := py_shr (p_chunk_size s) 1; p_final := p_final s;
               p_deadline := p_deadline s; p_reads := p_reads s; p_any := p_any s;
               p_phase := PTop; p_summary := p_summary s; p_chunk_start := p_chunk_start s;
               p_i1 := p_i1 s; p_i2 := p_i2 s; p_i3 := p_i3 s; p_tables := p_tables s |}.

Lemma after_pass_rest : forall s, PD s ->
  after_pass cfg clk s = after_rest s \/ after_pass cfg clk s = after_rest (bump s).
Proof.
  intros s HB. unfold after_pass.
  destruct (read_clock_PD s HB) as [H|H]; rewrite H; [left | right]; reflexivity.
Qed.

Lemma after_rest_none : forall s, PD s -> after_rest s = None -> p_chunk_size s = 1 /\ p_any s = false.
Proof.
  intros s [Hd Hc Hf] H. unfold after_rest in H. cbv zeta in H.
  destruct (p_chunk_size s <=? p_final s) eqn:El.
  - split; [lia|]. destruct (p_any s) eqn:Ea; [|reflexivity].
    destruct (c_repeat cfg) eqn:Er; cbn [andb] in H; try discriminate H.
    exfalso. congruence.
  - destruct (p_any s && match c_repeat cfg with Always => true | Last => false | Never => false end);
      discriminate H.
Qed.

Lemma after_rest_some : forall s s', PD s -> after_rest s = Some s' -> PD s' /\ p_phase s' = PTop.
Proof.
  intros s s' [Hd Hc Hf] H. unfold after_rest in H. cbv zeta in H.
  destruct (p_any s && match c_repeat cfg with
                       | Always => true | Last => p_chunk_size s <=? p_final s | Never => false end).
  - injection H as H. subst s'. split; [apply PD_set_pp; constructor; assumption | reflexivity].
  - destruct (p_chunk_size s <=? p_final s) eqn:El; [discriminate H|].
    injection H as H. subst s'. split; [|reflexivity].
    constructor; mcbn; try assumption.
    rewrite mm_shr1. apply mm_half_ge1. lia.
Qed.

Lemma after_pass_none_PD : forall s, PD s -> after_pass cfg clk s = None ->
  p_chunk_size s = 1 /\ p_any s = false.
Proof.
  intros s HB H. destruct (after_pass_rest s HB) as [E|E]; rewrite E in H.
  - exact (after_rest_none s HB H).
  - exact (after_rest_none (bump s) (PD_bump s HB) H).
Qed.

Lemma after_pass_some_PD : forall s s', PD s -> after_pass cfg clk s = Some s' ->
  PD s' /\ p_phase s' = PTop.
Proof.
  intros s s' HB H. destruct (after_pass_rest s HB) as [E|E]; rewrite E in H.
  - exact (after_rest_some s s' HB H).
  - exact (after_rest_some (bump s) s' (PD_bump s HB) H).
Qed.

Lemma pstart_PD : forall tc0, c_min cfg = 1 -> is_power_of_two (c_max cfg) = true ->
  PD (pstart cfg clk tc0).
Proof.
  intros tc0 Hmin Hmax.
  pose proof (mm_ipot_ge1 _ Hmax) as H1. pose proof (mm_lpot_ge1 (tc_len tc0)) as H2.
  unfold pstart. constructor; mcbn.
  - destruct (c_limit cfg) as [l|]; [right; exists l; split; reflexivity | left; reflexivity].
  - lia.
  - rewrite Hmin. reflexivity.
Qed.

(* ------------------------------------------------------------------ *)
(* 3. the invariant of the strategy states                             *)
(* ------------------------------------------------------------------ *)

(* phases of Pairs.v *)
Definition BJ (s : pstate) (best : tcase) : Prop :=
  PD s /\
  match p_phase s with
  | PTop => True
  | PLoop => p_chunk_size s = 1 -> p_any s = false -> B1 f s best
  | PAfter => p_chunk_size s = 1 -> p_any s = false -> pf_balanced_fixpoint f best
  end.

(* inner loop, always *)
Record MG (m : mvstate) : Prop := {
  mg_pd : PD (m_base m);
  mg_lo : 0 <= m_lhs_start m <= m_mid_start m
}.

(* inner loop, during a pass at chunk size 1 that has not accepted anything yet *)
Record M1 (m : mvstate) (best : tcase) : Prop := {
  m1_b1 : B1 f (m_base m) best;
  m1_cov : cov f best (p_i1 (m_base m));
  m1_orig : m_orig_idx m = p_i1 (m_base m);
  m1_stay : m_stay m = false;
  m1_mid : m_mid_idx m = m_mid_start m;
  m1_lo : p_i1 (m_base m) < m_mid_start m;
  m1_rhs : m_rhs_start m < tc_len best
}.

Definition MVI (m : mvstate) (best : tcase) : Prop :=
  match m_phase m with
  | MBase => BJ (m_base m) best
  | MLoop => MG m /\ (p_chunk_size (m_base m) = 1 -> p_any (m_base m) = false -> M1 m best)
  | MBefore => MG m /\ m_mid_start m < m_rhs_start m /\
               (p_chunk_size (m_base m) = 1 -> p_any (m_base m) = false -> M1 m best)
  end.

Lemma MVI_base : forall s best, BJ s best -> MVI (mv_of s) best.
Proof. intros s best H. exact H. Qed.

Definition spost (best : tcase) (st : step mvstate) : Prop :=
  match st with
  | Propose t k =>
      cand best t /\
      (forall o, o <> Tested true ->
         ((length (content t) < length (content best))%nat -> f (content t) = false) ->
         MVI (k o) best) /\
      MVI (k (Tested true)) t
  | RawWrite _ _ => False
  | Done => pf_balanced_fixpoint f best
  | Fail _ => True
  end.

Definition rpost (best : tcase) (r : mres) : Prop :=
  match r with
  | MStep st => spost best st
  | MCont m => MVI m best
  end.

Lemma BJ_bump : forall s best, BJ s best -> BJ (bump s) best.
Proof.
  intros s best [HB HP]. split; [apply PD_bump; exact HB|].
  change (p_phase (bump s)) with (p_phase s). destruct (p_phase s).
  - exact I.
  - intros Hc1 Hany. destruct (HP Hc1 Hany) as [h1 h2 h3 h4 h5]. constructor; assumption.
  - exact HP.
Qed.

Lemma BJ_bal_true : forall s sm cst t, PD s -> BJ (bal_next s true sm cst) t.
Proof.
  intros s sm cst t HB. unfold bal_next.
  destruct (s_index sm (p_i1 s + 1)); (split; [apply PD_upd; exact HB|]); mcbn;
    intros _ Habs; discriminate Habs.
Qed.

(* after a rejection at lhs: advance to the next surviving chunk (o = lhs in the clean pass) *)
Lemma BJ_rej_gen : forall s best o, PD s -> wf best ->
  (p_chunk_size s = 1 -> p_any s = false -> B1 f s best /\ cov f best (p_i1 s) /\ o = p_i1 s) ->
  BJ (match s_index (p_summary s) (o + 1) with
      | Some l => upd s (p_any s) PLoop (p_summary s) (p_chunk_start s + p_chunk_size s) l 0 0
      | None => upd s (p_any s) PAfter (p_summary s) (p_chunk_start s + p_chunk_size s) o 0 0
      end) best.
Proof.
  intros s best o HB Hwf H. pose proof (tc_len_nonneg best Hwf) as Hlen.
  destruct (s_index (p_summary s) (o + 1)) as [l|] eqn:El;
    (split; [apply PD_upd; exact HB|]); mcbn; intros Hc1 Hany;
    destruct (H Hc1 Hany) as ([Hsum Htab Hcs Hl Hcov] & Hnew & Ho); subst o.
  - rewrite Hsum in El. apply s_index_alltrue_some in El; [|lia]. destruct El as [El _].
    constructor; mcbn.
    + exact Hsum.
    + exact Htab.
    + lia.
    + lia.
    + intros i Hi. destruct (Z.eq_dec i (p_i1 s)) as [He|Hn];
        [subst i; exact Hnew | apply Hcov; lia].
  - rewrite Hsum in El. apply s_index_alltrue_none in El; [|lia].
    apply cov_all_fixpoint. intros i Hi.
    destruct (Z.eq_dec i (p_i1 s)) as [He|Hn]; [subst i; exact Hnew | apply Hcov; lia].
Qed.

Lemma BJ_bal_rej : forall s best, PD s -> wf best ->
  (p_chunk_size s = 1 -> p_any s = false -> B1 f s best /\ cov f best (p_i1 s)) ->
  BJ (bal_next s (p_any s) (p_summary s) (p_chunk_start s + p_chunk_size s)) best.
Proof.
  intros s best HB Hwf H. unfold bal_next. apply (BJ_rej_gen s best (p_i1 s) HB Hwf).
  intros Hc1 Hany. destruct (H Hc1 Hany) as [H1 H2]. split; [exact H1|]. split; [exact H2 | reflexivity].
Qed.

Lemma mv_pass_start : forall s best s', PD s -> wf best -> all_reducible best ->
  pass_start KBalanced s best = Ok s' -> BJ s' best.
Proof.
  intros s best s' HB Hwf Hall H. unfold pass_start in H.
  destruct (divide_rounding_up (tc_len best) (p_chunk_size s)) as [v|e] eqn:Ed;
    cbn [bind] in H; [|discriminate H].
  destruct (v <? 2) eqn:E2.
  - injection H as H. subst s'. split; [apply PD_upd; exact HB|]. mcbn. intros Hc1 _.
    rewrite Hc1 in Ed. apply dru_one in Ed. subst v. intros H2. lia.
  - match type of H with context [flat_mapM ?F ?L] =>
      destruct (flat_mapM F L) as [tb|e] eqn:Et end; cbn [bind] in H; [|discriminate H].
    injection H as H. subst s'. destruct HB as [Hd Hc Hf].
    split; [constructor; mcbn; assumption|]. mcbn.
    intros Hc1 _. rewrite Hc1 in Ed. apply dru_one in Ed. subst v.
    constructor; mcbn.
    + reflexivity.
    + rewrite (all_red_len best Hwf Hall) in Et.
      pose proof (tables_eq bdiff (tc_parts best)) as Ht.
      assert (HE : Ok tb = Ok (map bdiff (tc_parts best))) by (rewrite <- Et; exact Ht).
      injection HE as HE. exact HE.
    + reflexivity.
    + lia.
    + intros i Hi. lia.
Qed.

(* `mid_chunk_idx = summary.index("S", mid_chunk_idx + 1)` : never a ValueError in the clean pass *)
Lemma with_mid_ok : forall m s best ls le rs re ri ms stay,
  PD s -> 0 <= ls <= ms ->
  (p_chunk_size s = 1 -> p_any s = false ->
     B1 f s best /\ cov f best (p_i1 s) /\ m_orig_idx m = p_i1 s /\ stay = false /\
     m_mid_idx m + 1 = ms /\ p_i1 s < ms /\ ms <= rs /\ rs < tc_len best) ->
  MVI (with_mid m s ls le rs re ri ms stay) best.
Proof.
  intros m s best ls le rs re ri ms stay HB Hlo Hcl. unfold with_mid.
  destruct (s_index (p_summary s) (m_mid_idx m + 1)) as [k|] eqn:Ek.
  - unfold MVI. mcbn. split.
    + constructor; mcbn; assumption.
    + intros Hc1 Hany. destruct (Hcl Hc1 Hany) as (HB1 & Hcov & Ho & Hs & Hm & Hl & Hr & Hlen).
      pose proof HB1 as [Hsum Htab Hcs Hl0 Hcv].
      rewrite Hsum in Ek. apply s_index_alltrue_some in Ek; [|lia]. destruct Ek as [Ek _].
      constructor; mcbn; try assumption; lia.
  - apply MVI_base. split; [apply PD_set_pp; exact HB|]. mcbn. intros Hc1 Hany. exfalso.
    destruct (Hcl Hc1 Hany) as (HB1 & Hcov & Ho & Hs & Hm & Hl & Hr & Hlen).
    pose proof HB1 as [Hsum Htab Hcs Hl0 Hcv].
    rewrite Hsum in Ek. apply s_index_alltrue_none in Ek; [|lia]. lia.
Qed.

Lemma leave_inner_ok : forall m best, PD (m_base m) -> wf best ->
  (p_chunk_size (m_base m) = 1 -> p_any (m_base m) = false -> M1 m best) ->
  MVI (leave_inner m) best.
Proof.
  intros m best HB Hwf H1. unfold leave_inner. cbv zeta.
  destruct (m_stay m) eqn:Est.
  - apply MVI_base. split; [apply PD_upd; exact HB|]. mcbn. intros Hc1 Hany.
    pose proof (m1_stay _ _ (H1 Hc1 Hany)) as Hs. rewrite Hs in Est. discriminate Est.
  - assert (HR : BJ (match s_index (p_summary (m_base m)) (m_orig_idx m + 1) with
                     | Some l => upd (m_base m) (p_any (m_base m)) PLoop (p_summary (m_base m))
                                     (p_chunk_start (m_base m) + p_chunk_size (m_base m)) l 0 0
                     | None => upd (m_base m) (p_any (m_base m)) PAfter (p_summary (m_base m))
                                   (p_chunk_start (m_base m) + p_chunk_size (m_base m))
                                   (m_orig_idx m) 0 0
                     end) best).
    { apply (BJ_rej_gen (m_base m) best (m_orig_idx m) HB Hwf). intros Hc1 Hany.
      destruct (H1 Hc1 Hany) as [h1 h2 h3 h4 h5 h6 h7].
      split; [exact h1|]. split; [exact h2 | exact h3]. }
    destruct (s_index (p_summary (m_base m)) (m_orig_idx m + 1)) as [l|]; apply MVI_base; exact HR.
Qed.

(* ------------------------------------------------------------------ *)
(* 4. the steps                                                        *)
(* ------------------------------------------------------------------ *)

Lemma body_mv_ok : forall s best,
  BJ s best -> p_phase s = PLoop -> p_chunk_start s < tc_len best ->
  wf best -> all_reducible best -> nonempty_parts best ->
  rpost best (balanced_body_mv s best).
Proof.
  intros s best [HB HP] Hph Hcond Hwf Hall Hne. rewrite Hph in HP.
  pose proof (pd_cs _ HB) as Hc. pose proof (tc_len_nonneg best Hwf) as Hlen.
  pose proof (all_red_len best Hwf Hall) as Hlp.
  unfold balanced_body_mv. cbv zeta.
  destruct (negb (s_count (p_summary s) 0 (p_i1 s) * p_chunk_size s =? p_chunk_start s)) eqn:Eas;
    [exact I|].
  assert (Hcst0 : 0 <= p_chunk_start s).
  { assert (H0 : 0 <= s_count (p_summary s) 0 (p_i1 s)) by (unfold s_count; apply zlen_nonneg).
    apply negb_false_iff in Eas. apply Z.eqb_eq in Eas. nia. }
  destruct (nth_table (p_tables s) (p_i1 s)) as [n0|e] eqn:En; [|exact I].
  assert (Hmode : p_chunk_size s = 1 -> p_any s = false ->
            B1 f s best /\ exists p, nth_error (tc_parts best) (Z.to_nat (p_i1 s)) = Some p /\
                                   n0 = bdiff p /\ p_i1 s < tc_len best).
  { intros Hc1 Hany. pose proof (HP Hc1 Hany) as HB1. split; [exact HB1|].
    destruct HB1 as [Hsum Htab Hcs Hl Hcov]. unfold nth_table in En. rewrite Htab in En.
    destruct (py_index_ok _ _ _ _ Hl En) as [Hn Hlt]. rewrite nth_error_map in Hn.
    destruct (nth_error (tc_parts best) (Z.to_nat (p_i1 s))) as [p|] eqn:Ep;
      [|discriminate Hn].
    cbn [option_map] in Hn. injection Hn as Hn. exists p. split; [reflexivity|].
    split; [symmetry; exact Hn | lia]. }
  rewrite copy_id.
  assert (Hr2 : 0 <= p_chunk_start s <= Z.min (tc_len best) (p_chunk_start s + p_chunk_size s))
    by lia.
  destruct (zero3 n0) eqn:Ez.
  - (* a balanced atom: propose deleting it *)
    destruct (rmslice best (p_chunk_start s) (Z.min (tc_len best) (p_chunk_start s + p_chunk_size s)))
      as [t|e] eqn:E1; [|exact I].
    destruct (rm_nonneg best _ _ t Hwf Hr2 E1) as (Hwft & Hsub & _ & _ & Hlt).
    cbn [rpost spost].
    split; [exact (sub_cand best t Hwf Hall Hsub)|].
    split; [|apply MVI_base; apply BJ_bal_true; exact HB].
    intros o Ho Hf.
    assert (Hrej : MVI (mv_of (bal_next s (p_any s) (p_summary s) (p_chunk_start s + p_chunk_size s)))
                       best).
    { apply MVI_base. apply BJ_bal_rej; [exact HB | exact Hwf |]. intros Hc1 Hany.
      destruct (Hmode Hc1 Hany) as [HB1 (p & Hp & Hn0 & Hlt1)]. split; [exact HB1|].
      destruct HB1 as [Hsum Htab Hcs Hl Hcov]. split.
      - intros p' t' Hp' Hbal Hrm.
        rewrite Hcs in E1.
        replace (Z.min (tc_len best) (p_i1 s + p_chunk_size s)) with (p_i1 s + 1) in E1 by lia.
        rewrite E1 in Hrm. injection Hrm as Hrm. subst t'. apply Hf.
        apply Hlt; [exact Hne | lia].
      - intros j t' Hpart. unfold partner in Hpart. rewrite Hp in Hpart.
        unfold balanced_atom in Hpart. rewrite <- Hn0, Ez in Hpart. discriminate Hpart. }
    destruct o as [|[|]]; [exact Hrej | exfalso; apply Ho; reflexivity | exact Hrej].
  - (* an unbalanced atom: look for its partner *)
    match goal with |- context [partner_scan ?a ?b ?c ?d] =>
      destruct (partner_scan a b c d) as [rhs n] eqn:Es end.
    assert (Hpm : p_chunk_size s = 1 -> p_any s = false ->
              partner (tc_parts best) (p_i1 s) = if zero3 n then Some rhs else None).
    { intros Hc1 Hany. destruct (Hmode Hc1 Hany) as [[Hsum Htab Hcs Hl Hcov] (p & Hp & Hn0 & Hlt1)].
      rewrite Hsum, Htab, Hn0 in Es.
      replace (Z.to_nat (tc_len best)) with (length (tc_parts best)) in Es
        by (rewrite Hlp; unfold zlen; rewrite Nat2Z.id; reflexivity).
      apply (partner_mode (tc_parts best) (p_i1 s) p rhs n); [lia | exact Hp | | exact Es].
      rewrite <- Hn0. exact Ez. }
    destruct (negb (zero3 n)) eqn:Ezn.
    + (* no partner: advance *)
      cbn [rpost]. apply MVI_base.
      apply BJ_bal_rej; [exact HB | exact Hwf |]. intros Hc1 Hany.
      destruct (Hmode Hc1 Hany) as [HB1 (p & Hp & Hn0 & Hlt1)]. split; [exact HB1|]. split.
      * intros p' t' Hp' Hbal. rewrite Hp in Hp'. injection Hp' as Hp'. subst p'.
        unfold balanced_atom in Hbal. rewrite <- Hn0, Ez in Hbal. discriminate Hbal.
      * intros j t' Hpart. rewrite (Hpm Hc1 Hany) in Hpart.
        destruct (zero3 n); [discriminate Ezn | discriminate Hpart].
    + (* propose deleting the atom and its partner *)
      assert (Hsc : 0 <= p_chunk_size s * s_count (p_summary s) (p_i1 s) rhs).
      { assert (H0 : 0 <= s_count (p_summary s) (p_i1 s) rhs) by (unfold s_count; apply zlen_nonneg).
        nia. }
      set (RS := Z.min (tc_len best)
                   (p_chunk_start s + p_chunk_size s * s_count (p_summary s) (p_i1 s) rhs)) in *.
      assert (Hr1 : 0 <= RS <= Z.min (tc_len best) (RS + p_chunk_size s)) by (subst RS; lia).
      destruct (rmslice best RS (Z.min (tc_len best) (RS + p_chunk_size s))) as [t1|e1] eqn:E1;
        cbn [bind]; [|exact I].
      destruct (rmslice t1 (p_chunk_start s) (Z.min (tc_len best) (p_chunk_start s + p_chunk_size s)))
        as [t|e2] eqn:E2; [|exact I].
      destruct (rm_nonneg best _ _ t1 Hwf Hr1 E1) as (Hwf1 & Hsub1 & Hlen1 & Hne1 & _).
      destruct (rm_nonneg t1 _ _ t Hwf1 Hr2 E2) as (Hwft & Hsub2 & _ & _ & Hlt2).
      cbn [rpost spost].
      split; [exact (sub_cand best t Hwf Hall (sub_reducible_trans _ _ _ Hsub1 Hsub2))|].
      split; [|apply MVI_base; apply BJ_bal_true; exact HB].
      intros o Ho Hf.
      assert (Hent : MVI (enter_inner s (p_chunk_start s)
                            (Z.min (tc_len best) (p_chunk_start s + p_chunk_size s))
                            RS (Z.min (tc_len best) (RS + p_chunk_size s)) rhs) best).
      { assert (Hcl : p_chunk_size s = 1 -> p_any s = false ->
                  B1 f s best /\ cov f best (p_i1 s) /\ p_i1 s < rhs < tc_len best /\ RS = rhs).
        { intros Hc1 Hany. destruct (Hmode Hc1 Hany) as [HB1 (p & Hp & Hn0 & Hlt1)].
          pose proof HB1 as [Hsum Htab Hcs Hl Hcov].
          pose proof (Hpm Hc1 Hany) as Hpa.
          destruct (zero3 n) eqn:Ezn'; [|discriminate Ezn].
          destruct (partner_range _ _ _ Hl Hpa) as [Hlr Hrl].
          assert (Hsc' : s_count (p_summary s) (p_i1 s) rhs = rhs - p_i1 s)
            by (rewrite Hsum; apply s_count_alltrue; lia).
          assert (HRS : RS = rhs) by (subst RS; rewrite Hsc', Hc1; lia).
          split; [exact HB1|]. split; [|split; [lia | exact HRS]].
          split.
          - intros p' t' Hp' Hbal. rewrite Hp in Hp'. injection Hp' as Hp'. subst p'.
            unfold balanced_atom in Hbal. rewrite <- Hn0, Ez in Hbal. discriminate Hbal.
          - intros j t' Hpart Hrm. rewrite Hpa in Hpart. injection Hpart as Hpart. subst j.
            pose proof (sub_reducible_content_le _ _ Hwf Hsub1) as Hle.
            specialize (Hlt2 (Hne1 Hne) ltac:(lia)).
            rewrite HRS in E1.
            replace (Z.min (tc_len best) (rhs + p_chunk_size s)) with (rhs + 1) in E1 by lia.
            rewrite Hcs in E2.
            replace (Z.min (tc_len best) (p_i1 s + p_chunk_size s)) with (p_i1 s + 1) in E2 by lia.
            unfold rm2 in Hrm. rewrite E1 in Hrm. cbn [bind] in Hrm. rewrite E2 in Hrm.
            injection Hrm as Hrm. subst t'. apply Hf. lia. }
        unfold enter_inner. destruct (s_index (p_summary s) (p_i1 s + 1)) as [k|] eqn:Ek.
        - unfold MVI. mcbn. split.
          + constructor; mcbn; [exact HB | lia].
          + intros Hc1 Hany. destruct (Hcl Hc1 Hany) as (HB1 & Hcov & Hr & HRS).
            pose proof HB1 as [Hsum Htab Hcs Hl Hcv].
            rewrite Hsum in Ek. apply s_index_alltrue_some in Ek; [|lia]. destruct Ek as [Ek _].
            constructor; mcbn; try assumption; try reflexivity; lia.
        - apply MVI_base. split; [apply PD_set_pp; exact HB|]. mcbn. intros Hc1 Hany. exfalso.
          destruct (Hcl Hc1 Hany) as (HB1 & Hcov & Hr & HRS).
          pose proof HB1 as [Hsum Htab Hcs Hl Hcv].
          rewrite Hsum in Ek. apply s_index_alltrue_none in Ek; [|lia]. lia. }
      destruct o as [|[|]]; [exact Hent | exfalso; apply Ho; reflexivity | exact Hent].
Qed.

Lemma inner_iter_ok : forall m best,
  MVI m best -> m_phase m = MLoop -> wf best -> all_reducible best ->
  rpost best (inner_iter m best).
Proof.
  intros m best HI Hph Hwf Hall. unfold MVI in HI. rewrite Hph in HI. destruct HI as [HG H1].
  pose proof (mg_pd _ HG) as HB. pose proof (mg_lo _ HG) as Hlo. pose proof (pd_cs _ HB) as Hc.
  unfold inner_iter. cbv zeta.
  destruct (negb (m_mid_start m <? m_rhs_start m)) eqn:Econd.
  - cbn [rpost]. apply leave_inner_ok; assumption.
  - destruct (negb (s_count (p_summary (m_base m)) 0 (m_mid_idx m) * p_chunk_size (m_base m)
                    =? m_mid_start m)) eqn:Eas; [exact I|].
    destruct (nth_table (p_tables (m_base m)) (m_mid_idx m)) as [n|e] eqn:En; [|exact I].
    destruct (negb (zero3 n)) eqn:Ez.
    + cbn [rpost]. apply with_mid_ok; [exact HB | lia |]. intros Hc1 Hany.
      destruct (H1 Hc1 Hany) as [h1 h2 h3 h4 h5 h6 h7].
      split; [exact h1|]. split; [exact h2|]. split; [exact h3|]. split; [exact h4|]. lia.
    + cbn [rpost spost]. split; [apply moved_after_cand; try assumption; lia|]. split.
      * intros o Ho _.
        assert (Hbef : MVI {| m_base := m_base m; m_phase := MBefore; m_lhs_start := m_lhs_start m;
                              m_lhs_end := m_lhs_end m; m_rhs_start := m_rhs_start m;
                              m_rhs_end := m_rhs_end m; m_rhs_idx := m_rhs_idx m;
                              m_mid_start := m_mid_start m; m_mid_idx := m_mid_idx m;
                              m_orig_idx := m_orig_idx m; m_stay := m_stay m |} best).
        { unfold MVI. mcbn. split; [constructor; mcbn; assumption|]. split; [lia|].
          intros Hc1 Hany. destruct (H1 Hc1 Hany) as [h1 h2 h3 h4 h5 h6 h7].
          constructor; mcbn; assumption. }
        destruct o as [|[|]]; [exact Hbef | exfalso; apply Ho; reflexivity | exact Hbef].
      * cbv beta iota. apply with_mid_ok; [apply PD_set_tables; exact HB | lia |].
        intros _ Hany. exfalso. exact (diff_true_false Hany).
Qed.

Lemma before_iter_ok : forall m best,
  MVI m best -> m_phase m = MBefore -> wf best -> all_reducible best ->
  spost best (before_iter m best).
Proof.
  intros m best HI Hph Hwf Hall. unfold MVI in HI. rewrite Hph in HI. destruct HI as (HG & Hlt & H1).
  pose proof (mg_pd _ HG) as HB. pose proof (mg_lo _ HG) as Hlo. pose proof (pd_cs _ HB) as Hc.
  unfold before_iter. cbv zeta. cbn [spost].
  split; [apply moved_before_cand; try assumption; lia|]. split.
  - intros o Ho _.
    assert (Hrej : MVI (with_mid m (m_base m) (m_lhs_start m) (m_lhs_end m) (m_rhs_start m) (m_rhs_end m)
                          (m_rhs_idx m) (m_mid_start m + p_chunk_size (m_base m)) (m_stay m)) best).
    { apply with_mid_ok; [exact HB | lia |]. intros Hc1 Hany.
      destruct (H1 Hc1 Hany) as [h1 h2 h3 h4 h5 h6 h7].
      split; [exact h1|]. split; [exact h2|]. split; [exact h3|]. split; [exact h4|]. lia. }
    destruct o as [|[|]]; [exact Hrej | exfalso; apply Ho; reflexivity | exact Hrej].
  - cbv beta iota. apply with_mid_ok; [apply PD_set_tables; exact HB | lia |].
    intros _ Hany. exfalso. exact (diff_true_false Hany).
Qed.

Lemma mdrive_ok : forall fuel m best,
  MVI m best -> wf best -> all_reducible best -> nonempty_parts best ->
  spost best (mdrive fuel cfg clk m best).
Proof.
  induction fuel as [|fuel IH]; intros m best HI Hwf Hall Hne; cbn [mdrive]; [exact I|].
  destruct (m_phase m) eqn:Hph.
  - (* the phases of Pairs.v *)
    unfold MVI in HI. rewrite Hph in HI. cbv zeta. pose proof HI as [HB HP].
    destruct (p_phase (m_base m)) eqn:Hpp.
    + destruct (pass_start KBalanced (m_base m) best) as [s'|e] eqn:Eps; [|exact I].
      apply IH; try assumption. apply MVI_base.
      exact (mv_pass_start (m_base m) best s' HB Hwf Hall Eps).
    + destruct (p_chunk_start (m_base m) <? tc_len best) eqn:Ec; cbn [negb].
      * destruct (read_clock_PD (m_base m) HB) as [Hrc|Hrc]; rewrite Hrc; cbv beta iota.
        -- pose proof (body_mv_ok (m_base m) best HI Hpp ltac:(lia) Hwf Hall Hne) as Hb.
           destruct (balanced_body_mv (m_base m) best) as [st|m']; cbn [rpost] in Hb;
             [exact Hb | apply IH; assumption].
        -- pose proof (body_mv_ok (bump (m_base m)) best (BJ_bump _ _ HI) Hpp ltac:(mcbn; lia)
                         Hwf Hall Hne) as Hb.
           destruct (balanced_body_mv (bump (m_base m)) best) as [st|m']; cbn [rpost] in Hb;
             [exact Hb | apply IH; assumption].
      * apply IH; try assumption. apply MVI_base. split; [apply PD_set_pp; exact HB|]. mcbn.
        intros Hc1 Hany. destruct (HP Hc1 Hany) as [Hsum Htab Hcs Hl Hcov].
        apply cov_all_fixpoint. intros i Hi. apply Hcov. lia.
    + destruct (after_pass cfg clk (m_base m)) as [s'|] eqn:Ea.
      * apply IH; try assumption. apply MVI_base.
        destruct (after_pass_some_PD (m_base m) s' HB Ea) as [HB' Hp'].
        split; [exact HB'|]. rewrite Hp'. exact I.
      * destruct (after_pass_none_PD (m_base m) HB Ea) as [Hc1 Hany]. exact (HP Hc1 Hany).
  - (* head of the inner loop *)
    pose proof (inner_iter_ok m best HI Hph Hwf Hall) as Hb.
    destruct (inner_iter m best) as [st|m']; cbn [rpost] in Hb; [exact Hb | apply IH; assumption].
  - exact (before_iter_ok m best HI Hph Hwf Hall).
Qed.

Lemma step_ok : forall st best,
  MVI st best -> wf best -> all_reducible best -> nonempty_parts best ->
  spost best (s_next (pairs_move cfg clk) st best).
Proof.
  intros st best HI Hwf Hall Hne. exact (mdrive_ok (move_fuel best) st best HI Hwf Hall Hne).
Qed.

(* ------------------------------------------------------------------ *)
(* 5. the driver                                                       *)
(* ------------------------------------------------------------------ *)

Record JM (tc0 : tcase) (it : iter) : Prop := {
  jm_wf : wf (it_best it);
  jm_all : all_reducible (it_best it);
  jm_bef : tc_before (it_best it) = tc_before tc0;
  jm_aft : tc_after (it_best it) = tc_after tc0;
  jm_in : forall p, In p (tc_parts (it_best it)) -> In p (tc_parts tc0);
  jm_f : f (content (it_best it)) = true;
  jm_tried : forall c, In c (it_tried it) -> f c = true ->
                       (length (content (it_best it)) <= length c)%nat
}.

Lemma jm_nonempty : forall tc0 it, nonempty_parts tc0 -> JM tc0 it -> nonempty_parts (it_best it).
Proof.
  intros tc0 it H0 HJ. unfold nonempty_parts in *. rewrite Forall_forall in *.
  intros p Hp. apply H0. apply (jm_in _ _ HJ). exact Hp.
Qed.

Definition on_GM (tc0 : tcase) (s : lstate mvstate) : Prop :=
  match s with LS st it _ => JM tc0 it /\ MVI st (it_best it) end.

Lemma GM_step : forall tc0 a b, nonempty_parts tc0 ->
  lstep (pairs_move cfg clk) (det f) a b -> on_GM tc0 a -> on_GM tc0 b.
Proof.
  intros tc0 a b Hne0 Hstep. destruct Hstep as
    [st it w b0 st' Hn | st it w t k Hn Hm | st it w t k w' Hn Hm Hi | st it w t k w' Hn Hm Hi];
    cbn [on_GM]; intros (HJ & HI);
    pose proof (jm_wf _ _ HJ) as Hwf;
    pose proof (step_ok st (it_best it) HI Hwf (jm_all _ _ HJ) (jm_nonempty _ _ Hne0 HJ)) as Hok;
    rewrite Hn in Hok; cbn [spost] in Hok.
  - destruct Hok.
  - (* skipped *)
    destruct Hok as (Hcd & Hrej & _).
    split; [exact HJ|].
    apply Hrej; [discriminate|]. intros Hlt.
    destruct (f (content t)) eqn:E; [|reflexivity].
    apply mem_bytes_In in Hm. pose proof (jm_tried _ _ HJ _ Hm E). lia.
  - (* accepted *)
    destruct Hok as (Hcd & _ & Hacc).
    pose proof (cd_len _ _ Hcd) as Hle.
    cbn [it_best]. split; [|exact Hacc].
    constructor; cbn [it_best it_tried].
    + exact (cd_wf _ _ Hcd).
    + exact (cd_all _ _ Hcd).
    + rewrite (cd_bef _ _ Hcd). exact (jm_bef _ _ HJ).
    + rewrite (cd_aft _ _ Hcd). exact (jm_aft _ _ HJ).
    + intros p Hp. apply (jm_in _ _ HJ). apply (cd_in _ _ Hcd). exact Hp.
    + apply (det_yes _ _ _ _ Hi).
    + intros c [Hc|Hc] Hfc; [subst c; lia|].
      pose proof (jm_tried _ _ HJ _ Hc Hfc). lia.
  - (* rejected *)
    destruct Hok as (Hcd & Hrej & _).
    pose proof (det_no _ _ _ _ Hi) as Hf0.
    cbn [it_best]. split.
    + constructor; cbn [it_best it_tried]; try apply HJ.
      intros c [Hc|Hc] Hfc; [subst c; rewrite Hf0 in Hfc; discriminate Hfc|].
      apply (jm_tried _ _ HJ _ Hc Hfc).
    + apply Hrej; [discriminate|]. intros _. exact Hf0.
Qed.

Lemma GM_steps : forall tc0 a b, nonempty_parts tc0 ->
  lsteps (pairs_move cfg clk) (det f) a b -> on_GM tc0 a -> on_GM tc0 b.
Proof.
  intros tc0 a b Hne0 Hs. induction Hs as [s|a b c Hab Hbc IH]; intros Ha.
  - exact Ha.
  - apply IH. eapply GM_step; eassumption.
Qed.

End Move.

Theorem balanced_move_stops_at_fixpoint :
  forall cfg clk f tc0 file0 fuel rc w,
    wf tc0 -> all_reducible tc0 -> Forall (fun p => p <> []) (tc_parts tc0) -> content tc0 = file0 ->
    c_min cfg = 1 -> is_power_of_two (c_max cfg) = true -> c_repeat cfg <> Never ->
    (forall l, c_limit cfg = Some l -> forall i : nat, clk i <= clk O + l) -> f file0 = true ->
    run (pairs_move cfg clk) (det f) fuel tc0 file0 = Finished rc w ->
    exists tf, wf tf /\ all_reducible tf /\ tc_before tf = tc_before tc0 /\ tc_after tf = tc_after tc0 /\
               (forall p, In p (tc_parts tf) -> In p (tc_parts tc0)) /\
               w_file w = content tf /\ f (content tf) = true /\ pf_balanced_fixpoint f tf.
Proof.
  intros cfg clk f tc0 file0 fuel rc w Hwf Hall Hne Hc Hmin Hmax Hrep Hnever Hf Hrun.
  pose proof (det_first_yes f file0 Hf) as Hv.
  destruct (run_cases mvstate (pairs_move cfg clk) (det f) fuel tc0 file0)
    as [[Hl He]|[(_ & Hv' & _)|[(_ & Hv' & _)|(_ & _ & He)]]].
  - rewrite He in Hrun. injection Hrun as _ Hw. subst w.
    exists tc0. split; [exact Hwf|]. split; [exact Hall|]. split; [reflexivity|]. split; [reflexivity|].
    split; [intros p Hp; exact Hp|].
    split; [rewrite Hc; reflexivity|]. split; [rewrite Hc; exact Hf|]. intros H2. lia.
  - rewrite Hv in Hv'. discriminate Hv'.
  - rewrite Hv in Hv'. discriminate Hv'.
  - rewrite He in Hrun.
    destruct (loop (pairs_move cfg clk) (det f) fuel (s_start (pairs_move cfg clk) tc0) (it0 tc0)
                   (wY tc0 file0))
      as [rc' wfin|e wfin|wfin] eqn:EL; cbn [map_world] in Hrun; try discriminate Hrun.
    injection Hrun as Hrc Hw. subst rc' w.
    destruct (loop_finished_file mvstate (pairs_move cfg clk) (det f) fuel tc0 file0 rc wfin EL)
      as (st' & it' & w' & Hs & Hd & _ & Hfile).
    assert (H0 : on_GM f cfg clk tc0 (LS (s_start (pairs_move cfg clk) tc0) (it0 tc0) (wY tc0 file0))).
    { cbn [on_GM]. split.
      - constructor; cbn [it0 it_best it_tried].
        + exact Hwf.
        + exact Hall.
        + reflexivity.
        + reflexivity.
        + intros p Hp. exact Hp.
        + rewrite Hc. exact Hf.
        + intros c Hin. destruct Hin.
      - change (s_start (pairs_move cfg clk) tc0) with (mv_of (pstart cfg clk tc0)).
        apply MVI_base. split; [exact (pstart_PD cfg clk Hnever tc0 Hmin Hmax)|].
        change (p_phase (pstart cfg clk tc0)) with PTop. exact I. }
    pose proof (GM_steps f cfg clk Hnever Hrep tc0 _ _ Hne Hs H0) as HK. cbn [on_GM] in HK.
    destruct HK as (HJ & HI').
    exists (it_best it').
    split; [exact (jm_wf _ _ _ HJ)|]. split; [exact (jm_all _ _ _ HJ)|].
    split; [exact (jm_bef _ _ _ HJ)|]. split; [exact (jm_aft _ _ _ HJ)|].
    split; [exact (jm_in _ _ _ HJ)|]. split; [exact Hfile|]. split; [exact (jm_f _ _ _ HJ)|].
    pose proof (step_ok f cfg clk Hnever Hrep st' (it_best it') HI' (jm_wf _ _ _ HJ) (jm_all _ _ _ HJ)
                  (jm_nonempty f tc0 it' Hne HJ)) as Hok.
    rewrite Hd in Hok. exact Hok.
Qed.

Print Assumptions balanced_move_stops_at_fixpoint.
