(* Monotone interestingness tests ("interesting exactly when the file still contains the m core
   atoms"): the ddmin-style reducer of Model/Minimize.v returns exactly the core, and does so
   in O(m log n) tests.  Used by Props/C10.v.  No axioms. *)
From Coq Require Import ZArith NArith List Bool Lia ZifyBool.
From Lithium Require Import PyBase TcRecord Util Testcase Spec Driver TraceSpec Minimize StratSpec
  TestcaseProofs DriverProofs MinimizeProofs MinimizeMinimal.
From Lithium Require MinimizeBound.
Import ListNotations.
Open Scope Z_scope.

(* the vocabulary of Props/C10.v, restated (convertible) *)
Definition mp_has_atom (t : tcase) (c : bytes) : bool := existsb (bytes_eqb c) (tc_parts t).
Definition mp_core_test (f : bytes -> bool) (tc0 : tcase) (core : list bytes) : Prop :=
  forall t, sub_reducible tc0 t -> f (content t) = forallb (mp_has_atom t) core.
Definition mp_c10_bound (n m : Z) : Z := (2 * m + 1) * clog2 n + 5 * m + 8.

(* ------------------------------------------------------------------ *)
(* lists                                                              *)
(* ------------------------------------------------------------------ *)

Definition corep (core : list bytes) (p : bytes) : bool := existsb (bytes_eqb p) core.

Lemma corep_true : forall core p, corep core p = true <-> In p core.
Proof.
  intros core p. unfold corep. rewrite existsb_exists. split.
  - intros [x [Hx He]]. apply bytes_eqb_eq in He. subst x. exact Hx.
  - intros H. exists p. split; [exact H | apply bytes_eqb_eq; reflexivity].
Qed.

Lemma has_atom_true : forall t c, mp_has_atom t c = true <-> In c (tc_parts t).
Proof. intros t c. exact (corep_true (tc_parts t) c). Qed.

Lemma forallb_false_ex : forall (A : Type) (p : A -> bool) l,
  forallb p l = false -> exists x, In x l /\ p x = false.
Proof.
  intros A p l. induction l as [|a l IH]; intros H; [discriminate H|].
  cbn [forallb] in H. destruct (p a) eqn:E.
  - cbn [andb] in H. destruct (IH H) as [x [Hx Hp]]. exists x. split; [right; exact Hx | exact Hp].
  - exists a. split; [left; reflexivity | exact E].
Qed.

Lemma nth_split3 : forall (A : Type) (l : list A) (i : nat) (d : A), (i < length l)%nat ->
  l = firstn i l ++ nth i l d :: skipn (S i) l.
Proof.
  intros A l. induction l as [|a l IH]; intros i d Hi; [cbn in Hi; lia|].
  destruct i as [|i]; [reflexivity|].
  cbn [firstn nth skipn app]. f_equal. apply IH. cbn in Hi. lia.
Qed.

Lemma firstn_app_exact : forall (A : Type) (a r : list A) k,
  zlen a = k -> firstn (Z.to_nat k) (a ++ r) = a.
Proof.
  intros A a r k Hk. unfold zlen in Hk. subst k. rewrite Nat2Z.id.
  rewrite firstn_app, Nat.sub_diag, firstn_all. cbn [firstn]. apply app_nil_r.
Qed.

Lemma skipn_app_exact : forall (A : Type) (a r : list A) k,
  zlen a = k -> skipn (Z.to_nat k) (a ++ r) = r.
Proof.
  intros A a r k Hk. unfold zlen in Hk. subst k. rewrite Nat2Z.id.
  rewrite skipn_app, Nat.sub_diag, skipn_all. reflexivity.
Qed.

(* ------------------------------------------------------------------ *)
(* testcases all of whose atoms are reducible                         *)
(* ------------------------------------------------------------------ *)

Definition allT (l : list (bytes * bool)) : Prop := Forall (fun x => snd x = true) l.

Lemma allT_red : forall t, wf t -> (allT (zipped t) <-> Forall (fun r => r = true) (tc_red t)).
Proof.
  intros t Hwf. unfold allT.
  assert (E : Forall (fun r => r = true) (tc_red t) <->
              Forall (fun r => r = true) (map snd (zipped t))) by (rewrite (zipped_red t Hwf); reflexivity).
  rewrite E, Forall_map. reflexivity.
Qed.

Lemma subred_allT : forall l l', subred l l' -> allT l -> allT l'.
Proof.
  intros l l' H. induction H as [|x l l' H IH|p l l' H IH]; intros Ha.
  - exact Ha.
  - inversion Ha as [|x0 l0 Hx Hl]; subst. constructor; [exact Hx | apply IH; exact Hl].
  - inversion Ha as [|x0 l0 Hx Hl]; subst. apply IH. exact Hl.
Qed.

Lemma subred_In : forall l l', subred l l' -> forall x, In x (map fst l') -> In x (map fst l).
Proof.
  intros l l' H. induction H as [|y l l' H IH|p l l' H IH]; intros x Hx.
  - exact Hx.
  - cbn [map] in *. destruct Hx as [Hx|Hx]; [left; exact Hx | right; apply IH; exact Hx].
  - cbn [map]. right. apply IH. exact Hx.
Qed.

Lemma subred_NoDup : forall l l', subred l l' -> NoDup (map fst l) -> NoDup (map fst l').
Proof.
  intros l l' H. induction H as [|y l l' H IH|p l l' H IH]; intros Hn.
  - exact Hn.
  - cbn [map] in *. inversion Hn as [|y0 l0 Hy Hl]; subst. constructor.
    + intros Hin. apply Hy. apply (subred_In _ _ H). exact Hin.
    + apply IH. exact Hl.
  - cbn [map] in Hn. inversion Hn as [|y0 l0 Hy Hl]; subst. apply IH. exact Hl.
Qed.

(* a sub-list of a duplicate-free list that contains exactly the elements satisfying P is the
   filter *)
Lemma subred_filter : forall (P : bytes -> bool) l l', subred l l' -> NoDup (map fst l) ->
  (forall x, In x (map fst l') -> P x = true) ->
  (forall x, In x (map fst l) -> P x = true -> In x (map fst l')) ->
  map fst l' = filter P (map fst l).
Proof.
  intros P l l' H. induction H as [|y l l' H IH|p l l' H IH]; intros Hn H1 H2.
  - reflexivity.
  - cbn [map] in *. inversion Hn as [|y0 l0 Hy Hl]; subst.
    cbn [filter]. rewrite (H1 (fst y)) by (left; reflexivity). f_equal.
    apply IH; [exact Hl | intros x Hx; apply H1; right; exact Hx|].
    intros x Hx Hp. destruct (H2 x (or_intror Hx) Hp) as [E|Hin]; [|exact Hin].
    exfalso. apply Hy. rewrite E. exact Hx.
  - cbn [map fst] in *. inversion Hn as [|y0 l0 Hy Hl]; subst.
    cbn [filter]. destruct (P p) eqn:Ep.
    + exfalso. apply Hy. apply (subred_In _ _ H). apply H2; [left; reflexivity | exact Ep].
    + apply IH; [exact Hl | exact H1|].
      intros x Hx Hp. apply H2; [right; exact Hx | exact Hp].
Qed.

Lemma count_false_allT : forall l, Forall (fun r : bool => r = true) l -> count_false l = 0.
Proof.
  intros l H. unfold count_false. induction H as [|x l Hx Hl IH]; [reflexivity|].
  subst x. cbn [filter negb]. exact IH.
Qed.

Record BF (tc0 : tcase) (core : list bytes) (t : tcase) : Prop := {
  bf_wf : wf t;
  bf_red : Forall (fun r => r = true) (tc_red t);
  bf_nd : NoDup (tc_parts t);
  bf_len : tc_len t = zlen (tc_parts t);
  bf_incl : forall x, In x (tc_parts t) -> In x (tc_parts tc0);
  bf_sub : sub_reducible tc0 t
}.

Section Mono.
Variable f : bytes -> bool.
Variable tc0 : tcase.
Variable core : list bytes.
Hypothesis Hwf0 : wf tc0.
Hypothesis Hnd0 : NoDup (tc_parts tc0).
Hypothesis Hred0 : Forall (fun r => r = true) (tc_red tc0).
Hypothesis Hcore0 : forall c, In c core -> In c (tc_parts tc0).
Hypothesis Hct : mp_core_test f tc0 core.

Lemma sub_BF : forall t, sub_reducible tc0 t -> BF tc0 core t.
Proof.
  intros t Hsub. pose proof Hsub as (Hb & Ha & Hwt & Hs).
  assert (Hall : allT (zipped t)).
  { apply (subred_allT _ _ Hs). apply (allT_red tc0 Hwf0). exact Hred0. }
  assert (Hr : Forall (fun r => r = true) (tc_red t)) by (apply (allT_red t Hwt); exact Hall).
  constructor.
  - exact Hwt.
  - exact Hr.
  - rewrite <- (zipped_parts t Hwt). apply (subred_NoDup _ _ Hs).
    rewrite (zipped_parts tc0 Hwf0). exact Hnd0.
  - unfold tc_len. rewrite (count_false_allT _ Hr). lia.
  - intros x Hx. rewrite <- (zipped_parts tc0 Hwf0). apply (subred_In _ _ Hs).
    rewrite (zipped_parts t Hwt). exact Hx.
  - exact Hsub.
Qed.

Lemma f_true_core : forall t, sub_reducible tc0 t -> f (content t) = true ->
  forall c, In c core -> In c (tc_parts t).
Proof.
  intros t Hsub Hf c Hc. rewrite (Hct t Hsub) in Hf.
  rewrite forallb_forall in Hf. apply has_atom_true. apply Hf. exact Hc.
Qed.

Lemma core_f_true : forall t, sub_reducible tc0 t ->
  (forall c, In c core -> In c (tc_parts t)) -> f (content t) = true.
Proof.
  intros t Hsub H. rewrite (Hct t Hsub). apply forallb_forall. intros c Hc.
  apply has_atom_true. apply H. exact Hc.
Qed.

Lemma f_tc0 : f (content tc0) = true.
Proof. apply core_f_true; [apply sub_reducible_refl; exact Hwf0 | exact Hcore0]. Qed.

(* deleting the block [a,b) of a testcase whose atoms are all reducible *)
Lemma spec_rm_allT_skip : forall lo hi l r, allT l -> lo <= r ->
  spec_rm lo hi r l = skipn (Z.to_nat (hi - r)) l.
Proof.
  intros lo hi l. induction l as [|[p b] l IH]; intros r Ha Hr.
  - cbn [spec_rm]. rewrite skipn_nil. reflexivity.
  - inversion Ha as [|x0 l0 Hx Hl]; subst. cbn [snd] in Hx. subst b. cbn [spec_rm].
    destruct (Z.ltb_spec r hi) as [H1|H1].
    + replace (lo <=? r) with true by lia. cbn [andb].
      rewrite (IH (r + 1) Hl) by lia.
      replace (Z.to_nat (hi - r)) with (S (Z.to_nat (hi - (r + 1)))) by lia. reflexivity.
    + rewrite andb_false_r. replace (Z.to_nat (hi - r)) with 0%nat by lia. cbn [skipn].
      f_equal. rewrite (IH (r + 1) Hl) by lia.
      replace (Z.to_nat (hi - (r + 1))) with 0%nat by lia. reflexivity.
Qed.

Lemma spec_rm_allT : forall lo hi l r, allT l -> r <= lo <= hi ->
  spec_rm lo hi r l = firstn (Z.to_nat (lo - r)) l ++ skipn (Z.to_nat (hi - r)) l.
Proof.
  intros lo hi l. induction l as [|[p b] l IH]; intros r Ha Hr.
  - cbn [spec_rm]. rewrite firstn_nil, skipn_nil. reflexivity.
  - destruct (Z.eq_dec r lo) as [E|E].
    + subst r. rewrite (spec_rm_allT_skip lo hi _ lo Ha) by lia.
      replace (Z.to_nat (lo - lo)) with 0%nat by lia. reflexivity.
    + inversion Ha as [|x0 l0 Hx Hl]; subst. cbn [snd] in Hx. subst b. cbn [spec_rm].
      replace (lo <=? r) with false by lia. cbn [andb].
      rewrite (IH (r + 1) Hl) by lia.
      replace (Z.to_nat (lo - r)) with (S (Z.to_nat (lo - (r + 1)))) by lia.
      replace (Z.to_nat (hi - r)) with (S (Z.to_nat (hi - (r + 1)))) by lia.
      reflexivity.
Qed.

Lemma rm_parts : forall t a b t', BF tc0 core t -> 0 <= a <= b -> b <= tc_len t ->
  rmslice t a b = Ok t' ->
  sub_reducible tc0 t' /\
  tc_parts t' = firstn (Z.to_nat a) (tc_parts t) ++ skipn (Z.to_nat b) (tc_parts t).
Proof.
  intros t a b t' HB Hab Hb Hrm. pose proof (bf_wf _ _ _ HB) as Hwt.
  assert (Hlo : py_clamp (tc_len t) a = a) by (apply mm_clamp_id; lia).
  assert (Hhi : py_clamp (tc_len t) b = b) by (apply mm_clamp_id; lia).
  pose proof (rmslice_spec t a b t' Hwt Hrm) as Hs. cbv zeta in Hs.
  rewrite Hlo, Hhi in Hs. destruct (Hs ltac:(lia)) as (Hwt' & Hz & _).
  split.
  - apply (sub_reducible_trans _ _ _ (bf_sub _ _ _ HB)).
    apply (rmslice_sub_reducible t a b t' Hwt Hrm). rewrite Hlo, Hhi. lia.
  - rewrite <- (zipped_parts t' Hwt'), Hz.
    rewrite spec_rm_allT by (try lia; apply (allT_red t Hwt); exact (bf_red _ _ _ HB)).
    rewrite !Z.sub_0_r, map_app, <- firstn_map, <- skipn_map, (zipped_parts t Hwt). reflexivity.
Qed.

(* ------------------------------------------------------------------ *)
(* PART 1: the result is exactly the core                             *)
(* ------------------------------------------------------------------ *)

Lemma one_minimal_core : forall tf, sub_reducible tc0 tf -> f (content tf) = true ->
  mm_one_minimal f tf ->
  tc_parts tf = filter (corep core) (tc_parts tc0).
Proof.
  intros tf Hsub Hf Hom.
  pose proof (sub_BF tf Hsub) as HB. pose proof Hsub as (_ & _ & Hwt & Hs).
  pose proof (f_true_core tf Hsub Hf) as Hin.
  rewrite <- (zipped_parts tf Hwt), <- (zipped_parts tc0 Hwf0).
  apply (subred_filter (corep core) _ _ Hs).
  - rewrite (zipped_parts tc0 Hwf0). exact Hnd0.
  - rewrite (zipped_parts tf Hwt). intros p Hp.
    destruct (corep core p) eqn:Ec; [reflexivity|]. exfalso.
    destruct (In_nth _ _ ([] : bytes) Hp) as (i & Hi & Hnth).
    pose proof (nth_split3 _ (tc_parts tf) i [] Hi) as Hsplit. rewrite Hnth in Hsplit.
    assert (Hlen : tc_len tf = zlen (tc_parts tf)) by exact (bf_len _ _ _ HB).
    destruct (rmslice_total tf (Z.of_nat i) (Z.of_nat i + 1) Hwt) as [t' Hrm].
    assert (Hi' : 0 <= Z.of_nat i < tc_len tf) by (rewrite Hlen; unfold zlen; lia).
    pose proof (Hom (Z.of_nat i) t' Hi' Hrm) as Hfalse.
    destruct (rm_parts tf (Z.of_nat i) (Z.of_nat i + 1) t' HB ltac:(lia) ltac:(lia) Hrm)
      as (Hsub' & Hparts).
    rewrite Nat2Z.id in Hparts.
    replace (Z.to_nat (Z.of_nat i + 1)) with (S i) in Hparts by lia.
    rewrite (core_f_true t' Hsub') in Hfalse; [discriminate Hfalse|].
    intros c Hc. rewrite Hparts. pose proof (Hin c Hc) as Hcin. rewrite Hsplit in Hcin.
    apply in_app_or in Hcin. apply in_or_app.
    destruct Hcin as [Hcin|[Hcin|Hcin]]; [left; exact Hcin | | right; exact Hcin].
    exfalso. subst c. apply corep_true in Hc. rewrite Hc in Ec. discriminate Ec.
  - rewrite (zipped_parts tf Hwt), (zipped_parts tc0 Hwf0). intros x _ Hx.
    apply Hin. apply corep_true. exact Hx.
Qed.

End Mono.

Lemma minimize_exact_core :
  forall cfg clk f tc0 core fuel,
    wf tc0 -> Forall (fun p => p <> []) (tc_parts tc0) -> NoDup (tc_parts tc0) ->
    Forall (fun r => r = true) (tc_red tc0) ->
    (forall c, In c core -> In c (tc_parts tc0)) -> mp_core_test f tc0 core ->
    cfg = default_cfg -> tc_len tc0 <> 0 ->
    (Z.to_nat (2 * c09_bound (tc_len tc0)) <= fuel)%nat ->
    exists rc w tf,
      run (minimize cfg clk no_post) (det f) fuel tc0 (content tc0) = Finished rc w /\
      w_file w = content tf /\ sub_reducible tc0 tf /\
      tc_parts tf = filter (fun p => existsb (bytes_eqb p) core) (tc_parts tc0).
Proof.
  intros cfg clk f tc0 core fuel Hwf Hne Hnd Hred Hcore Hct Hcfg Hlen Hfuel. subst cfg.
  pose proof (f_tc0 f tc0 core Hwf Hcore Hct) as Hf0.
  assert (Hrep : c_repeat default_cfg <> Never) by (cbn; discriminate).
  destruct (minimize_one_minimal default_cfg clk f tc0 (content tc0) fuel Hwf Hne eq_refl
              eq_refl eq_refl Hrep eq_refl Hf0 Hlen Hfuel)
    as (rc & w & tf & Hrun & Hsub & Hfile & Hftf & Hom).
  exists rc, w, tf. split; [exact Hrun|]. split; [exact Hfile|]. split; [exact Hsub|].
  apply (one_minimal_core f tc0 core); assumption.
Qed.

(* ------------------------------------------------------------------ *)
(* PART 2: number of tests                                            *)
(* ------------------------------------------------------------------ *)

Lemma pow2_cases : forall c, pow2 c -> c = 1 \/ c = 2 \/ 4 <= c.
Proof.
  intros c [j [Hj Hc]]. subst c.
  destruct (Z.eq_dec j 0) as [E0|E0]; [left; subst j; reflexivity|].
  destruct (Z.eq_dec j 1) as [E1|E1]; [right; left; subst j; reflexivity|].
  right. right. change 4 with (2 ^ 2). apply Z.pow_le_mono_r; lia.
Qed.

Lemma log2_double_le : forall a c, 0 < a -> 2 * a <= c -> Z.log2 a + 1 <= Z.log2 c.
Proof.
  intros a c Ha Hc. pose proof (Z.log2_double a Ha) as H.
  pose proof (Z.log2_le_mono (2 * a) c Hc). lia.
Qed.

Lemma halve_stop : forall fu cs len, pow2 cs -> (Z.to_nat (Z.log2 cs) < fu)%nat ->
  halve fu cs len < len \/ halve fu cs len = 1.
Proof.
  induction fu as [|fu IH]; intros cs len Hp Hf; [lia|].
  cbn [halve]. pose proof (MinimizeProofs.pow2_pos cs Hp) as H1.
  destruct (cs >? 1) eqn:E1; [|right; lia].
  rewrite py_shr_1. destruct (pow2_half cs Hp ltac:(lia)) as [Hh He].
  destruct (cs / 2 <? len) eqn:E2; [left; lia|].
  apply IH; [exact Hh|].
  pose proof (MinimizeProofs.pow2_pos _ Hh) as H2.
  pose proof (Z.log2_double (cs / 2) ltac:(lia)) as Hd. rewrite He in Hd.
  pose proof (Z.log2_nonneg (cs / 2)). lia.
Qed.

(* the chunk size chosen at the end of a sweep at size cs > 1 *)
Lemma halve_facts : forall cs len, pow2 cs -> 1 < cs ->
  let c' := halve (halve_fuel cs) cs len in
  pow2 c' /\ 2 * c' <= cs /\ (2 * c' = cs \/ (4 * c' <= cs /\ len <= 2 * c')) /\
  (c' < len \/ c' = 1).
Proof.
  intros cs len Hp Hlt c'.
  destruct (halve_pow2_le (halve_fuel cs) cs len Hp) as [Hp' _]. fold c' in Hp'.
  pose proof (halve_fuel_lt cs len Hp Hlt) as Hl. fold c' in Hl.
  pose proof (pow2_lt_double c' cs Hp' Hp Hl) as Hd.
  pose proof (MinimizeProofs.pow2_pos c' Hp') as H1.
  split; [exact Hp'|]. split; [exact Hd|]. split.
  - destruct (Z.eq_dec (2 * c') cs) as [E|E]; [left; exact E|]. right.
    assert (Hp2 : pow2 (2 * c')).
    { destruct Hp' as [j [Hj Hc]]. exists (j + 1). split; [lia|].
      rewrite Hc, Z.pow_add_r by lia. lia. }
    pose proof (pow2_lt_double (2 * c') cs Hp2 Hp ltac:(lia)) as Hd2.
    split; [lia|].
    apply (halve_below (halve_fuel cs) cs len (2 * c') Hp Hp2); [lia | fold c'; lia].
  - apply halve_stop; [exact Hp|]. unfold halve_fuel. lia.
Qed.

Lemma split_tail : forall (A : Type) (l : list A) c, 0 <= c <= zlen l ->
  exists a b, l = a ++ b /\ zlen b = c /\ zlen a = zlen l - c.
Proof.
  intros A l c Hc. unfold zlen in *.
  exists (firstn (length l - Z.to_nat c) l), (skipn (length l - Z.to_nat c) l).
  split; [symmetry; apply firstn_skipn|].
  rewrite skipn_length, firstn_length. lia.
Qed.

Lemma nodup_mid : forall (A : Type) (a m t : list A) x,
  NoDup ((a ++ m) ++ t) -> In x m -> In x (a ++ t) -> False.
Proof.
  intros A a m t x Hn Hm Hat. destruct (in_split _ _ Hm) as (m1 & m2 & E). subst m.
  replace ((a ++ m1 ++ x :: m2) ++ t) with ((a ++ m1) ++ x :: (m2 ++ t)) in Hn
    by (rewrite <- !app_assoc; reflexivity).
  apply NoDup_remove_2 in Hn. apply Hn.
  apply in_app_or in Hat. rewrite <- app_assoc. apply in_or_app.
  destruct Hat as [H|H]; [left; exact H|].
  right. apply in_or_app. right. apply in_or_app. right. exact H.
Qed.

Lemma nodup_app_r : forall (A : Type) (a b : list A), NoDup (a ++ b) -> NoDup b.
Proof.
  intros A a b. induction a as [|x a IH]; intros H; [exact H|].
  cbn [app] in H. inversion H as [|x0 l0 Hx Hl]; subst. apply IH. exact Hl.
Qed.

Section Count.
Variable f : bytes -> bool.
Variable tc0 : tcase.
Variable core : list bytes.
Hypothesis Hwf0 : wf tc0.
Hypothesis Hne0 : Forall (fun p : bytes => p <> []) (tc_parts tc0).
Hypothesis Hnd0 : NoDup (tc_parts tc0).
Hypothesis Hred0 : Forall (fun r => r = true) (tc_red tc0).
Hypothesis HndC : NoDup core.
Hypothesis Hcore0 : forall c, In c core -> In c (tc_parts tc0).
Hypothesis Hct : mp_core_test f tc0 core.


(* the lemmas of Section Mono, re-stated under the hypotheses of this section *)
Lemma c_sub_BF : forall t, sub_reducible tc0 t -> BF tc0 core t.
Proof. apply sub_BF; assumption. Qed.
Lemma c_f_true_core : forall t, sub_reducible tc0 t -> f (content t) = true ->
  forall c, In c core -> In c (tc_parts t).
Proof. apply f_true_core; assumption. Qed.
Lemma c_f_tc0 : f (content tc0) = true.
Proof. apply (f_tc0 f tc0 core); assumption. Qed.
Lemma c_rm_parts : forall t a b t', BF tc0 core t -> 0 <= a <= b -> b <= tc_len t ->
  rmslice t a b = Ok t' ->
  sub_reducible tc0 t' /\
  tc_parts t' = firstn (Z.to_nat a) (tc_parts t) ++ skipn (Z.to_nat b) (tc_parts t).
Proof. apply rm_parts; assumption. Qed.

Let m := zlen core.
Let cp := corep core.
Definition cc (l : list bytes) : Z := zlen (filter cp l).

Lemma m_nonneg : 0 <= m.
Proof. apply zlen_nonneg. Qed.

Lemma cc_app : forall a b, cc (a ++ b) = cc a + cc b.
Proof. intros a b. unfold cc. rewrite filter_app, zlen_app. reflexivity. Qed.

Lemma cc_nonneg : forall l, 0 <= cc l.
Proof. intros l. apply zlen_nonneg. Qed.

Lemma cc_pos : forall l x, In x l -> cp x = true -> 1 <= cc l.
Proof.
  intros l x Hx Hc. unfold cc.
  assert (Hin : In x (filter cp l)) by (apply filter_In; split; assumption).
  destruct (filter cp l) as [|y r]; [destruct Hin|]. rewrite zlen_cons.
  pose proof (zlen_nonneg _ r). lia.
Qed.

Lemma cc_le_m : forall l, NoDup l -> cc l <= m.
Proof.
  intros l Hn. unfold cc, m, zlen. apply inj_le.
  apply NoDup_incl_length; [apply NoDup_filter; exact Hn|].
  intros x Hx. apply filter_In in Hx. destruct Hx as [_ Hx].
  apply (corep_true core x). exact Hx.
Qed.

Lemma allcore_len : forall l, NoDup l -> Forall (fun p => cp p = true) l -> zlen l <= m.
Proof.
  intros l Hn Ha. unfold m, zlen. apply inj_le. apply NoDup_incl_length; [exact Hn|].
  intros x Hx. rewrite Forall_forall in Ha. apply (corep_true core x). apply Ha. exact Hx.
Qed.

Definition hdcore (l : list bytes) : Prop :=
  match l with [] => True | x :: _ => cp x = true end.

Fixpoint nadj (l : list bytes) : Prop :=
  match l with
  | [] => True
  | x :: r => (cp x = true \/ hdcore r) /\ nadj r
  end.

Lemma nadj_len_aux : forall l, nadj l ->
  zlen l <= 2 * cc l + 1 /\ (hdcore l -> zlen l <= 2 * cc l).
Proof.
  induction l as [|x r IH]; intros Hn.
  - unfold cc. cbn [filter]. rewrite zlen_nil. lia.
  - cbn [nadj] in Hn. destruct Hn as [Hx Hr]. destruct (IH Hr) as [IH1 IH2].
    rewrite zlen_cons. unfold cc in *. cbn [filter hdcore].
    destruct (cp x) eqn:Ex.
    + rewrite zlen_cons. lia.
    + destruct Hx as [Hx|Hx]; [discriminate Hx|]. specialize (IH2 Hx).
      split; [lia | intros Hc; discriminate Hc].
Qed.

Lemma nadj_len : forall l, nadj l -> zlen l <= 2 * cc l + 1.
Proof. intros l H. apply (nadj_len_aux l H). Qed.

(* strategy-side invariant: the atoms at positions >= chunk_end (T) are the survivors of this
   sweep *)
Definition PI (st : mstate) (best : tcase) : Prop :=
  pow2 (m_chunk_size st) /\
  exists H T, tc_parts best = H ++ T /\ zlen H = m_chunk_end st /\
    (2 < m_chunk_size st -> zlen T <= m_chunk_size st * cc T) /\
    (m_chunk_size st = 2 -> nadj T /\ forall A x, H = A ++ [x] -> nadj (x :: T)) /\
    (m_chunk_size st = 1 -> Forall (fun p => cp p = true) T).

(* potential: an upper bound on the number of proposals still to come *)
Definition Phi (st : mstate) (best : tcase) : Z :=
  let c := m_chunk_size st in
  if c <=? 1 then
    m_chunk_end st + (if m_removed st || negb (forallb cp (tc_parts best)) then m else 0)
  else if c <=? 2 then m_chunk_end st + (3 * m + 1)
  else m_chunk_end st / c + Z.log2 c * (2 * m + 1) + (3 * m + 2).

Lemma Phi_nonneg : forall st best, PI st best -> 0 <= Phi st best.
Proof.
  intros st best (Hp & H & T & _ & HH & _). pose proof m_nonneg as Hm.
  pose proof (zlen_nonneg _ H) as H0. pose proof (MinimizeProofs.pow2_pos _ Hp) as H1.
  unfold Phi. cbv zeta.
  destruct (m_chunk_size st <=? 1) eqn:E1.
  - destruct (m_removed st || negb (forallb cp (tc_parts best))); lia.
  - destruct (m_chunk_size st <=? 2) eqn:E2; [lia|].
    pose proof (Z.log2_nonneg (m_chunk_size st)) as Hl.
    assert (0 <= m_chunk_end st / m_chunk_size st) by (apply Z.div_pos; lia).
    assert (0 <= Z.log2 (m_chunk_size st) * (2 * m + 1)) by (apply Z.mul_nonneg_nonneg; lia).
    lia.
Qed.

(* ---- what acceptance / rejection of "best minus the block M" says about M ---- *)

Lemma blk_false : forall best t A M T,
  sub_reducible tc0 best -> f (content best) = true ->
  tc_parts best = (A ++ M) ++ T -> sub_reducible tc0 t -> tc_parts t = A ++ T ->
  f (content t) = false -> exists x, In x M /\ cp x = true.
Proof.
  intros best t A M T Hsb Hfb Hps Hst Hpt Hf.
  rewrite (Hct t Hst) in Hf. destruct (forallb_false_ex _ _ _ Hf) as [c [Hc Hh]].
  pose proof (c_f_true_core best Hsb Hfb c Hc) as Hin.
  exists c. split; [|apply (corep_true core c); exact Hc].
  rewrite Hps in Hin. apply in_app_or in Hin. destruct Hin as [Hin|Hin].
  - apply in_app_or in Hin. destruct Hin as [Hin|Hin]; [|exact Hin].
    exfalso. assert (Ht : mp_has_atom t c = true)
      by (apply has_atom_true; rewrite Hpt; apply in_or_app; left; exact Hin).
    rewrite Ht in Hh. discriminate Hh.
  - exfalso. assert (Ht : mp_has_atom t c = true)
      by (apply has_atom_true; rewrite Hpt; apply in_or_app; right; exact Hin).
    rewrite Ht in Hh. discriminate Hh.
Qed.

Lemma blk_true : forall best t A M T,
  NoDup (tc_parts best) ->
  tc_parts best = (A ++ M) ++ T -> sub_reducible tc0 t -> tc_parts t = A ++ T ->
  f (content t) = true -> forall x, In x M -> cp x = false.
Proof.
  intros best t A M T Hnd Hps Hst Hpt Hf x Hx.
  destruct (cp x) eqn:Ec; [|reflexivity]. exfalso.
  apply (corep_true core x) in Ec.
  pose proof (c_f_true_core t Hst Hf x Ec) as Hin. rewrite Hpt in Hin.
  rewrite Hps in Hnd. exact (nodup_mid _ A M T x Hnd Hx Hin).
Qed.

Lemma k_of_not_true : forall s o, o <> Tested true -> k_of s o = k_of s Skipped.
Proof.
  intros s o Ho. destruct o as [|b]; [reflexivity|].
  destruct b; [exfalso; apply Ho; reflexivity | reflexivity].
Qed.

Lemma div_sub_self : forall a c, 0 < c -> (a - c) / c = a / c - 1.
Proof.
  intros a c Hc. replace (a - c) with (a + (-1) * c) by lia. rewrite Z.div_add by lia. lia.
Qed.

(* one proposal inside a sweep *)
Lemma in_round : forall s best t,
  MI s best -> PI s best -> sub_reducible tc0 best -> f (content best) = true ->
  m_chunk_size s <= m_chunk_end s ->
  rmslice best (fst (block_of s)) (m_chunk_end s) = Ok t ->
  (f (content t) = false -> forall o, o <> Tested true ->
     PI (k_of s o) best /\ Phi (k_of s o) best + 1 <= Phi s best) /\
  (f (content t) = true ->
     PI (k_of s (Tested true)) t /\ Phi (k_of s (Tested true)) t + 1 <= Phi s best).
Proof.
  intros s best t HM HP Hsb Hfb Hle Hrm.
  pose proof (c_sub_BF best Hsb) as HB.
  destruct HP as (Hp & H & T & Hps & HH & I4 & I2 & I1).
  pose proof (mi_cs _ _ HM) as Hc1. pose proof (mi_ce _ _ HM) as Hce.
  pose proof m_nonneg as Hm0.
  destruct (split_tail _ H (m_chunk_size s) ltac:(lia)) as (A & M & HAM & HlM & HlA).
  subst H. rewrite HH in HlA.
  assert (Hst : fst (block_of s) = m_chunk_end s - m_chunk_size s)
    by (unfold block_of; cbn [fst]; lia).
  rewrite Hst in Hrm.
  destruct (c_rm_parts best (m_chunk_end s - m_chunk_size s) (m_chunk_end s) t HB ltac:(lia) Hce Hrm)
    as (Hsubt & Hpt).
  assert (Hpt' : tc_parts t = A ++ T).
  { rewrite Hpt. f_equal.
    - rewrite Hps, <- app_assoc. apply firstn_app_exact. exact HlA.
    - rewrite Hps. apply skipn_app_exact. exact HH. }
  clear Hpt.
  destruct s as [cs mc ce rm dl rd ph].
  cbn [m_chunk_size m_chunk_end] in *.
  assert (HlM' : zlen M - cs = 0) by lia. clear HlM. rename HlM' into HlM.
  split.
  - (* rejected or skipped *)
    intros Hf o Ho. rewrite (k_of_not_true _ o Ho). unfold k_of.
    destruct (blk_false best t A M T Hsb Hfb Hps Hsubt Hpt' Hf) as (x & HxM & Hxc).
    destruct (pow2_cases cs Hp) as [E|[E|E]].
    + (* size 1 *)
      subst cs. destruct M as [|y [|z M]]; rewrite ?zlen_cons, ?zlen_nil in HlM;
        try (pose proof (zlen_nonneg _ M)); try lia.
      destruct HxM as [HxM|[]]. subst y.
      split.
      * split; [exact Hp|]. cbn [m_chunk_size m_chunk_end]. change (1 <=? 2) with true. cbv iota.
        exists A, (x :: T). split; [rewrite Hps, <- app_assoc; reflexivity|].
        split; [lia|]. split; [lia|]. split; [lia|].
        intros _. constructor; [exact Hxc | apply I1; reflexivity].
      * unfold Phi. cbn [m_chunk_size m_chunk_end m_removed]. change (1 <=? 2) with true.
        change (1 <=? 1) with true. cbv iota. lia.
    + (* size 2 *)
      subst cs. destruct M as [|x1 [|y [|z M]]]; rewrite ?zlen_cons, ?zlen_nil in HlM;
        try (pose proof (zlen_nonneg _ M)); try lia.
      destruct (I2 eq_refl) as [HnT HnH].
      assert (HnyT : nadj (y :: T)).
      { apply (HnH (A ++ [x1])). rewrite <- app_assoc. reflexivity. }
      split.
      * split; [exact Hp|]. cbn [m_chunk_size m_chunk_end]. change (2 <=? 2) with true. cbv iota.
        exists (A ++ [x1]), (y :: T). split; [rewrite Hps, <- !app_assoc; reflexivity|].
        split; [rewrite zlen_app, zlen_cons, zlen_nil; lia|]. split; [lia|]. split; [|lia].
        intros _. split; [exact HnyT|].
        intros A' z Hz. apply app_inj_tail in Hz. destruct Hz as [_ Hz]. subst z.
        cbn [nadj]. split; [|exact HnyT]. cbn [hdcore].
        destruct HxM as [E|[E|[]]]; subst x; [left | right]; exact Hxc.
      * unfold Phi. cbn [m_chunk_size m_chunk_end m_removed]. change (2 <=? 2) with true.
        change (2 <=? 1) with false. cbv iota. lia.
    + (* size >= 4 *)
      split.
      * split; [exact Hp|]. cbn [m_chunk_size m_chunk_end].
        replace (cs <=? 2) with false by lia. cbv iota.
        exists A, (M ++ T). split; [rewrite Hps, <- app_assoc; reflexivity|].
        split; [lia|]. split; [|split; lia].
        intros _. rewrite zlen_app, cc_app.
        pose proof (cc_pos M x HxM Hxc) as H1. specialize (I4 ltac:(lia)). nia.
      * unfold Phi. cbn [m_chunk_size m_chunk_end m_removed].
        replace (cs <=? 1) with false by lia. replace (cs <=? 2) with false by lia.
        rewrite div_sub_self by lia. lia.
  - (* accepted *)
    intros Hf. unfold k_of, block_of. cbn [fst m_chunk_size m_chunk_end].
    pose proof (blk_true best t A M T (bf_nd _ _ _ HB) Hps Hsubt Hpt' Hf) as HM0.
    replace (Z.max 0 (ce - cs)) with (ce - cs) by lia.
    split.
    + split; [exact Hp|]. cbn [m_chunk_size m_chunk_end].
      exists A, T. split; [exact Hpt'|]. split; [lia|]. split; [exact I4|]. split; [|exact I1].
      intros E. subst cs. destruct (I2 eq_refl) as [HnT HnH]. split; [exact HnT|].
      intros A' z Hz.
      destruct M as [|x1 [|y [|z' M]]]; rewrite ?zlen_cons, ?zlen_nil in HlM;
        try (pose proof (zlen_nonneg _ M)); try lia.
      assert (HnyT : nadj (y :: T)).
      { apply (HnH (A ++ [x1])). rewrite <- app_assoc. reflexivity. }
      cbn [nadj] in HnyT. destruct HnyT as [[Hy|Hy] _].
      * rewrite (HM0 y) in Hy by (right; left; reflexivity). discriminate Hy.
      * cbn [nadj]. split; [right; exact Hy | exact HnT].
    + unfold Phi. cbn [m_chunk_size m_chunk_end m_removed].
      destruct (pow2_cases cs Hp) as [E|[E|E]].
      * subst cs. change (1 <=? 1) with true. cbv iota. cbn [orb].
        destruct M as [|y [|z M]]; rewrite ?zlen_cons, ?zlen_nil in HlM;
          try (pose proof (zlen_nonneg _ M)); try lia.
        assert (Hfa : forallb cp (tc_parts best) = false).
        { destruct (forallb cp (tc_parts best)) eqn:Efa; [|reflexivity].
          rewrite forallb_forall in Efa.
          pose proof (HM0 y (or_introl eq_refl)) as Hy. rewrite (Efa y) in Hy.
          - discriminate Hy.
          - rewrite Hps. apply in_or_app. left. apply in_or_app. right. left. reflexivity. }
        rewrite Hfa. cbn [negb]. rewrite orb_true_r. lia.
      * subst cs. change (2 <=? 1) with false. change (2 <=? 2) with true. cbv iota. lia.
      * replace (cs <=? 1) with false by lia. replace (cs <=? 2) with false by lia.
        rewrite div_sub_self by lia. lia.
Qed.

(* the round-end decision with the default configuration *)
Lemma decide_default : forall s best s', MI s best ->
  decide_state default_cfg s best = Some s' ->
  m_chunk_end s' = tc_len best /\ m_removed s' = false /\
  ((m_chunk_size s = 1 /\ m_removed s = true /\ m_chunk_size s' = 1) \/
   (1 < m_chunk_size s /\
    m_chunk_size s' = halve (halve_fuel (m_chunk_size s)) (m_chunk_size s) (tc_len best))).
Proof.
  intros s best s' HM Hd. pose proof (mi_cs _ _ HM) as Hc1. pose proof (mi_min _ _ HM) as Hmin.
  unfold decide_state in Hd. rewrite Hmin in Hd.
  change (c_repeat default_cfg) with Last in Hd.
  cbn [repeats_last_or_always is_always] in Hd.
  destruct (m_chunk_size s <=? 1) eqn:E1.
  - rewrite andb_true_r in Hd. destruct (m_removed s) eqn:Er; [|discriminate Hd].
    injection Hd as Hd. subst s'. cbn [m_chunk_end m_removed m_chunk_size].
    split; [reflexivity|]. split; [reflexivity|]. left. lia.
  - rewrite andb_false_r in Hd. cbn [andb] in Hd.
    injection Hd as Hd. subst s'. cbn [m_chunk_end m_removed m_chunk_size].
    split; [reflexivity|]. split; [reflexivity|]. right. split; [lia | reflexivity].
Qed.

Lemma PI_fresh : forall s best, pow2 (m_chunk_size s) -> m_chunk_end s = zlen (tc_parts best) ->
  PI s best.
Proof.
  intros s best Hp He. split; [exact Hp|].
  exists (tc_parts best), []. split; [symmetry; apply app_nil_r|]. split; [symmetry; exact He|].
  pose proof (MinimizeProofs.pow2_pos _ Hp) as H1.
  split; [intros _; unfold cc; cbn [filter]; rewrite zlen_nil; lia|].
  split; [|intros _; constructor].
  intros _. split; [exact I|]. intros A x _. cbn [nadj hdcore]. split; [right; exact I | exact I].
Qed.

(* the end of a sweep: the state with which the next sweep starts *)
Lemma round_change : forall s best s',
  MI s best -> PI s best -> sub_reducible tc0 best ->
  m_chunk_end s < m_chunk_size s -> tc_len best <> 0 ->
  decide_state default_cfg s best = Some s' ->
  PI s' best /\ Phi s' best <= Phi s best /\ m_chunk_size s' <= m_chunk_end s'.
Proof.
  intros s best s' HM HP Hsb Hlt HL Hd.
  pose proof (c_sub_BF best Hsb) as HB.
  pose proof (tc_len_nonneg best (bf_wf _ _ _ HB)) as HL0.
  pose proof (bf_len _ _ _ HB) as Hlen. pose proof (bf_nd _ _ _ HB) as Hnd.
  pose proof m_nonneg as Hm0.
  destruct (decide_default s best s' HM Hd) as (Hce' & Hrm' & Hsz).
  destruct HP as (Hp & H & T & Hps & HH & I4 & I2 & I1).
  pose proof (zlen_nonneg _ H) as HH0.
  assert (HndT : NoDup T) by (rewrite Hps in Hnd; apply nodup_app_r in Hnd; exact Hnd).
  assert (HlenHT : tc_len best = m_chunk_end s + zlen T) by (rewrite Hlen, Hps, zlen_app; lia).
  destruct Hsz as [(Hc & Hr & Hc')|(Hc & Hc')].
  - (* repeat at size 1 *)
    assert (Hp' : pow2 (m_chunk_size s')) by (rewrite Hc'; apply pow2_1).
    split; [apply PI_fresh; [exact Hp' | lia]|]. split; [|lia].
    assert (HH' : H = []).
    { destruct H as [|h H]; [reflexivity|]. rewrite zlen_cons in HH.
      pose proof (zlen_nonneg _ H). lia. }
    subst H. cbn [app] in Hps. specialize (I1 Hc).
    assert (Hall : forallb cp (tc_parts best) = true).
    { rewrite Hps. apply forallb_forall. rewrite Forall_forall in I1. exact I1. }
    pose proof (allcore_len T HndT I1) as HTm.
    unfold Phi. rewrite Hc, Hc', Hr, Hrm', Hall, Hce'. change (1 <=? 1) with true. cbv iota.
    cbn [orb negb]. rewrite zlen_nil in HH. lia.
  - pose proof (halve_facts (m_chunk_size s) (tc_len best) Hp Hc) as Hh. cbv zeta in Hh.
    rewrite <- Hc' in Hh. destruct Hh as (Hp' & Hd2 & Hskip & Hstop).
    pose proof (MinimizeProofs.pow2_pos _ Hp') as H1'.
    split; [apply PI_fresh; [exact Hp' | lia]|]. split; [|lia].
    assert (Hg : forall b : bool, (if b then m else 0) <= m) by (intros b; destruct b; lia).
    destruct (pow2_cases _ Hp) as [E|[E|E]]; [lia| |].
    + (* from size 2 to size 1 *)
      assert (E' : m_chunk_size s' = 1) by lia.
      destruct (I2 E) as [HnT HnH].
      assert (Hnps : nadj (tc_parts best)).
      { rewrite Hps. destruct H as [|h [|h2 H]].
        - exact HnT.
        - apply (HnH [] h). reflexivity.
        - rewrite !zlen_cons in HH. pose proof (zlen_nonneg _ H). lia. }
      pose proof (nadj_len _ Hnps) as Hl2. pose proof (cc_le_m _ Hnd) as Hl3.
      unfold Phi. rewrite E, E', Hce', Hrm'. change (1 <=? 1) with true.
      change (2 <=? 1) with false. change (2 <=? 2) with true. cbv iota. cbn [orb].
      specialize (Hg (negb (forallb cp (tc_parts best)))). lia.
    + (* from a size >= 4 *)
      specialize (I4 ltac:(lia)). pose proof (cc_le_m _ HndT) as HcT.
      pose proof (cc_nonneg T) as HcT0.
      assert (HLb : tc_len best < m_chunk_size s * (m + 1)) by nia.
      assert (Hdiv0 : m_chunk_end s / m_chunk_size s = 0) by (apply Z.div_small; lia).
      pose proof (log2_double_le (m_chunk_size s') (m_chunk_size s) ltac:(lia) Hd2) as Hlg.
      pose proof (Z.log2_nonneg (m_chunk_size s')) as Hlg0.
      unfold Phi. rewrite Hce', Hrm', Hdiv0.
      replace (m_chunk_size s <=? 1) with false by lia.
      replace (m_chunk_size s <=? 2) with false by lia. cbn [orb].
      set (c := m_chunk_size s) in *. set (c' := m_chunk_size s') in *.
      set (L := tc_len best) in *.
      assert (H4 : 2 <= Z.log2 c) by (change 2 with (Z.log2 4); apply Z.log2_le_mono; lia).
      destruct (pow2_cases _ Hp') as [E'|[E'|E']].
      * (* to size 1: sizes were skipped *)
        replace (c' <=? 1) with true by lia.
        specialize (Hg (negb (forallb cp (tc_parts best)))).
        assert (HL2 : L <= 2) by lia.
        assert (2 * (2 * m + 1) <= Z.log2 c * (2 * m + 1)) by nia. lia.
      * (* to size 2 *)
        replace (c' <=? 1) with false by lia. replace (c' <=? 2) with true by lia.
        destruct Hskip as [Hs|[Hs HLs]].
        -- assert (Ec : c = 4) by lia. rewrite Ec in *. change (Z.log2 4) with 2. lia.
        -- assert (H8 : 3 <= Z.log2 c).
           { change 3 with (Z.log2 8). apply Z.log2_le_mono. lia. }
           assert (3 * (2 * m + 1) <= Z.log2 c * (2 * m + 1)) by nia. lia.
      * (* to a size >= 4 *)
        replace (c' <=? 1) with false by lia. replace (c' <=? 2) with false by lia.
        destruct Hskip as [Hs|[Hs HLs]].
        -- assert (Hq : L / c' < 2 * m + 2) by (apply Z.div_lt_upper_bound; nia).
           assert (Hlg' : Z.log2 c = Z.log2 c' + 1).
           { rewrite <- Hs. rewrite Z.log2_double by lia. lia. }
           rewrite Hlg'. lia.
        -- assert (Hq : L / c' < 3) by (apply Z.div_lt_upper_bound; lia).
           pose proof (log2_double_le (2 * c') c ltac:(lia) ltac:(lia)) as Hlg2.
           rewrite Z.log2_double in Hlg2 by lia.
           assert ((Z.log2 c' + 2) * (2 * m + 1) <= Z.log2 c * (2 * m + 1)) by nia. lia.
Qed.

(* ---- the driver loop ---- *)

Lemma mono_shape : forall clk s best t k, MI s best -> wf best ->
  mnext default_cfg clk no_post s best = Propose t k ->
  exists s', k = k_of s' /\ rmslice best (fst (block_of s')) (m_chunk_end s') = Ok t /\
    MI s' best /\
    ((s' = s /\ m_chunk_size s <= m_chunk_end s) \/
     (m_chunk_end s < m_chunk_size s /\ tc_len best <> 0 /\
      decide_state default_cfg s best = Some s')).
Proof.
  intros clk s best t k HM Hwf Hn. rewrite (mnext_MI default_cfg clk s best HM) in Hn.
  destruct (m_chunk_end s - m_chunk_size s <? 0) eqn:E1.
  - destruct (tc_len best =? 0) eqn:E2; [discriminate Hn|].
    unfold decide in Hn.
    destruct (decide_state default_cfg s best) as [s'|] eqn:Ed; [|discriminate Hn].
    rewrite propose_chunk_eq in Hn.
    destruct (rmslice best (fst (block_of s')) (m_chunk_end s')) as [t1|e] eqn:Er;
      [|discriminate Hn].
    injection Hn as Ht Hk. subst t1. exists s'. split; [symmetry; exact Hk|].
    split; [exact Er|].
    destruct (decide_state_MI default_cfg s best s' HM Ed) as (HM' & _).
    split; [exact HM'|]. right. split; [lia|]. split; [lia | reflexivity].
  - rewrite propose_chunk_eq in Hn.
    destruct (rmslice best (fst (block_of s)) (m_chunk_end s)) as [t1|e] eqn:Er;
      [|discriminate Hn].
    injection Hn as Ht Hk. subst t1. exists s. split; [symmetry; exact Hk|].
    split; [exact Er|]. split; [exact HM|]. left. split; [reflexivity | lia].
Qed.

Definition Psi (a : lstate mstate) : Z :=
  match a with LS st it w => n_tests (chron w) + Phi st (it_best it) end.
Definition on_PI (a : lstate mstate) : Prop :=
  match a with LS st it _ => PI st (it_best it) end.

Lemma mono_step : forall clk a b,
  lstep (minimize default_cfg clk no_post) (det f) a b ->
  on_KI f default_cfg tc0 a -> on_PI a -> on_PI b /\ Psi b <= Psi a.
Proof.
  intros clk a b Hstep. destruct Hstep as
    [st it w b0 st' Hn | st it w t k Hn Hm | st it w t k w' Hn Hm Hi | st it w t k w' Hn Hm Hi];
    cbn [on_KI on_PI Psi]; intros (HJ & HI & HL) HP;
    change (s_next (minimize default_cfg clk no_post) st (it_best it))
      with (mnext default_cfg clk no_post st (it_best it)) in Hn;
    pose proof (ji_wf _ _ _ HJ) as Hwf.
  - exfalso.
    destruct (mnext_shape default_cfg clk st (it_best it) HI Hwf)
      as [(Hd & _)|(s' & t0 & _ & _ & _ & _ & Hp)]; rewrite Hn in *; discriminate.
  - (* skipped *)
    destruct (mono_shape clk st (it_best it) t k HI Hwf Hn) as (s' & Hk & Hrm & HI' & Hcase).
    subst k.
    assert (Hpre : PI s' (it_best it) /\ Phi s' (it_best it) <= Phi st (it_best it) /\
                   m_chunk_size s' <= m_chunk_end s').
    { destruct Hcase as [[E Hle]|(Hlt & HL0 & Hd)].
      - subst s'. split; [exact HP|]. split; [lia | exact Hle].
      - exact (round_change st (it_best it) s' HI HP (ji_sub _ _ _ HJ) Hlt HL0 Hd). }
    destruct Hpre as (HP' & HPhi & Hle).
    destruct (in_round s' (it_best it) t HI' HP' (ji_sub _ _ _ HJ) (ji_f _ _ _ HJ) Hle Hrm)
      as [Hrej _].
    assert (Hf : f (content t) = false).
    { pose proof Hrm as Hrm0. unfold block_of in Hrm0. cbn [fst] in Hrm0.
      pose proof (mi_cs _ _ HI') as Hc1.
      assert (Hce1 : 1 <= m_chunk_end s') by lia.
      destruct (mm_block (it_best it) _ _ t Hwf Hc1
                  (conj Hce1 (mi_ce _ _ HI')) Hrm0) as (_ & _ & _ & Hlt).
      specialize (Hlt (ji_ne _ _ _ HJ)).
      destruct (f (content t)) eqn:E; [|reflexivity].
      apply mem_bytes_In in Hm. pose proof (ji_tried _ _ _ HJ _ Hm E). lia. }
    destruct (Hrej Hf Skipped ltac:(discriminate)) as [HP2 HPhi2].
    split; [exact HP2 | lia].
  - (* accepted *)
    destruct (mono_shape clk st (it_best it) t k HI Hwf Hn) as (s' & Hk & Hrm & HI' & Hcase).
    subst k.
    assert (Hpre : PI s' (it_best it) /\ Phi s' (it_best it) <= Phi st (it_best it) /\
                   m_chunk_size s' <= m_chunk_end s').
    { destruct Hcase as [[E Hle]|(Hlt & HL0 & Hd)].
      - subst s'. split; [exact HP|]. split; [lia | exact Hle].
      - exact (round_change st (it_best it) s' HI HP (ji_sub _ _ _ HJ) Hlt HL0 Hd). }
    destruct Hpre as (HP' & HPhi & Hle).
    destruct (in_round s' (it_best it) t HI' HP' (ji_sub _ _ _ HJ) (ji_f _ _ _ HJ) Hle Hrm)
      as [_ Hacc].
    destruct (Hacc (det_yes f _ _ _ Hi)) as [HP2 HPhi2].
    destruct (interesting_true_inv _ _ _ _ _ Hi) as [_ Hw']. subst w'.
    rewrite MinimizeBound.n_tests_wafter. cbn [it_best].
    split; [exact HP2 | lia].
  - (* rejected *)
    destruct (mono_shape clk st (it_best it) t k HI Hwf Hn) as (s' & Hk & Hrm & HI' & Hcase).
    subst k.
    assert (Hpre : PI s' (it_best it) /\ Phi s' (it_best it) <= Phi st (it_best it) /\
                   m_chunk_size s' <= m_chunk_end s').
    { destruct Hcase as [[E Hle]|(Hlt & HL0 & Hd)].
      - subst s'. split; [exact HP|]. split; [lia | exact Hle].
      - exact (round_change st (it_best it) s' HI HP (ji_sub _ _ _ HJ) Hlt HL0 Hd). }
    destruct Hpre as (HP' & HPhi & Hle).
    destruct (in_round s' (it_best it) t HI' HP' (ji_sub _ _ _ HJ) (ji_f _ _ _ HJ) Hle Hrm)
      as [Hrej _].
    destruct (Hrej (det_no f _ _ _ Hi) (Tested false) ltac:(discriminate)) as [HP2 HPhi2].
    destruct (interesting_true_inv _ _ _ _ _ Hi) as [_ Hw']. subst w'.
    rewrite MinimizeBound.n_tests_wafter. cbn [it_best].
    split; [exact HP2 | lia].
Qed.

Lemma mono_steps : forall clk a b,
  lsteps (minimize default_cfg clk no_post) (det f) a b ->
  on_KI f default_cfg tc0 a -> on_PI a ->
  on_KI f default_cfg tc0 b /\ on_PI b /\ Psi b <= Psi a.
Proof.
  intros clk a b Hs. induction Hs as [s|a b c Hab Hbc IH]; intros HK HP.
  - split; [exact HK|]. split; [exact HP | lia].
  - destruct (mono_step clk a b Hab HK HP) as [HPb Hle].
    pose proof (KI_step f default_cfg clk tc0 a b Hab HK) as HKb.
    destruct (IH HKb HPb) as (HKc & HPc & Hle2).
    split; [exact HKc|]. split; [exact HPc | lia].
Qed.

Lemma pow2_30 : pow2 (2 ^ 30).
Proof. exists 30. split; [lia | reflexivity]. Qed.

Theorem mono_run_bound : forall clk fuel, tc_len tc0 <> 0 ->
  n_tests (chron (result_world
    (run (minimize default_cfg clk no_post) (det f) fuel tc0 (content tc0))))
  <= 1 + Phi (mstart default_cfg clk tc0) tc0.
Proof.
  intros clk fuel Hlen.
  pose proof (det_first_yes f (content tc0) c_f_tc0) as Hv.
  destruct (run_cases mstate (minimize default_cfg clk no_post) (det f) fuel tc0 (content tc0))
    as [[Hl _]|[(_ & Hv' & _)|[(_ & Hv' & _)|(_ & _ & He)]]].
  - exfalso. exact (Hlen Hl).
  - rewrite Hv in Hv'. discriminate Hv'.
  - rewrite Hv in Hv'. discriminate Hv'.
  - cbn [s_start minimize] in He. rewrite He.
    pose proof (c_sub_BF tc0 (sub_reducible_refl tc0 Hwf0)) as HB0.
    destruct (mstart_MI default_cfg clk tc0 eq_refl eq_refl eq_refl) as [HI0 Hce0].
    assert (HK0 : on_KI f default_cfg tc0
                    (LS (mstart default_cfg clk tc0) (it0 tc0) (wY tc0 (content tc0)))).
    { cbn [on_KI]. split; [|split].
      - constructor; cbn [it0 it_best it_tried].
        + exact Hwf0.
        + exact Hne0.
        + apply sub_reducible_refl. exact Hwf0.
        + exact c_f_tc0.
        + intros c Hc. destruct Hc.
      - exact HI0.
      - apply LSP_fresh. exact Hce0. }
    assert (HP0 : on_PI (LS (mstart default_cfg clk tc0) (it0 tc0) (wY tc0 (content tc0)))).
    { cbn [on_PI it0 it_best]. apply PI_fresh.
      - change (m_chunk_size (mstart default_cfg clk tc0))
          with (Z.min (2 ^ 30) (largest_power_of_two_smaller_than (tc_len tc0))).
        apply pow2_min; [exact pow2_30|].
        apply (lpo2st_gen (tc_len tc0)). apply tc_len_nonneg. exact Hwf0.
      - rewrite Hce0. exact (bf_len _ _ _ HB0). }
    destruct (loop_follows_lsteps mstate (minimize default_cfg clk no_post) (det f) fuel
                (mstart default_cfg clk tc0) (it0 tc0) (wY tc0 (content tc0)) _ eq_refl)
      as (st' & it' & w' & Hs & Hfin).
    destruct (mono_steps clk _ _ Hs HK0 HP0) as (_ & HPf & Hle).
    cbn [on_PI Psi it0 it_best] in HPf, Hle.
    change (n_tests (chron (wY tc0 (content tc0)))) with 1 in Hle.
    pose proof (Phi_nonneg st' (it_best it') HPf) as Hnn.
    destruct (loop (minimize default_cfg clk no_post) (det f) fuel (mstart default_cfg clk tc0)
                   (it0 tc0) (wY tc0 (content tc0))) as [rc wf1|[e|] wf1|wf1] eqn:EL;
      cbn [map_world result_world].
    + destruct Hfin as (_ & Hwf1 & _). subst wf1.
      rewrite MinimizeBound.n_tests_finally, MinimizeBound.n_tests_write_file. lia.
    + destruct Hfin as (_ & Hwf1). subst wf1. rewrite MinimizeBound.n_tests_finally. lia.
    + exfalso. exact (det_loop_not_raise _ _ _ _ _ _ _ _ EL).
    + subst wf1. lia.
Qed.

(* the potential of the initial state *)
Lemma Phi_start : forall clk, 1 <= tc_len tc0 ->
  1 + Phi (mstart default_cfg clk tc0) tc0
  <= mp_c10_bound (tc_len tc0) m +
     (if tc_len tc0 <=? 2 ^ 31 then 0 else tc_len tc0 / 2 ^ 30).
Proof.
  intros clk Hn. pose proof m_nonneg as Hm0.
  pose proof (MinimizeBound.clog2_nonneg (tc_len tc0)) as Hcl0.
  unfold Phi.
  change (m_chunk_size (mstart default_cfg clk tc0))
    with (Z.min (2 ^ 30) (largest_power_of_two_smaller_than (tc_len tc0))).
  change (m_chunk_end (mstart default_cfg clk tc0)) with (tc_len tc0).
  change (m_removed (mstart default_cfg clk tc0)) with false.
  cbn [orb]. unfold mp_c10_bound.
  set (n := tc_len tc0) in *. set (lp := largest_power_of_two_smaller_than n).
  destruct (lpo2st_gen n ltac:(lia)) as (Hplp & Hle2 & Hlt). fold lp in Hplp, Hle2, Hlt.
  assert (H1n : n = 1 -> lp = 1) by (intros E; unfold lp; rewrite E; reflexivity).
  assert (Hg : forall b : bool, (if b then m else 0) <= m) by (intros b; destruct b; lia).
  assert (Hprod : 0 <= (2 * m + 1) * clog2 n) by (apply Z.mul_nonneg_nonneg; lia).
  assert (Hlgn : Z.log2 n <= clog2 n) by (apply MinimizeBound.log2_le_clog2; lia).
  assert (Hsmall : lp <= 2 ^ 30 ->
    1 + (if lp <=? 1 then n + (if negb (forallb cp (tc_parts tc0)) then m else 0)
         else if lp <=? 2 then n + (3 * m + 1)
         else n / lp + Z.log2 lp * (2 * m + 1) + (3 * m + 2))
    <= (2 * m + 1) * clog2 n + 5 * m + 8).
  { intros _. specialize (Hg (negb (forallb cp (tc_parts tc0)))).
    destruct (pow2_cases lp Hplp) as [E|[E|E]].
    - replace (lp <=? 1) with true by lia. lia.
    - replace (lp <=? 1) with false by lia. replace (lp <=? 2) with true by lia. lia.
    - replace (lp <=? 1) with false by lia. replace (lp <=? 2) with false by lia.
      assert (Hq : n / lp <= 2) by (apply Z.div_le_upper_bound; lia).
      assert (Hl : Z.log2 lp <= Z.log2 n) by (apply Z.log2_le_mono; lia).
      assert (Z.log2 lp * (2 * m + 1) <= clog2 n * (2 * m + 1))
        by (apply Z.mul_le_mono_nonneg_r; lia).
      lia. }
  destruct (Z.le_gt_cases lp (2 ^ 30)) as [Hlp|Hlp].
  - rewrite Z.min_r by exact Hlp. specialize (Hsmall Hlp).
    destruct (n <=? 2 ^ 31) eqn:En; [lia|].
    assert (0 <= n / 2 ^ 30) by (apply Z.div_pos; lia). lia.
  - rewrite Z.min_l by lia.
    assert (Hn31 : 2 ^ 31 < n).
    { pose proof (pow2_lt_double (2 ^ 30) lp pow2_30 Hplp ltac:(lia)) as Hd.
      change (2 * 2 ^ 30) with (2 ^ 31) in Hd. specialize (Hlt ltac:(lia)). lia. }
    replace (n <=? 2 ^ 31) with false by lia.
    change (2 ^ 30 <=? 1) with false. change (2 ^ 30 <=? 2) with false. cbv iota.
    change (Z.log2 (2 ^ 30)) with 30.
    assert (Hl : 31 <= Z.log2 n).
    { change 31 with (Z.log2 (2 ^ 31)). apply Z.log2_le_mono. lia. }
    assert (30 * (2 * m + 1) <= clog2 n * (2 * m + 1)) by (apply Z.mul_le_mono_nonneg_r; lia).
    lia.
Qed.

End Count.

(* The bound for every length: the reducer starts at chunk size min(2^30, ...), so above 2^31
   atoms the first sweep alone makes tc_len / 2^30 proposals. *)
Theorem minimize_monotone_test_count_general :
  forall cfg clk f tc0 core fuel,
    wf tc0 -> Forall (fun p => p <> []) (tc_parts tc0) -> NoDup (tc_parts tc0) ->
    Forall (fun r => r = true) (tc_red tc0) ->
    (forall c, In c core -> In c (tc_parts tc0)) -> mp_core_test f tc0 core ->
    cfg = default_cfg -> tc_len tc0 <> 0 ->
    n_tests (chron (result_world (run (minimize cfg clk no_post) (det f) fuel tc0 (content tc0))))
      <= mp_c10_bound (tc_len tc0) (zlen core) +
         (if tc_len tc0 <=? 2 ^ 31 then 0 else tc_len tc0 / 2 ^ 30).
Proof.
  intros cfg clk f tc0 core fuel Hwf Hne Hnd Hred Hcore Hct Hcfg Hlen. subst cfg.
  assert (H1 : 1 <= tc_len tc0) by (pose proof (tc_len_nonneg tc0 Hwf); lia).
  eapply Z.le_trans; [apply (mono_run_bound f tc0 core); assumption|].
  apply Phi_start. exact H1.
Qed.

(* the statement of Props/C10.v (C10_test_count) with the missing hypothesis
   tc_len tc0 <= 2^31 *)
Theorem minimize_monotone_test_count_corrected :
  forall cfg clk f tc0 core fuel,
    wf tc0 -> Forall (fun p => p <> []) (tc_parts tc0) -> NoDup (tc_parts tc0) ->
    Forall (fun r => r = true) (tc_red tc0) ->
    NoDup core -> (forall c, In c core -> In c (tc_parts tc0)) -> mp_core_test f tc0 core ->
    cfg = default_cfg -> tc_len tc0 <> 0 -> tc_len tc0 <= 2 ^ 31 ->
    (Z.to_nat (2 * c09_bound (tc_len tc0)) <= fuel)%nat ->
    n_tests (chron (result_world (run (minimize cfg clk no_post) (det f) fuel tc0 (content tc0))))
      <= mp_c10_bound (tc_len tc0) (zlen core).
Proof.
  intros cfg clk f tc0 core fuel Hwf Hne Hnd Hred _ Hcore Hct Hcfg Hlen Hmax _.
  pose proof (minimize_monotone_test_count_general cfg clk f tc0 core fuel Hwf Hne Hnd Hred
                Hcore Hct Hcfg Hlen) as H.
  replace (tc_len tc0 <=? 2 ^ 31) with true in H by lia. lia.
Qed.

(* ------------------------------------------------------------------ *)
(* The statement without the length hypothesis is false               *)
(* ------------------------------------------------------------------ *)
(* n = 50 * 2^30 atoms, empty core (test always true): the first sweep runs at chunk size 2^30
   and makes 50 accepted proposals, so the run makes 51 tests, but
   c10_bound n 0 = clog2 n + 8 = 44.  (Far too large to evaluate: proved symbolically.) *)

Lemma loop_tests_mono : forall S (strat : strategy S) verdict fuel st it w,
  n_tests (chron w) <= n_tests (chron (result_world (loop strat verdict fuel st it w))).
Proof.
  intros S strat verdict. induction fuel as [|fuel IH]; intros st it w; cbn [loop].
  - cbn [result_world]. lia.
  - destruct (s_next strat st (it_best it)) as [t k|b st'| |e].
    + destruct (mem_bytes (content t) (it_tried it)); [apply IH|].
      destruct (interesting verdict w t true) as [w' a] eqn:Hi.
      destruct (interesting_true_inv _ _ _ _ _ Hi) as [_ Hw]. subst w'.
      pose proof (MinimizeBound.n_tests_wafter w t a) as Hn.
      destruct a.
      * eapply Z.le_trans; [|apply IH]. lia.
      * eapply Z.le_trans; [|apply IH]. lia.
      * cbn [result_world]. lia.
    + eapply Z.le_trans; [|apply IH]. rewrite MinimizeBound.n_tests_write_file. lia.
    + cbn [result_world]. rewrite MinimizeBound.n_tests_write_file. lia.
    + cbn [result_world]. lia.
Qed.

Lemma first_round_lb : forall clk k fuel st it w,
  (k <= fuel)%nat -> MI st (it_best it) -> wf (it_best it) ->
  Forall (fun p : bytes => p <> []) (tc_parts (it_best it)) ->
  m_chunk_size st = 2 ^ 30 -> m_chunk_end st = tc_len (it_best it) ->
  Z.of_nat k * 2 ^ 30 <= tc_len (it_best it) ->
  (forall c, In c (it_tried it) -> (length (content (it_best it)) <= length c)%nat) ->
  n_tests (chron w) + Z.of_nat k <=
  n_tests (chron (result_world
    (loop (minimize default_cfg clk no_post) (det (fun _ => true)) fuel st it w))).
Proof.
  intros clk. induction k as [|k IH]; intros fuel st it w Hfu HM Hwf Hne Hcs Hce Hk Htr.
  - rewrite Z.add_0_r. apply loop_tests_mono.
  - destruct fuel as [|fuel]; [lia|]. cbn [loop].
    change (s_next (minimize default_cfg clk no_post) st (it_best it))
      with (mnext default_cfg clk no_post st (it_best it)).
    rewrite (mnext_MI default_cfg clk st (it_best it) HM).
    replace (m_chunk_end st - m_chunk_size st <? 0) with false by lia.
    rewrite propose_chunk_eq.
    destruct (rmslice_total (it_best it) (fst (block_of st)) (m_chunk_end st) Hwf) as [t Ht].
    rewrite Ht.
    pose proof Ht as Ht0. unfold block_of in Ht0. cbn [fst] in Ht0.
    assert (Hc1 : 1 <= m_chunk_size st) by lia.
    assert (Hce1 : 1 <= m_chunk_end st <= tc_len (it_best it)) by lia.
    destruct (mm_block (it_best it) _ _ t Hwf Hc1 Hce1 Ht0) as (Hwt & Hsub & Hlen & Hlt).
    specialize (Hlt Hne).
    destruct (mem_bytes (content t) (it_tried it)) eqn:Hm.
    { exfalso. apply mem_bytes_In in Hm. pose proof (Htr _ Hm). lia. }
    destruct (interesting (det (fun _ => true)) w t true) as [w' a] eqn:Hi.
    destruct (interesting_true_inv _ _ _ _ _ Hi) as [Ha Hw]. subst w'.
    unfold det in Ha. subst a.
    pose proof (MinimizeBound.n_tests_wafter w t Yes) as Hn.
    eapply Z.le_trans; [|apply IH].
    + lia.
    + lia.
    + cbn [it_best]. exact (k_of_succ_MI st (it_best it) t HM Hwf ltac:(lia) Ht).
    + cbn [it_best]. exact Hwt.
    + cbn [it_best]. exact (mm_sub_reducible_nonempty (it_best it) t Hwf Hsub Hne).
    + unfold k_of. cbn [m_chunk_size]. exact Hcs.
    + unfold k_of, block_of. cbn [m_chunk_end fst it_best]. lia.
    + cbn [it_best]. lia.
    + cbn [it_best it_tried]. intros c [Hc|Hc]; [subst c; lia|].
      pose proof (Htr c Hc). lia.
Qed.

Lemma nodup_map_inj : forall (A B : Type) (g : A -> B) l,
  (forall x y, g x = g y -> x = y) -> NoDup l -> NoDup (map g l).
Proof.
  intros A B g l Hinj Hn. induction Hn as [|x l Hx Hl IH]; cbn [map]; constructor.
  - intros Hin. apply in_map_iff in Hin. destruct Hin as (y & Hy & Hin).
    apply Hinj in Hy. subst y. exact (Hx Hin).
  - exact IH.
Qed.

Section Refute.
Variable bigN : nat.
Hypothesis HbigN : Z.of_nat bigN = 50 * 2 ^ 30.

Definition mono_enc (i : nat) : bytes := [N.of_nat i].
Definition mono_cx : tcase :=
  {| tc_before := []; tc_parts := map mono_enc (seq 0 bigN); tc_red := repeat true bigN;
     tc_after := [] |}.

Lemma mono_cx_wf : wf mono_cx.
Proof. unfold wf, mono_cx. cbn [tc_parts tc_red]. rewrite map_length, seq_length, repeat_length. reflexivity. Qed.

Lemma mono_cx_ne : Forall (fun p : bytes => p <> []) (tc_parts mono_cx).
Proof.
  apply Forall_forall. intros p Hp. cbn [mono_cx tc_parts] in Hp. apply in_map_iff in Hp.
  destruct Hp as (i & Hi & _). subst p. unfold mono_enc. discriminate.
Qed.

Lemma mono_cx_nd : NoDup (tc_parts mono_cx).
Proof.
  cbn [mono_cx tc_parts]. apply nodup_map_inj; [|apply seq_NoDup].
  intros x y H. unfold mono_enc in H. injection H as H. apply Nnat.Nat2N.inj. exact H.
Qed.

Lemma mono_cx_red : Forall (fun r => r = true) (tc_red mono_cx).
Proof.
  apply Forall_forall. intros r Hr. cbn [mono_cx tc_red] in Hr. apply repeat_spec in Hr. exact Hr.
Qed.

Lemma mono_cx_len : tc_len mono_cx = 50 * 2 ^ 30.
Proof.
  unfold tc_len. rewrite (count_false_allT _ mono_cx_red). cbn [mono_cx tc_parts].
  unfold zlen. rewrite map_length, seq_length. lia.
Qed.

Lemma mono_cx_tests : forall clk fuel, (50 <= fuel)%nat ->
  51 <= n_tests (chron (result_world
          (run (minimize default_cfg clk no_post) (det (fun _ => true)) fuel mono_cx
               (content mono_cx)))).
Proof.
  intros clk fuel Hfu. pose proof mono_cx_len as Hlen.
  destruct (run_cases mstate (minimize default_cfg clk no_post) (det (fun _ => true)) fuel
              mono_cx (content mono_cx))
    as [[Hl _]|[(_ & Hv' & _)|[(_ & Hv' & _)|(_ & _ & He)]]].
  - lia.
  - discriminate Hv'.
  - discriminate Hv'.
  - rewrite He. cbn [s_start minimize].
    destruct (mstart_MI default_cfg clk mono_cx eq_refl eq_refl eq_refl) as [HI0 Hce0].
    assert (Hcs0 : m_chunk_size (mstart default_cfg clk mono_cx) = 2 ^ 30).
    { change (m_chunk_size (mstart default_cfg clk mono_cx))
        with (Z.min (2 ^ 30) (largest_power_of_two_smaller_than (tc_len mono_cx))).
      destruct (lpo2st_gen (tc_len mono_cx) ltac:(lia)) as (_ & Hle2 & _). lia. }
    pose proof (first_round_lb clk 50 fuel (mstart default_cfg clk mono_cx) (it0 mono_cx)
                  (wY mono_cx (content mono_cx)) Hfu HI0 mono_cx_wf mono_cx_ne Hcs0 Hce0) as Hlb.
    cbn [it0 it_best it_tried] in Hlb.
    change (n_tests (chron (wY mono_cx (content mono_cx)))) with 1 in Hlb.
    specialize (Hlb ltac:(lia) ltac:(intros c [])).
    destruct (loop (minimize default_cfg clk no_post) (det (fun _ => true)) fuel
                   (mstart default_cfg clk mono_cx) (it0 mono_cx) (wY mono_cx (content mono_cx)))
      as [rc wf1|e wf1|wf1]; cbn [map_world result_world] in *;
      rewrite ?MinimizeBound.n_tests_finally; lia.
Qed.

End Refute.

Theorem minimize_monotone_test_count_false :
  ~ (forall cfg clk f tc0 core fuel,
      wf tc0 -> Forall (fun p => p <> []) (tc_parts tc0) -> NoDup (tc_parts tc0) ->
      Forall (fun r => r = true) (tc_red tc0) ->
      NoDup core -> (forall c, In c core -> In c (tc_parts tc0)) -> mp_core_test f tc0 core ->
      cfg = default_cfg -> tc_len tc0 <> 0 ->
      (Z.to_nat (2 * c09_bound (tc_len tc0)) <= fuel)%nat ->
      n_tests (chron (result_world
        (run (minimize cfg clk no_post) (det f) fuel tc0 (content tc0))))
        <= mp_c10_bound (tc_len tc0) (zlen core)).
Proof.
  intros H.
  assert (HN : Z.of_nat (Z.to_nat (50 * 2 ^ 30)) = 50 * 2 ^ 30) by (apply Z2Nat.id; lia).
  set (bigN := Z.to_nat (50 * 2 ^ 30)) in *.
  pose proof (mono_cx_len bigN HN) as Hlen.
  set (fuel := Z.to_nat (2 * c09_bound (tc_len (mono_cx bigN)))).
  assert (Hc09 : 50 <= c09_bound (tc_len (mono_cx bigN))).
  { rewrite Hlen. unfold c09_bound.
    pose proof (MinimizeBound.clog2_nonneg (50 * 2 ^ 30)). nia. }
  specialize (H default_cfg (fun _ => 0) (fun _ => true) (mono_cx bigN) [] fuel
                (mono_cx_wf bigN) (mono_cx_ne bigN) (mono_cx_nd bigN) (mono_cx_red bigN)
                (NoDup_nil _) ltac:(intros c []) ltac:(intros t _; reflexivity) eq_refl
                ltac:(lia) (le_n _)).
  pose proof (mono_cx_tests bigN HN (fun _ => 0) fuel ltac:(unfold fuel; lia)) as Hlb.
  rewrite Hlen in H. unfold mp_c10_bound in H.
  change (clog2 (50 * 2 ^ 30)) with 36 in H. change (zlen (@nil bytes)) with 0 in H. lia.
Qed.

Print Assumptions minimize_exact_core.
Print Assumptions minimize_monotone_test_count_general.
Print Assumptions minimize_monotone_test_count_corrected.
Print Assumptions minimize_monotone_test_count_false.
