(* Monotone interestingness tests ("interesting exactly when the file still contains the m core
   atoms"): the ddmin-style reducer of Model/Minimize.v returns exactly the core, and does so
   in O(m log n) tests.  Used by Props/C10.v.  No axioms. *)
From Coq Require Import ZArith NArith List Bool Lia ZifyBool.
From Lithium Require Import PyBase TcRecord Util Testcase Spec Driver TraceSpec Minimize StratSpec
  TestcaseProofs DriverProofs MinimizeProofs MinimizeMinimal.
From Lithium Require MinimizeBound.
Import ListNotations.
Open Scope Z_scope.

(* the vocabulary of Props/C10.v, restated (convertible) *)
Definition mp_has_atom (t : tcase) (c : bytes) : bool := existsb (bytes_eqb c) (tc_parts t).
Definition mp_core_test (f : bytes -> bool) (tc0 : tcase) (core : list bytes) : Prop :=
  forall t, sub_reducible tc0 t -> f (content t) = forallb (mp_has_atom t) core.
Definition mp_c10_bound (n m : Z) : Z := (2 * m + 1) * clog2 n + 5 * m + 8.

(* ------------------------------------------------------------------ *)
(* lists                                                              *)
(* ------------------------------------------------------------------ *)

Definition corep (core : list bytes) (p : bytes) : bool := existsb (bytes_eqb p) core.

Lemma corep_true : forall core p, corep core p = true <-> In p core.
Proof.
  intros core p. unfold corep. rewrite existsb_exists. split.
  - intros [x [Hx He]]. apply bytes_eqb_eq in He. subst x. exact Hx.
  - intros H. exists p. split; [exact H | apply bytes_eqb_eq; reflexivity].
Qed.

Lemma has_atom_true : forall t c, mp_has_atom t c = true <-> In c (tc_parts t).
Proof. intros t c. exact (corep_true (tc_parts t) c). Qed.

Lemma forallb_false_ex : forall (A : Type) (p : A -> bool) l,
  forallb p l = false -> exists x, In x l /\ p x = false.
Proof.
  intros A p l. induction l as [|a l IH]; intros H; [discriminate H|].
  cbn [forallb] in H. destruct (p a) eqn:E.
  - cbn [andb] in H. destruct (IH H) as [x [Hx Hp]]. exists x. split; [right; exact Hx | exact Hp].
  - exists a. split; [left; reflexivity | exact E].
Qed.

Lemma nth_split3 : forall (A : Type) (l : list A) (i : nat) (d : A), (i < length l)%nat ->
  l = firstn i l ++ nth i l d :: skipn (S i) l.
Proof.
  intros A l. induction l as [|a l IH]; intros i d Hi; [cbn in Hi; lia|].
  destruct i as [|i]; [reflexivity|].
  cbn [firstn nth skipn app]. f_equal. apply IH. cbn in Hi. lia.
Qed.

Lemma firstn_app_exact : forall (A : Type) (a r : list A) k,
  zlen a = k -> firstn (Z.to_nat k) (a ++ r) = a.
Proof.
  intros A a r k Hk. unfold zlen in Hk. subst k. rewrite Nat2Z.id.
  rewrite firstn_app, Nat.sub_diag, firstn_all. cbn [firstn]. apply app_nil_r.
Qed.

Lemma skipn_app_exact : forall (A : Type) (a r : list A) k,
  zlen a = k -> skipn (Z.to_nat k) (a ++ r) = r.
Proof.
  intros A a r k Hk. unfold zlen in Hk. subst k. rewrite Nat2Z.id.
  rewrite skipn_app, Nat.sub_diag, skipn_all. reflexivity.
Qed.

(* ------------------------------------------------------------------ *)
(* testcases all of whose atoms are reducible                         *)
(* ------------------------------------------------------------------ *)

Definition allT (l : list (bytes * bool)) : Prop := Forall (fun x => snd x = true) l.

Lemma allT_red : forall t, wf t -> (allT (zipped t) <-> Forall (fun r => r = true) (tc_red t)).
Proof.
  intros t Hwf. unfold allT.
  assert (E : Forall (fun r => r = true) (tc_red t) <->
              Forall (fun r => r = true) (map snd (zipped t))) by (rewrite (zipped_red t Hwf); reflexivity).
  rewrite E, Forall_map. reflexivity.
Qed.

Lemma subred_allT : forall l l', subred l l' -> allT l -> allT l'.
Proof.
  intros l l' H. induction H as [|x l l' H IH|p l l' H IH]; intros Ha.
  - exact Ha.
  - inversion Ha as [|x0 l0 Hx Hl]; subst. constructor; [exact Hx | apply IH; exact Hl].
  - inversion Ha as [|x0 l0 Hx Hl]; subst. apply IH. exact Hl.
Qed.

Lemma subred_In : forall l l', subred l l' -> forall x, In x (map fst l') -> In x (map fst l).
Proof.
  intros l l' H. induction H as [|y l l' H IH|p l l' H IH]; intros x Hx.
  - exact Hx.
  - cbn [map] in *. destruct Hx as [Hx|Hx]; [left; exact Hx | right; apply IH; exact Hx].
  - cbn [map]. right. apply IH. exact Hx.
Qed.

Lemma subred_NoDup : forall l l', subred l l' -> NoDup (map fst l) -> NoDup (map fst l').
Proof.
  intros l l' H. induction H as [|y l l' H IH|p l l' H IH]; intros Hn.
  - exact Hn.
  - cbn [map] in *. inversion Hn as [|y0 l0 Hy Hl]; subst. constructor.
    + intros Hin. apply Hy. apply (subred_In _ _ H). exact Hin.
    + apply IH. exact Hl.
  - cbn [map] in Hn. inversion Hn as [|y0 l0 Hy Hl]; subst. apply IH. exact Hl.
Qed.

(* a sub-list of a duplicate-free list that contains exactly the elements satisfying P is the
   filter *)
Lemma subred_filter : forall (P : bytes -> bool) l l', subred l l' -> NoDup (map fst l) ->
  (forall x, In x (map fst l') -> P x = true) ->
  (forall x, In x (map fst l) -> P x = true -> In x (map fst l')) ->
  map fst l' = filter P (map fst l).
Proof.
  intros P l l' H. induction H as [|y l l' H IH|p l l' H IH]; intros Hn H1 H2.
  - reflexivity.
  - cbn [map] in *. inversion Hn as [|y0 l0 Hy Hl]; subst.
    cbn [filter]. rewrite (H1 (fst y)) by (left; reflexivity). f_equal.
    apply IH; [exact Hl | intros x Hx; apply H1; right; exact Hx|].
    intros x Hx Hp. destruct (H2 x (or_intror Hx) Hp) as [E|Hin]; [|exact Hin].
    exfalso. apply Hy. rewrite E. exact Hx.
  - cbn [map fst] in *. inversion Hn as [|y0 l0 Hy Hl]; subst.
    cbn [filter]. destruct (P p) eqn:Ep.
    + exfalso. apply Hy. apply (subred_In _ _ H). apply H2; [left; reflexivity | exact Ep].
    + apply IH; [exact Hl | exact H1|].
      intros x Hx Hp. apply H2; [right; exact Hx | exact Hp].
Qed.

Lemma count_false_allT : forall l, Forall (fun r : bool => r = true) l -> count_false l = 0.
Proof.
  intros l H. unfold count_false. induction H as [|x l Hx Hl IH]; [reflexivity|].
  subst x. cbn [filter negb]. exact IH.
Qed.

Record BF (tc0 : tcase) (core : list bytes) (t : tcase) : Prop := {
  bf_wf : wf t;
  bf_red : Forall (fun r => r = true) (tc_red t);
  bf_nd : NoDup (tc_parts t);
  bf_len : tc_len t = zlen (tc_parts t);
  bf_incl : forall x, In x (tc_parts t) -> In x (tc_parts tc0);
  bf_sub : sub_reducible tc0 t
}.

Section Mono.
Variable f : bytes -> bool.
Variable tc0 : tcase.
Variable core : list bytes.
Hypothesis Hwf0 : wf tc0.
Hypothesis Hnd0 : NoDup (tc_parts tc0).
Hypothesis Hred0 : Forall (fun r => r = true) (tc_red tc0).
Hypothesis Hcore0 : forall c, In c core -> In c (tc_parts tc0).
Hypothesis Hct : mp_core_test f tc0 core.

Lemma sub_BF : forall t, sub_reducible tc0 t -> BF tc0 core t.
Proof.
  intros t Hsub. pose proof Hsub as (Hb & Ha & Hwt & Hs).
  assert (Hall : allT (zipped t)).
  { apply (subred_allT _ _ Hs). apply (allT_red tc0 Hwf0). exact Hred0. }
  assert (Hr : Forall (fun r => r = true) (tc_red t)) by (apply (allT_red t Hwt); exact Hall).
  constructor.
  - exact Hwt.
  - exact Hr.
  - rewrite <- (zipped_parts t Hwt). apply (subred_NoDup _ _ Hs).
    rewrite (zipped_parts tc0 Hwf0). exact Hnd0.
  - unfold tc_len. rewrite (count_false_allT _ Hr). lia.
  - intros x Hx. rewrite <- (zipped_parts tc0 Hwf0). apply (subred_In _ _ Hs).
    rewrite (zipped_parts t Hwt). exact Hx.
  - exact Hsub.
Qed.

Lemma f_true_core : forall t, sub_reducible tc0 t -> f (content t) = true ->
  forall c, In c core -> In c (tc_parts t).
Proof.
  intros t Hsub Hf c Hc. rewrite (Hct t Hsub) in Hf.
  rewrite forallb_forall in Hf. apply has_atom_true. apply Hf. exact Hc.
Qed.

Lemma core_f_true : forall t, sub_reducible tc0 t ->
  (forall c, In c core -> In c (tc_parts t)) -> f (content t) = true.
Proof.
  intros t Hsub H. rewrite (Hct t Hsub). apply forallb_forall. intros c Hc.
  apply has_atom_true. apply H. exact Hc.
Qed.

Lemma f_tc0 : f (content tc0) = true.
Proof. apply core_f_true; [apply sub_reducible_refl; exact Hwf0 | exact Hcore0]. Qed.

(* deleting the block [a,b) of a testcase whose atoms are all reducible *)
Lemma spec_rm_allT_skip : forall lo hi l r, allT l -> lo <= r ->
  spec_rm lo hi r l = skipn (Z.to_nat (hi - r)) l.
Proof.
  intros lo hi l. induction l as [|[p b] l IH]; intros r Ha Hr.
  - cbn [spec_rm]. rewrite skipn_nil. reflexivity.
  - inversion Ha as [|x0 l0 Hx Hl]; subst. cbn [snd] in Hx. subst b. cbn [spec_rm].
    destruct (Z.ltb_spec r hi) as [H1|H1].
    + replace (lo <=? r) with true by lia. cbn [andb].
      rewrite (IH (r + 1) Hl) by lia.
      replace (Z.to_nat (hi - r)) with (S (Z.to_nat (hi - (r + 1)))) by lia. reflexivity.
    + rewrite andb_false_r. replace (Z.to_nat (hi - r)) with 0%nat by lia. cbn [skipn].
      f_equal. rewrite (IH (r + 1) Hl) by lia.
      replace (Z.to_nat (hi - (r + 1))) with 0%nat by lia. reflexivity.
Qed.

Lemma spec_rm_allT : forall lo hi l r, allT l -> r <= lo <= hi ->
  spec_rm lo hi r l = firstn (Z.to_nat (lo - r)) l ++ skipn (Z.to_nat (hi - r)) l.
Proof.
  intros lo hi l. induction l as [|[p b] l IH]; intros r Ha Hr.
  - cbn [spec_rm]. rewrite firstn_nil, skipn_nil. reflexivity.
  - destruct (Z.eq_dec r lo) as [E|E].
    + subst r. rewrite (spec_rm_allT_skip lo hi _ lo Ha) by lia.
      replace (Z.to_nat (lo - lo)) with 0%nat by lia. reflexivity.
    + inversion Ha as [|x0 l0 Hx Hl]; subst. cbn [snd] in Hx. subst b. cbn [spec_rm].
      replace (lo <=? r) with false by lia. cbn [andb].
      rewrite (IH (r + 1) Hl) by lia.
      replace (Z.to_nat (lo - r)) with (S (Z.to_nat (lo - (r + 1)))) by lia.
      replace (Z.to_nat (hi - r)) with (S (Z.to_nat (hi - (r + 1)))) by lia.
      reflexivity.
Qed.

Lemma rm_parts : forall t a b t', BF tc0 core t -> 0 <= a <= b -> b <= tc_len t ->
  rmslice t a b = Ok t' ->
  sub_reducible tc0 t' /\
  tc_parts t' = firstn (Z.to_nat a) (tc_parts t) ++ skipn (Z.to_nat b) (tc_parts t).
Proof.
  intros t a b t' HB Hab Hb Hrm. pose proof (bf_wf _ _ _ HB) as Hwt.
  assert (Hlo : py_clamp (tc_len t) a = a) by (apply mm_clamp_id; lia).
  assert (Hhi : py_clamp (tc_len t) b = b) by (apply mm_clamp_id; lia).
  pose proof (rmslice_spec t a b t' Hwt Hrm) as Hs. cbv zeta in Hs.
  rewrite Hlo, Hhi in Hs. destruct (Hs ltac:(lia)) as (Hwt' & Hz & _).
  split.
  - apply (sub_reducible_trans _ _ _ (bf_sub _ _ _ HB)).
    apply (rmslice_sub_reducible t a b t' Hwt Hrm). rewrite Hlo, Hhi. lia.
  - rewrite <- (zipped_parts t' Hwt'), Hz.
    rewrite spec_rm_allT by (try lia; apply (allT_red t Hwt); exact (bf_red _ _ _ HB)).
    rewrite !Z.sub_0_r, map_app, <- firstn_map, <- skipn_map, (zipped_parts t Hwt). reflexivity.
Qed.

(* ------------------------------------------------------------------ *)
(* PART 1: the result is exactly the core                             *)
(* ------------------------------------------------------------------ *)

Lemma one_minimal_core : forall tf, sub_reducible tc0 tf -> f (content tf) = true ->
  mm_one_minimal f tf ->
  tc_parts tf = filter (corep core) (tc_parts tc0).
Proof.
  intros tf Hsub Hf Hom.
  pose proof (sub_BF tf Hsub) as HB. pose proof Hsub as (_ & _ & Hwt & Hs).
  pose proof (f_true_core tf Hsub Hf) as Hin.
  rewrite <- (zipped_parts tf Hwt), <- (zipped_parts tc0 Hwf0).
  apply (subred_filter (corep core) _ _ Hs).
  - rewrite (zipped_parts tc0 Hwf0). exact Hnd0.
  - rewrite (zipped_parts tf Hwt). intros p Hp.
    destruct (corep core p) eqn:Ec; [reflexivity|]. exfalso.
    destruct (In_nth _ _ ([] : bytes) Hp) as (i & Hi & Hnth).
    pose proof (nth_split3 _ (tc_parts tf) i [] Hi) as Hsplit. rewrite Hnth in Hsplit.
    assert (Hlen : tc_len tf = zlen (tc_parts tf)) by exact (bf_len _ _ _ HB).
    destruct (rmslice_total tf (Z.of_nat i) (Z.of_nat i + 1) Hwt) as [t' Hrm].
    assert (Hi' : 0 <= Z.of_nat i < tc_len tf) by (rewrite Hlen; unfold zlen; lia).
    pose proof (Hom (Z.of_nat i) t' Hi' Hrm) as Hfalse.
    destruct (rm_parts tf (Z.of_nat i) (Z.of_nat i + 1) t' HB ltac:(lia) ltac:(lia) Hrm)
      as (Hsub' & Hparts).
    rewrite Nat2Z.id in Hparts.
    replace (Z.to_nat (Z.of_nat i + 1)) with (S i) in Hparts by lia.
    rewrite (core_f_true t' Hsub') in Hfalse; [discriminate Hfalse|].
    intros c Hc. rewrite Hparts. pose proof (Hin c Hc) as Hcin. rewrite Hsplit in Hcin.
    apply in_app_or in Hcin. apply in_or_app.
    destruct Hcin as [Hcin|[Hcin|Hcin]]; [left; exact Hcin | | right; exact Hcin].
    exfalso. subst c. apply corep_true in Hc. rewrite Hc in Ec. discriminate Ec.
  - rewrite (zipped_parts tf Hwt), (zipped_parts tc0 Hwf0). intros x _ Hx.
    apply Hin. apply corep_true. exact Hx.
Qed.

End Mono.

Lemma minimize_exact_core :
  forall cfg clk f tc0 core fuel,
    wf tc0 -> Forall (fun p => p <> []) (tc_parts tc0) -> NoDup (tc_parts tc0) ->
    Forall (fun r => r = true) (tc_red tc0) ->
    (forall c, In c core -> In c (tc_parts tc0)) -> mp_core_test f tc0 core ->
    cfg = default_cfg -> tc_len tc0 <> 0 ->
    (Z.to_nat (2 * c09_bound (tc_len tc0)) <= fuel)%nat ->
    exists rc w tf,
      run (minimize cfg clk no_post) (det f) fuel tc0 (content tc0) = Finished rc w /\
      w_file w = content tf /\ sub_reducible tc0 tf /\
      tc_parts tf = filter (fun p => existsb (bytes_eqb p) core) (tc_parts tc0).
Proof.
  intros cfg clk f tc0 core fuel Hwf Hne Hnd Hred Hcore Hct Hcfg Hlen Hfuel. subst cfg.
  pose proof (f_tc0 f tc0 core Hwf Hcore Hct) as Hf0.
  assert (Hrep : c_repeat default_cfg <> Never) by (cbn; discriminate).
  destruct (minimize_one_minimal default_cfg clk f tc0 (content tc0) fuel Hwf Hne eq_refl
              eq_refl eq_refl Hrep eq_refl Hf0 Hlen Hfuel)
    as (rc & w & tf & Hrun & Hsub & Hfile & Hftf & Hom).
  exists rc, w, tf. split; [exact Hrun|]. split; [exact Hfile|]. split; [exact Hsub|].
  apply (one_minimal_core f tc0 core); assumption.
Qed.

(* ------------------------------------------------------------------ *)
(* PART 2: number of tests                                            *)
(* ------------------------------------------------------------------ *)

Lemma pow2_cases : forall c, pow2 c -> c = 1 \/ c = 2 \/ 4 <= c.
Proof.
  intros c [j [Hj Hc]]. subst c.
  destruct (Z.eq_dec j 0) as [E0|E0]; [left; subst j; reflexivity|].
  destruct (Z.eq_dec j 1) as [E1|E1]; [right; left; subst j; reflexivity|].
  right. right. change 4 with (2 ^ 2). apply Z.pow_le_mono_r; lia.
Qed.

Lemma log2_double_le : forall a c, 0 < a -> 2 * a <= c -> Z.log2 a + 1 <= Z.log2 c.
Proof.
  intros a c Ha Hc. pose proof (Z.log2_double a Ha) as H.
  pose proof (Z.log2_le_mono (2 * a) c Hc). lia.
Qed.

Lemma halve_stop : forall fu cs len, pow2 cs -> (Z.to_nat (Z.log2 cs) < fu)%nat ->
  halve fu cs len < len \/ halve fu cs len = 1.
Proof.
  induction fu as [|fu IH]; intros cs len Hp Hf; [lia|].
  cbn [halve]. pose proof (MinimizeProofs.pow2_pos cs Hp) as H1.
  destruct (cs >? 1) eqn:E1; [|right; lia].
  rewrite py_shr_1. destruct (pow2_half cs Hp ltac:(lia)) as [Hh He].
  destruct (cs / 2 <? len) eqn:E2; [left; lia|].
  apply IH; [exact Hh|].
  pose proof (MinimizeProofs.pow2_pos _ Hh) as H2.
  pose proof (Z.log2_double (cs / 2) ltac:(lia)) as Hd. rewrite He in Hd.
  pose proof (Z.log2_nonneg (cs / 2)). lia.
Qed.

(* the chunk size chosen at the end of a sweep at size cs > 1 *)
Lemma halve_facts : forall cs len, pow2 cs -> 1 < cs ->
  let c' := halve (halve_fuel cs) cs len in
  pow2 c' /\ 2 * c' <= cs /\ (2 * c' = cs \/ (4 * c' <= cs /\ len <= 2 * c')) /\
  (c' < len \/ c' = 1).
Proof.
  intros cs len Hp Hlt c'.
  destruct (halve_pow2_le (halve_fuel cs) cs len Hp) as [Hp' _]. fold c' in Hp'.
  pose proof (halve_fuel_lt cs len Hp Hlt) as Hl. fold c' in Hl.
  pose proof (pow2_lt_double c' cs Hp' Hp Hl) as Hd.
  pose proof (MinimizeProofs.pow2_pos c' Hp') as H1.
  split; [exact Hp'|]. split; [exact Hd|]. split.
  - destruct (Z.eq_dec (2 * c') cs) as [E|E]; [left; exact E|]. right.
    assert (Hp2 : pow2 (2 * c')).
    { destruct Hp' as [j [Hj Hc]]. exists (j + 1). split; [lia|].
      rewrite Hc, Z.pow_add_r by lia. lia. }
    pose proof (pow2_lt_double (2 * c') cs Hp2 Hp ltac:(lia)) as Hd2.
    split; [lia|].
    apply (halve_below (halve_fuel cs) cs len (2 * c') Hp Hp2); [lia | fold c'; lia].
  - apply halve_stop; [exact Hp|]. unfold halve_fuel. lia.
Qed.

Lemma split_tail : forall (A : Type) (l : list A) c, 0 <= c <= zlen l ->
  exists a b, l = a ++ b /\ zlen b = c /\ zlen a = zlen l - c.
Proof.
  intros A l c Hc. unfold zlen in *.
  exists (firstn (length l - Z.to_nat c) l), (skipn (length l - Z.to_nat c) l).
  split; [symmetry; apply firstn_skipn|].
  rewrite skipn_length, firstn_length. lia.
Qed.

Lemma nodup_mid : forall (A : Type) (a m t : list A) x,
  NoDup ((a ++ m) ++ t) -> In x m -> In x (a ++ t) -> False.
Proof.
  intros A a m t x Hn Hm Hat. destruct (in_split _ _ Hm) as (m1 & m2 & E). subst m.
  replace ((a ++ m1 ++ x :: m2) ++ t) with ((a ++ m1) ++ x :: (m2 ++ t)) in Hn
    by (rewrite <- !app_assoc; reflexivity).
  apply NoDup_remove_2 in Hn. apply Hn.
  apply in_app_or in Hat. rewrite <- app_assoc. apply in_or_app.
  destruct Hat as [H|H]; [left; exact H|].
  right. apply in_or_app. right. apply in_or_app. right. exact H.
Qed.

Section Count.
Variable f : bytes -> bool.
Variable tc0 : tcase.
Variable core : list bytes.
Hypothesis Hwf0 : wf tc0.
Hypothesis Hne0 : Forall (fun p : bytes => p <> []) (tc_parts tc0).
Hypothesis Hnd0 : NoDup (tc_parts tc0).
Hypothesis Hred0 : Forall (fun r => r = true) (tc_red tc0).
Hypothesis HndC : NoDup core.
Hypothesis Hcore0 : forall c, In c core -> In c (tc_parts tc0).
Hypothesis Hct : mp_core_test f tc0 core.

Let m := zlen core.
Let cp := corep core.
Definition cc (l : list bytes) : Z := zlen (filter cp l).

Lemma m_nonneg : 0 <= m.
Proof. apply zlen_nonneg. Qed.

Lemma cc_app : forall a b, cc (a ++ b) = cc a + cc b.
Proof. intros a b. unfold cc. rewrite filter_app, zlen_app. reflexivity. Qed.

Lemma cc_nonneg : forall l, 0 <= cc l.
Proof. intros l. apply zlen_nonneg. Qed.

Lemma cc_pos : forall l x, In x l -> cp x = true -> 1 <= cc l.
Proof.
  intros l x Hx Hc. unfold cc.
  assert (Hin : In x (filter cp l)) by (apply filter_In; split; assumption).
  destruct (filter cp l) as [|y r]; [destruct Hin|]. rewrite zlen_cons.
  pose proof (zlen_nonneg _ r). lia.
Qed.

Lemma cc_le_m : forall l, NoDup l -> cc l <= m.
Proof.
  intros l Hn. unfold cc, m, zlen. apply inj_le.
  apply NoDup_incl_length; [apply NoDup_filter; exact Hn|].
  intros x Hx. apply filter_In in Hx. destruct Hx as [_ Hx].
  apply (corep_true core x). exact Hx.
Qed.

Lemma allcore_len : forall l, NoDup l -> Forall (fun p => cp p = true) l -> zlen l <= m.
Proof.
  intros l Hn Ha. unfold m, zlen. apply inj_le. apply NoDup_incl_length; [exact Hn|].
  intros x Hx. rewrite Forall_forall in Ha. apply (corep_true core x). apply Ha. exact Hx.
Qed.

Definition hdcore (l : list bytes) : Prop :=
  match l with [] => True | x :: _ => cp x = true end.

Fixpoint nadj (l : list bytes) : Prop :=
  match l with
  | [] => True
  | x :: r => (cp x = true \/ hdcore r) /\ nadj r
  end.

Lemma nadj_len_aux : forall l, nadj l ->
  zlen l <= 2 * cc l + 1 /\ (hdcore l -> zlen l <= 2 * cc l).
Proof.
  induction l as [|x r IH]; intros Hn.
  - unfold cc. cbn [filter]. rewrite zlen_nil. lia.
  - cbn [nadj] in Hn. destruct Hn as [Hx Hr]. destruct (IH Hr) as [IH1 IH2].
    rewrite zlen_cons. unfold cc in *. cbn [filter hdcore].
    destruct (cp x) eqn:Ex.
    + rewrite zlen_cons. lia.
    + destruct Hx as [Hx|Hx]; [discriminate Hx|]. specialize (IH2 Hx).
      split; [lia | intros Hc; discriminate Hc].
Qed.

Lemma nadj_len : forall l, nadj l -> zlen l <= 2 * cc l + 1.
Proof. intros l H. apply (nadj_len_aux l H). Qed.

(* strategy-side invariant: the atoms at positions >= chunk_end (T) are the survivors of this
   sweep *)
Definition PI (st : mstate) (best : tcase) : Prop :=
  pow2 (m_chunk_size st) /\
  exists H T, tc_parts best = H ++ T /\ zlen H = m_chunk_end st /\
    (2 < m_chunk_size st -> zlen T <= m_chunk_size st * cc T) /\
    (m_chunk_size st = 2 -> nadj T /\ forall A x, H = A ++ [x] -> nadj (x :: T)) /\
    (m_chunk_size st = 1 -> Forall (fun p => cp p = true) T).

(* potential: an upper bound on the number of proposals still to come *)
Definition Phi (st : mstate) (best : tcase) : Z :=
  let c := m_chunk_size st in
  if c <=? 1 then
    m_chunk_end st + (if m_removed st || negb (forallb cp (tc_parts best)) then m else 0)
  else if c <=? 2 then m_chunk_end st + (3 * m + 1)
  else m_chunk_end st / c + Z.log2 c * (2 * m + 1) + (3 * m + 2).

Lemma Phi_nonneg : forall st best, PI st best -> 0 <= Phi st best.
Proof.
  intros st best (Hp & H & T & _ & HH & _). pose proof m_nonneg as Hm.
  pose proof (zlen_nonneg _ H) as H0. pose proof (MinimizeProofs.pow2_pos _ Hp) as H1.
  unfold Phi. cbv zeta.
  destruct (m_chunk_size st <=? 1) eqn:E1.
  - destruct (m_removed st || negb (forallb cp (tc_parts best))); lia.
  - destruct (m_chunk_size st <=? 2) eqn:E2; [lia|].
    pose proof (Z.log2_nonneg (m_chunk_size st)) as Hl.
    assert (0 <= m_chunk_end st / m_chunk_size st) by (apply Z.div_pos; lia).
    assert (0 <= Z.log2 (m_chunk_size st) * (2 * m + 1)) by (apply Z.mul_nonneg_nonneg; lia).
    lia.
Qed.

(* ---- what acceptance / rejection of "best minus the block M" says about M ---- *)

Lemma blk_false : forall best t A M T,
  sub_reducible tc0 best -> f (content best) = true ->
  tc_parts best = (A ++ M) ++ T -> sub_reducible tc0 t -> tc_parts t = A ++ T ->
  f (content t) = false -> exists x, In x M /\ cp x = true.
Proof.
  intros best t A M T Hsb Hfb Hps Hst Hpt Hf.
  rewrite (Hct t Hst) in Hf. destruct (forallb_false_ex _ _ _ Hf) as [c [Hc Hh]].
  pose proof (f_true_core f tc0 core Hct best Hsb Hfb c Hc) as Hin.
  exists c. split; [|apply (corep_true core c); exact Hc].
  rewrite Hps in Hin. apply in_app_or in Hin. destruct Hin as [Hin|Hin].
  - apply in_app_or in Hin. destruct Hin as [Hin|Hin]; [|exact Hin].
    exfalso. assert (Ht : mp_has_atom t c = true)
      by (apply has_atom_true; rewrite Hpt; apply in_or_app; left; exact Hin).
    rewrite Ht in Hh. discriminate Hh.
  - exfalso. assert (Ht : mp_has_atom t c = true)
      by (apply has_atom_true; rewrite Hpt; apply in_or_app; right; exact Hin).
    rewrite Ht in Hh. discriminate Hh.
Qed.

Lemma blk_true : forall best t A M T,
  NoDup (tc_parts best) ->
  tc_parts best = (A ++ M) ++ T -> sub_reducible tc0 t -> tc_parts t = A ++ T ->
  f (content t) = true -> forall x, In x M -> cp x = false.
Proof.
  intros best t A M T Hnd Hps Hst Hpt Hf x Hx.
  destruct (cp x) eqn:Ec; [|reflexivity]. exfalso.
  apply (corep_true core x) in Ec.
  pose proof (f_true_core f tc0 core Hct t Hst Hf x Ec) as Hin. rewrite Hpt in Hin.
  rewrite Hps in Hnd. exact (nodup_mid _ A M T x Hnd Hx Hin).
Qed.

Lemma k_of_not_true : forall s o, o <> Tested true -> k_of s o = k_of s Skipped.
Proof.
  intros s o Ho. destruct o as [|b]; [reflexivity|].
  destruct b; [exfalso; apply Ho; reflexivity | reflexivity].
Qed.

Lemma div_sub_self : forall a c, 0 < c -> (a - c) / c = a / c - 1.
Proof.
  intros a c Hc. replace (a - c) with (a + (-1) * c) by lia. rewrite Z.div_add by lia. lia.
Qed.

(* one proposal inside a sweep *)
Lemma in_round : forall s best t,
  MI s best -> PI s best -> sub_reducible tc0 best -> f (content best) = true ->
  m_chunk_size s <= m_chunk_end s ->
  rmslice best (fst (block_of s)) (m_chunk_end s) = Ok t ->
  (f (content t) = false -> forall o, o <> Tested true ->
     PI (k_of s o) best /\ Phi (k_of s o) best + 1 <= Phi s best) /\
  (f (content t) = true ->
     PI (k_of s (Tested true)) t /\ Phi (k_of s (Tested true)) t + 1 <= Phi s best).
Proof.
  intros s best t HM HP Hsb Hfb Hle Hrm.
  pose proof (sub_BF tc0 core Hwf0 Hnd0 Hred0 best Hsb) as HB.
  destruct HP as (Hp & H & T & Hps & HH & I4 & I2 & I1).
  pose proof (mi_cs _ _ HM) as Hc1. pose proof (mi_ce _ _ HM) as Hce.
  pose proof m_nonneg as Hm0.
  destruct (split_tail _ H (m_chunk_size s) ltac:(lia)) as (A & M & HAM & HlM & HlA).
  subst H. rewrite HH in HlA.
  assert (Hst : fst (block_of s) = m_chunk_end s - m_chunk_size s)
    by (unfold block_of; cbn [fst]; lia).
  rewrite Hst in Hrm.
  destruct (rm_parts tc0 core Hwf0 _ _ _ t HB ltac:(lia) Hce Hrm) as (Hsubt & Hpt).
  assert (Hpt' : tc_parts t = A ++ T).
  { rewrite Hpt. f_equal.
    - rewrite Hps, <- app_assoc. apply firstn_app_exact. exact HlA.
    - rewrite Hps. apply skipn_app_exact. exact HH. }
  clear Hpt.
  destruct s as [cs mc ce rm dl rd ph].
  cbn [m_chunk_size m_chunk_end] in *.
  split.
  - (* rejected or skipped *)
    intros Hf o Ho. rewrite (k_of_not_true _ o Ho). unfold k_of.
    destruct (blk_false best t A M T Hsb Hfb Hps Hsubt Hpt' Hf) as (x & HxM & Hxc).
    destruct (pow2_cases cs Hp) as [E|[E|E]].
    + (* size 1 *)
      subst cs. destruct M as [|y [|z M]]; rewrite ?zlen_cons, ?zlen_nil in HlM;
        try (pose proof (zlen_nonneg _ M)); try lia.
      destruct HxM as [HxM|[]]. subst y.
      split.
      * split; [exact Hp|]. cbn [m_chunk_size m_chunk_end]. change (1 <=? 2) with true. cbv iota.
        exists A, (x :: T). split; [rewrite Hps, <- app_assoc; reflexivity|].
        split; [lia|]. split; [lia|]. split; [lia|].
        intros _. constructor; [exact Hxc | apply I1; reflexivity].
      * unfold Phi. cbn [m_chunk_size m_chunk_end m_removed]. change (1 <=? 2) with true.
        change (1 <=? 1) with true. cbv iota. lia.
    + (* size 2 *)
      subst cs. destruct M as [|x1 [|y [|z M]]]; rewrite ?zlen_cons, ?zlen_nil in HlM;
        try (pose proof (zlen_nonneg _ M)); try lia.
      destruct (I2 eq_refl) as [HnT HnH].
      assert (HnyT : nadj (y :: T)).
      { apply (HnH (A ++ [x1])). rewrite <- app_assoc. reflexivity. }
      split.
      * split; [exact Hp|]. cbn [m_chunk_size m_chunk_end]. change (2 <=? 2) with true. cbv iota.
        exists (A ++ [x1]), (y :: T). split; [rewrite Hps, <- !app_assoc; reflexivity|].
        split; [rewrite zlen_app, zlen_cons, zlen_nil; lia|]. split; [lia|]. split; [|lia].
        intros _. split; [exact HnyT|].
        intros A' z Hz. apply app_inj_tail in Hz. destruct Hz as [_ Hz]. subst z.
        cbn [nadj]. split; [|exact HnyT]. cbn [hdcore].
        destruct HxM as [E|[E|[]]]; subst x; [left | right]; exact Hxc.
      * unfold Phi. cbn [m_chunk_size m_chunk_end m_removed]. change (2 <=? 2) with true.
        change (2 <=? 1) with false. cbv iota. lia.
    + (* size >= 4 *)
      replace (cs <=? 2) with false by lia.
      split.
      * split; [exact Hp|]. cbn [m_chunk_size m_chunk_end].
        exists A, (M ++ T). split; [rewrite Hps, <- app_assoc; reflexivity|].
        split; [lia|]. split; [|split; lia].
        intros _. rewrite zlen_app, cc_app, HlM.
        pose proof (cc_pos M x HxM Hxc) as H1. specialize (I4 ltac:(lia)). nia.
      * unfold Phi. cbn [m_chunk_size m_chunk_end m_removed].
        replace (cs <=? 1) with false by lia. replace (cs <=? 2) with false by lia.
        rewrite div_sub_self by lia. lia.
  - (* accepted *)
    intros Hf. unfold k_of, block_of. cbn [fst m_chunk_size m_chunk_end].
    pose proof (blk_true best t A M T (bf_nd _ _ _ HB) Hps Hsubt Hpt' Hf) as HM0.
    replace (Z.max 0 (ce - cs)) with (ce - cs) by lia.
    split.
    + split; [exact Hp|]. cbn [m_chunk_size m_chunk_end].
      exists A, T. split; [exact Hpt'|]. split; [lia|]. split; [exact I4|]. split; [|exact I1].
      intros E. subst cs. destruct (I2 eq_refl) as [HnT HnH]. split; [exact HnT|].
      intros A' z Hz.
      destruct M as [|x1 [|y [|z' M]]]; rewrite ?zlen_cons, ?zlen_nil in HlM;
        try (pose proof (zlen_nonneg _ M)); try lia.
      assert (HnyT : nadj (y :: T)).
      { apply (HnH (A ++ [x1])). rewrite <- app_assoc. reflexivity. }
      cbn [nadj] in HnyT. destruct HnyT as [[Hy|Hy] _].
      * rewrite (HM0 y) in Hy by (right; left; reflexivity). discriminate Hy.
      * cbn [nadj]. split; [right; exact Hy | exact HnT].
    + unfold Phi. cbn [m_chunk_size m_chunk_end m_removed].
      destruct (pow2_cases cs Hp) as [E|[E|E]].
      * subst cs. change (1 <=? 1) with true. cbv iota. cbn [orb].
        destruct M as [|y [|z M]]; rewrite ?zlen_cons, ?zlen_nil in HlM;
          try (pose proof (zlen_nonneg _ M)); try lia.
        assert (Hfa : forallb cp (tc_parts best) = false).
        { destruct (forallb cp (tc_parts best)) eqn:Efa; [|reflexivity].
          rewrite forallb_forall in Efa.
          rewrite (Efa y) in HM0.
          - specialize (HM0 y (or_introl eq_refl)). discriminate HM0.
          - rewrite Hps. apply in_or_app. left. apply in_or_app. right. left. reflexivity. }
        rewrite Hfa. cbn [negb]. rewrite orb_true_r. lia.
      * subst cs. change (2 <=? 1) with false. change (2 <=? 2) with true. cbv iota. lia.
      * replace (cs <=? 1) with false by lia. replace (cs <=? 2) with false by lia.
        rewrite div_sub_self by lia. lia.
Qed.

End Count.
