(* Termination bound for minimize-collapse-brace in line mode, end to end on a loaded file
   (Props/C09.v, theorem C09_collapse_line).

   `post_ok (collapse_post split_line)` is false (FrameProofs.collapse_line_post_ok_counterexample),
   so MinimizeBound.minimize_bounded does not apply.  Here its proof is redone relative to an
   invariant Q on the current best testcase:
     - the post-round callback is only required to behave on testcases satisfying Q, and must
       re-establish Q;
     - Q is closed under deletion of reducible atoms (sub_reducible).
   For the line splitter, Q = "all atoms reducible and every atom is at most one line".  The missing
   piece is that every line produced by `splitlines` re-splits to itself (lines_resplit).
   No axioms. *)
From Coq Require Import ZArith NArith List Bool Lia ZifyBool Arith.
From Lithium Require Import PyBase TcRecord Util Testcase Spec Driver TraceSpec Minimize StratSpec
  TestcaseProofs DriverProofs MinimizeBound PyLines Markers Splitters SplitSpec SplitProofs
  Collapse FrameProofs.
Import ListNotations.
Open Scope Z_scope.

(* ------------------------------------------------------------------ *)
(* 1. every line re-splits to itself                                  *)
(* ------------------------------------------------------------------ *)

(* the first line of `sl cur d` is decided by a prefix p of d, and p alone yields that line *)
Lemma sl_first_aux : forall n d, (length d <= n)%nat ->
  forall cur l rest, sl cur d = l :: rest ->
    exists p s, d = p ++ s /\ l = rev cur ++ p /\ rest = sl [] s /\ sl cur p = [l].
Proof.
  induction n as [|n IH]; intros d Hn cur l rest H.
  - destruct d as [|b r]; [|cbn [length] in Hn; lia].
    rewrite sl_nil in H. destruct cur as [|c cur]; [discriminate H|].
    injection H as Hl Hr. exists [], []. subst l rest.
    split; [reflexivity|]. split; [rewrite app_nil_r; reflexivity|].
    split; reflexivity.
  - destruct d as [|b r].
    + rewrite sl_nil in H. destruct cur as [|c cur]; [discriminate H|].
      injection H as Hl Hr. exists [], []. subst l rest.
      split; [reflexivity|]. split; [rewrite app_nil_r; reflexivity|].
      split; reflexivity.
    + cbn [length] in Hn.
      (* the byte is kept in the current line, and so it is for every prefix of the rest *)
      assert (Hcont : (forall p s, r = p ++ s -> sl cur (b :: p) = sl (b :: cur) p) ->
                      sl (b :: cur) r = l :: rest ->
                      exists p s, b :: r = p ++ s /\ l = rev cur ++ p /\ rest = sl [] s /\
                                  sl cur p = [l]).
      { intros Hdec H'.
        destruct (IH r ltac:(lia) (b :: cur) l rest H') as (p & s & Hd & Hl & Hr & Hp).
        exists (b :: p), s. split; [rewrite Hd; reflexivity|].
        split; [rewrite Hl; cbn [rev]; rewrite <- app_assoc; reflexivity|].
        split; [exact Hr|]. rewrite (Hdec p s Hd). exact Hp. }
      rewrite sl_cons in H.
      destruct (simple_term b) eqn:Hst.
      { injection H as Hl Hr. exists [b], r. subst l rest.
        split; [reflexivity|]. split; [reflexivity|]. split; [reflexivity|].
        rewrite sl_cons, Hst. reflexivity. }
      destruct (b =? 13)%N eqn:E13.
      { destruct r as [|c r'].
        - injection H as Hl Hr. exists [b], []. subst l rest.
          split; [reflexivity|]. split; [reflexivity|]. split; [reflexivity|].
          rewrite sl_cons, Hst, E13. reflexivity.
        - destruct (c =? 10)%N eqn:E10.
          + injection H as Hl Hr. exists [b; c], r'. subst l rest.
            split; [reflexivity|].
            split; [cbn [rev]; rewrite <- app_assoc; reflexivity|].
            split; [reflexivity|].
            rewrite sl_cons, Hst, E13, E10. reflexivity.
          + injection H as Hl Hr. exists [b], (c :: r'). subst l rest.
            split; [reflexivity|]. split; [reflexivity|]. split; [reflexivity|].
            rewrite sl_cons, Hst, E13. reflexivity. }
      destruct (b =? 194)%N eqn:E194.
      { destruct r as [|c r'].
        - apply Hcont; [|exact H]. intros p s E.
          destruct p as [|x p]; [|discriminate E].
          rewrite sl_cons, Hst, E13, E194. reflexivity.
        - destruct (c =? 133)%N eqn:E133.
          + injection H as Hl Hr. exists [b; c], r'. subst l rest.
            split; [reflexivity|].
            split; [cbn [rev]; rewrite <- app_assoc; reflexivity|].
            split; [reflexivity|].
            rewrite sl_cons, Hst, E13, E194, E133. reflexivity.
          + apply Hcont; [|exact H]. intros p s E.
            destruct p as [|x p].
            * rewrite sl_cons, Hst, E13, E194. reflexivity.
            * injection E as Ex Ep. subst x.
              rewrite sl_cons, Hst, E13, E194, E133. reflexivity. }
      destruct (b =? 226)%N eqn:E226.
      { destruct r as [|c1 r1].
        - apply Hcont; [|exact H]. intros p s E.
          destruct p as [|x p]; [|discriminate E].
          rewrite sl_cons, Hst, E13, E194, E226. reflexivity.
        - destruct (c1 =? 128)%N eqn:E128.
          + destruct r1 as [|c2 r2].
            * apply Hcont; [|exact H]. intros p s E.
              destruct p as [|x p].
              -- rewrite sl_cons, Hst, E13, E194, E226. reflexivity.
              -- injection E as Ex Ep. subst x.
                 destruct p as [|y p]; [|discriminate Ep].
                 rewrite sl_cons, Hst, E13, E194, E226, E128. reflexivity.
            * destruct ((c2 =? 168) || (c2 =? 169))%N eqn:E2.
              -- injection H as Hl Hr. exists [b; c1; c2], r2. subst l rest.
                 split; [reflexivity|].
                 split; [cbn [rev]; rewrite <- !app_assoc; reflexivity|].
                 split; [reflexivity|].
                 rewrite sl_cons, Hst, E13, E194, E226, E128, E2. reflexivity.
              -- apply Hcont; [|exact H]. intros p s E.
                 destruct p as [|x p].
                 ++ rewrite sl_cons, Hst, E13, E194, E226. reflexivity.
                 ++ injection E as Ex Ep. subst x.
                    destruct p as [|y p].
                    ** rewrite sl_cons, Hst, E13, E194, E226, E128. reflexivity.
                    ** injection Ep as Ey Ep. subst y.
                       rewrite sl_cons, Hst, E13, E194, E226, E128, E2. reflexivity.
          + apply Hcont; [|exact H]. intros p s E.
            destruct p as [|x p].
            * rewrite sl_cons, Hst, E13, E194, E226. reflexivity.
            * injection E as Ex Ep. subst x.
              rewrite sl_cons, Hst, E13, E194, E226, E128. reflexivity. }
      apply Hcont; [|exact H]. intros p s E.
      rewrite sl_cons, Hst, E13, E194, E226. reflexivity.
Qed.

Lemma lines_resplit_aux : forall n d, (length d <= n)%nat ->
  forall l, In l (splitlines d) -> splitlines l = [l].
Proof.
  induction n as [|n IH]; intros d Hn l Hin.
  - destruct d as [|b r]; [contradiction Hin | cbn [length] in Hn; lia].
  - unfold splitlines in Hin.
    destruct (sl [] d) as [|l0 rest] eqn:Hs; [contradiction Hin|].
    destruct (sl_first_aux (length d) d (le_n _) [] l0 rest Hs) as (p & s & Hd & Hl & Hr & Hp).
    cbn [rev app] in Hl. subst p.
    destruct Hin as [Hin|Hin].
    + subst l. exact Hp.
    + assert (Hne : l0 <> []).
      { intros E. subst l0. rewrite sl_nil in Hp. discriminate Hp. }
      apply (IH s).
      * subst d. rewrite app_length in Hn.
        destruct l0 as [|x l0]; [contradiction Hne; reflexivity|]. cbn [length] in Hn. lia.
      * unfold splitlines. rewrite <- Hr. exact Hin.
Qed.

Lemma lines_resplit : forall d l, In l (splitlines d) -> splitlines l = [l].
Proof. intros d l. apply (lines_resplit_aux (length d) d (le_n _)). Qed.

Lemma lines_single : forall d,
  Forall (fun p => (length (splitlines p) <= 1)%nat) (splitlines d).
Proof.
  intros d. apply Forall_forall. intros l Hl.
  rewrite (lines_resplit d l Hl). apply le_n.
Qed.

(* ------------------------------------------------------------------ *)
(* 2. minimize_bounded relative to an invariant on the best testcase  *)
(* ------------------------------------------------------------------ *)

Definition post_ok_rel (Q : tcase -> Prop) (post : post_t) : Prop :=
  forall best raw r, wf best -> Q best -> post best = Some (raw, r) ->
    exists t', r = Ok t' /\ wf t' /\ Q t' /\ tc_len t' <= tc_len best.

Definition sub_closed (Q : tcase -> Prop) : Prop :=
  forall best t, wf best -> Q best -> sub_reducible best t -> Q t.

Section Rel.

Variable Q : tcase -> Prop.
Variable post : post_t.
Hypothesis Hpost : post_ok_rel Q post.
Hypothesis Qsub : sub_closed Q.

(* Q holds of the best testcase and of the pending post-round proposal *)
Definition qinv (s : mstate) (best : tcase) : Prop :=
  Q best /\ forall t', m_phase s = PPost t' -> Q t'.

Definition best_after (o : outcome) (best t : tcase) : tcase :=
  match o with Tested true => t | _ => best end.

Lemma propose_chunk_q : forall s best,
  wf best -> Q best -> pow2 (m_chunk_size s) -> 0 <= m_chunk_end s <= tc_len best ->
  match propose_chunk s best with
  | Propose t k => forall o, qinv (k o) (best_after o best t)
  | _ => True
  end.
Proof.
  intros s best Hwf HQ Hp Hce.
  unfold propose_chunk, block_of. cbn [fst]. rewrite copy_id.
  destruct (rmslice best (Z.max 0 (m_chunk_end s - m_chunk_size s)) (m_chunk_end s))
    as [t|e] eqn:Ht; [|exact I].
  pose proof (pow2_pos _ Hp) as Hcs.
  assert (Hsub : sub_reducible best t).
  { apply (rmslice_sub_reducible best _ _ t Hwf Ht).
    rewrite !py_clamp_id by lia. lia. }
  pose proof (Qsub best t Hwf HQ Hsub) as HQt.
  intros o. unfold best_after.
  destruct o as [|[|]];
    (split; [assumption | cbn [m_phase]; intros t' E; discriminate E]).
Qed.

Lemma decide_q : forall cfg s best,
  wf best -> Q best -> pow2 (m_chunk_size s) -> 1 <= m_min_chunk s ->
  match decide cfg s best with
  | Propose t k => forall o, qinv (k o) (best_after o best t)
  | _ => True
  end.
Proof.
  intros cfg s best Hwf HQ Hp Hmin. unfold decide.
  destruct (decide_state cfg s best) as [s'|] eqn:Hd; [|exact I].
  destruct (decide_state_spec cfg s best s' Hp Hmin Hd) as (Hce & _ & _ & _ & Hp' & _).
  pose proof (tc_len_nonneg best Hwf) as HL.
  apply propose_chunk_q; try assumption. rewrite Hce. lia.
Qed.

Definition step_okQ (n : Z) (s : mstate) (best : tcase) (st : step mstate) : Prop :=
  match st with
  | Done => True
  | Fail _ => False
  | RawWrite _ s' =>
      (minv n s' best /\ qinv s' best) /\
      forall N d, 0 <= d -> n + 1 + d <= N ->
        M N s' (tc_len best) + d <= M N s (tc_len best)
  | Propose t k =>
      prop_ok n (fun N => M N s (tc_len best)) best t k /\
      forall o, qinv (k o) (best_after o best t)
  end.

Lemma mnext_okQ : forall n cfg clk s best,
  minv n s best -> qinv s best -> step_okQ n s best (mnext cfg clk post s best).
Proof.
  intros n cfg clk s best Hi Hq.
  destruct Hi as [Hwf Hn Hp Hmin Hph].
  destruct Hq as [HQ HQp].
  pose proof (tc_len_nonneg best Hwf) as HL.
  pose proof (wgt_nonneg s Hp) as Hw.
  destruct s as [cs mc ce r dl rd ph].
  cbn [m_chunk_size m_min_chunk m_chunk_end m_phase] in Hp, Hmin, Hph, HQp.
  unfold mnext. cbn [m_phase]. destruct ph as [|t'|e|].
  - (* PHead *)
    cbn [m_chunk_size m_min_chunk m_chunk_end m_removed m_deadline m_reads].
    destruct (match dl with Some d => clk rd >? d | None => false end) eqn:Eexp; [exact I|].
    pose proof (pow2_pos cs Hp) as Hcs.
    destruct (ce - cs <? 0) eqn:Eend.
    + destruct (tc_len best =? 0) eqn:EL; [exact I|].
      destruct (post best) as [[raw [t'|e]]|] eqn:Epost.
      * (* raw write, then the post-round proposal *)
        destruct (Hpost best raw (Ok t') Hwf HQ Epost) as (t2 & Ht2 & Hwt & HQt & Hlt).
        injection Ht2 as Ht2. subst t2.
        cbn [step_okQ]. unfold set_phase.
        cbn [m_chunk_size m_min_chunk m_chunk_end m_removed m_deadline m_reads].
        split; [split|].
        -- constructor; cbn [m_chunk_size m_min_chunk m_chunk_end m_phase]; try assumption.
           split; assumption.
        -- split; [exact HQ|]. cbn [m_phase]. intros t0 E. injection E as E. subst t0. exact HQt.
        -- intros N d Hd HN. unfold M, MH, MD, wgt in *.
           cbn [m_chunk_size m_min_chunk m_chunk_end m_removed m_phase] in *.
           rewrite EL. lia.
      * destruct (Hpost best raw (Err e) Hwf HQ Epost) as (t2 & Ht2 & _). discriminate Ht2.
      * (* no post-round callback: decide immediately *)
        match goal with |- step_okQ _ _ _ (decide _ ?s1 _) =>
          pose proof (decide_ok n cfg s1 best Hwf Hn Hp Hmin) as H;
          pose proof (decide_q cfg s1 best Hwf HQ Hp Hmin) as Hq;
          destruct (decide cfg s1 best) as [t k| | |]; try contradiction; [|exact I]
        end.
        cbn [step_okQ]. split; [|exact Hq]. eapply prop_ok_weaken; [exact H|].
        intros N HN. cbv beta. unfold M, MH, MD, wgt in *.
        cbn [m_chunk_size m_min_chunk m_chunk_end m_removed m_phase] in *.
        rewrite EL. lia.
    + (* a chunk proposal inside a sweep *)
      match goal with |- step_okQ _ _ _ (propose_chunk ?s1 _) =>
        assert (Hce : 1 <= m_chunk_end s1 <= tc_len best)
          by (cbn [m_chunk_end]; lia);
        assert (Hce0 : 0 <= m_chunk_end s1 <= tc_len best)
          by (cbn [m_chunk_end]; lia);
        pose proof (propose_chunk_ok n s1 best Hwf Hn Hp Hmin Hce) as H;
        pose proof (propose_chunk_q s1 best Hwf HQ Hp Hce0) as Hq;
        destruct (propose_chunk s1 best) as [t k| | |]; try contradiction
      end.
      cbn [step_okQ]. split; [|exact Hq]. eapply prop_ok_weaken; [exact H|].
      intros N HN. cbv beta. unfold M, MH, wgt in *.
      cbn [m_chunk_size m_min_chunk m_chunk_end m_removed m_phase] in *.
      replace (tc_len best =? 0) with false by lia. lia.
  - (* PPost t' *)
    destruct Hph as [Hwt Hlt].
    pose proof (HQp t' eq_refl) as HQt.
    pose proof (tc_len_nonneg t' Hwt) as Ht0.
    cbn [step_okQ]. split.
    + intros o. cbv zeta. unfold set_phase.
      cbn [m_chunk_size m_min_chunk m_chunk_end m_removed m_deadline m_reads].
      assert (Hgen : forall b, wf b -> 0 <= tc_len b <= tc_len best ->
        minv n {| m_chunk_size := cs; m_min_chunk := mc; m_chunk_end := ce; m_removed := r;
                  m_deadline := dl; m_reads := rd; m_phase := PDecide |} b /\
        forall N, n + 1 <= N ->
          M N {| m_chunk_size := cs; m_min_chunk := mc; m_chunk_end := ce; m_removed := r;
                 m_deadline := dl; m_reads := rd; m_phase := PDecide |} (tc_len b) + 1 <=
          M N {| m_chunk_size := cs; m_min_chunk := mc; m_chunk_end := ce; m_removed := r;
                 m_deadline := dl; m_reads := rd; m_phase := PPost t' |} (tc_len best)).
      { intros b Hwb Hlb. split.
        - constructor; cbn [m_chunk_size m_min_chunk m_chunk_end m_phase]; try assumption;
            [lia | exact I].
        - intros N HN. unfold M. cbn [m_phase].
          assert (HN0 : 0 <= N) by lia.
          pose proof (MD_mono N {| m_chunk_size := cs; m_min_chunk := mc; m_chunk_end := ce;
                                   m_removed := r; m_deadline := dl; m_reads := rd;
                                   m_phase := PDecide |} (tc_len best) (tc_len b) HN0 Hw Hlb) as Hm.
          unfold MD, wgt in *. cbn [m_chunk_size m_removed] in *. lia. }
      destruct o as [|[|]]; apply Hgen; try assumption; lia.
    + intros o. unfold best_after, set_phase.
      destruct o as [|[|]];
        (split; [assumption | cbn [m_phase]; intros t0 E; discriminate E]).
  - (* PPostFail *)
    contradiction.
  - (* PDecide *)
    match goal with |- step_okQ _ _ _ (decide _ ?s1 _) =>
      pose proof (decide_ok n cfg s1 best Hwf Hn Hp Hmin) as H;
      pose proof (decide_q cfg s1 best Hwf HQ Hp Hmin) as Hq;
      destruct (decide cfg s1 best) as [t k| | |]; try contradiction; [|exact I]
    end.
    cbn [step_okQ]. split; [|exact Hq]. eapply prop_ok_weaken; [exact H|].
    intros N HN. cbv beta. unfold M. cbn [m_phase]. lia.
Qed.

Lemma loop_boundedQ : forall n cfg clk verdict,
  forall fuel st it w,
    minv n st (it_best it) -> qinv st (it_best it) ->
    M (n + 2) st (tc_len (it_best it)) + 1 <= Z.of_nat fuel ->
    loop_res_ok (n_tests (chron w) + M (n + 1) st (tc_len (it_best it)))
                (loop (minimize cfg clk post) verdict fuel st it w).
Proof.
  intros n cfg clk verdict.
  induction fuel as [|fuel IH]; intros st it w Hi Hq Hfuel.
  - assert (Hn0 : 0 <= n).
    { pose proof (tc_len_nonneg _ (mi_wf _ _ _ Hi)) as H0. pose proof (mi_len _ _ _ Hi). lia. }
    pose proof (M_nonneg n (n + 2) st (it_best it) Hi) as H0. lia.
  - assert (Hn0 : 0 <= n).
    { pose proof (tc_len_nonneg _ (mi_wf _ _ _ Hi)) as H0. pose proof (mi_len _ _ _ Hi). lia. }
    pose proof (M_nonneg n (n + 1) st (it_best it) Hi) as HM1.
    pose proof (mnext_okQ n cfg clk st (it_best it) Hi Hq) as Hstep.
    cbn [loop]. cbn [s_next minimize].
    destruct (mnext cfg clk post st (it_best it)) as [t k|b st'| |e]; cbn [step_okQ] in Hstep.
    + (* Propose *)
      destruct Hstep as [Hstep HstepQ].
      destruct (mem_bytes (content t) (it_tried it)) eqn:Hmem.
      * destruct (Hstep Skipped) as [Hi' Hm']. cbv zeta in Hi', Hm'.
        pose proof (HstepQ Skipped) as Hq'. unfold best_after in Hq'.
        pose proof (Hm' (n + 1)) as Hm1. pose proof (Hm' (n + 2)) as Hm2.
        specialize (IH (k Skipped) it w Hi' Hq').
        unfold loop_res_ok in *.
        destruct (loop (minimize cfg clk post) verdict fuel (k Skipped) it w) as [rc wf|[e|] wf|wf];
          lia.
      * destruct (interesting verdict w t true) as [w' a] eqn:Hint.
        destruct (interesting_true_inv verdict w t w' a Hint) as [_ Hw']. subst w'.
        pose proof (n_tests_wafter w t a) as Hnt.
        destruct a.
        -- destruct (Hstep (Tested true)) as [Hi' Hm']. cbv zeta in Hi', Hm'.
           pose proof (HstepQ (Tested true)) as Hq'. unfold best_after in Hq'.
           pose proof (Hm' (n + 1)) as Hm1. pose proof (Hm' (n + 2)) as Hm2.
           specialize (IH (k (Tested true))
                          {| it_best := t;
                             it_tried := it_tried {| it_best := it_best it;
                                                     it_tried := content t :: it_tried it;
                                                     it_any := it_any it |};
                             it_any := true |} (wafter w t Yes)).
           cbn [it_best] in IH. specialize (IH Hi' Hq').
           unfold loop_res_ok in *.
           match goal with |- match ?l with _ => _ end =>
             destruct l as [rc wf|[e|] wf|wf]; lia end.
        -- destruct (Hstep (Tested false)) as [Hi' Hm']. cbv zeta in Hi', Hm'.
           pose proof (HstepQ (Tested false)) as Hq'. unfold best_after in Hq'.
           pose proof (Hm' (n + 1)) as Hm1. pose proof (Hm' (n + 2)) as Hm2.
           specialize (IH (k (Tested false))
                          {| it_best := it_best it; it_tried := content t :: it_tried it;
                             it_any := it_any it |} (wafter w t No)).
           cbn [it_best] in IH. specialize (IH Hi' Hq').
           unfold loop_res_ok in *.
           match goal with |- match ?l with _ => _ end =>
             destruct l as [rc wf|[e|] wf|wf]; lia end.
        -- destruct (Hstep (Tested false)) as [Hi' Hm']. cbv zeta in Hi', Hm'.
           pose proof (Hm' (n + 1)) as Hm1.
           pose proof (M_nonneg n (n + 1) _ _ Hi') as H0.
           cbn [loop_res_ok]. lia.
    + (* RawWrite *)
      destruct Hstep as [[Hi' Hq'] Hm'].
      pose proof (Hm' (n + 1) 0) as Hm1. pose proof (Hm' (n + 2) 1) as Hm2.
      specialize (IH st' it (write_file b w) Hi' Hq').
      rewrite n_tests_write_file in IH.
      unfold loop_res_ok in *.
      destruct (loop (minimize cfg clk post) verdict fuel st' it (write_file b w))
        as [rc wf|[e|] wf|wf]; lia.
    + (* Done *)
      cbn [loop_res_ok]. rewrite n_tests_write_file. lia.
    + contradiction.
Qed.

Theorem minimize_bounded_rel :
  forall cfg clk verdict tc0 file0 fuel,
    wf tc0 -> Q tc0 -> valid_cfg cfg ->
    (Z.to_nat (2 * c09_bound (tc_len tc0)) <= fuel)%nat ->
    let r := Driver.run (minimize cfg clk post) verdict fuel tc0 file0 in
    (forall w, r <> NoFuel w) /\ (forall e w, r <> Aborted (Some e) w) /\
    n_tests (chron (result_world r)) <= c09_bound (tc_len tc0).
Proof.
  intros cfg clk verdict tc0 file0 fuel Hwf HQ0 Hv Hfuel r.
  pose proof (tc_len_nonneg tc0 Hwf) as H0.
  pose proof (c09_bound_ge1 (tc_len tc0) H0) as Hb1.
  destruct (run_cases mstate (minimize cfg clk post) verdict fuel tc0 file0)
    as [[Hn Hr]|[(Hn & Hv1 & Hr)|[(Hn & Hv1 & Hr)|(Hn & Hv1 & Hr)]]]; fold r in Hr.
  - rewrite Hr. split; [intros w; discriminate|]. split; [intros e w; discriminate|].
    cbn [result_world]. rewrite n_tests_finally.
    change (n_tests (chron (w0 tc0 file0))) with 0. lia.
  - rewrite Hr. split; [intros w; discriminate|]. split; [intros e w; discriminate|].
    cbn [result_world]. rewrite n_tests_finally.
    change (n_tests (chron (w1 tc0 file0 Raise))) with 1. lia.
  - rewrite Hr. split; [intros w; discriminate|]. split; [intros e w; discriminate|].
    cbn [result_world]. rewrite n_tests_finally.
    change (n_tests (chron (wN tc0 file0))) with 1. lia.
  - destruct (mstart_ok cfg clk tc0 Hwf Hv Hn) as (Hi & Ht & Hf). cbv zeta in Hi, Ht, Hf.
    assert (Hfz : M (tc_len tc0 + 2) (mstart cfg clk tc0) (tc_len tc0) + 1 <= Z.of_nat fuel)
      by lia.
    assert (Hq : qinv (mstart cfg clk tc0) tc0).
    { split; [exact HQ0|]. unfold mstart. cbn [m_phase]. intros t' E. discriminate E. }
    pose proof (loop_boundedQ (tc_len tc0) cfg clk verdict fuel
                  (mstart cfg clk tc0) (it0 tc0) (wY tc0 file0) Hi Hq Hfz) as Hl.
    cbn [it0 it_best] in Hl.
    change (n_tests (chron (wY tc0 file0))) with 1 in Hl.
    cbn [s_start minimize] in Hr. rewrite Hr.
    destruct (loop (minimize cfg clk post) verdict fuel (mstart cfg clk tc0) (it0 tc0)
                   (wY tc0 file0)) as [rc wf|[e|] wf|wf];
      cbn [loop_res_ok] in Hl; try contradiction; cbn [map_world result_world].
    + split; [intros w; discriminate|]. split; [intros e w; discriminate|].
      rewrite n_tests_finally. lia.
    + split; [intros w; discriminate|]. split; [intros e w; discriminate|].
      rewrite n_tests_finally. lia.
Qed.

End Rel.

(* ------------------------------------------------------------------ *)
(* 3. the invariant of line-mode testcases                            *)
(* ------------------------------------------------------------------ *)

Definition one_line (p : bytes) : Prop := (length (splitlines p) <= 1)%nat.

Definition Qline (best : tcase) : Prop :=
  Forall (fun b => b = true) (tc_red best) /\ Forall one_line (tc_parts best).

Lemma subred_Forall : forall (P : bytes * bool -> Prop) l l',
  subred l l' -> Forall P l -> Forall P l'.
Proof.
  intros P l l' H. induction H as [|x l l' H IH|p l l' H IH]; intros HF.
  - constructor.
  - inversion HF as [|x0 l0 Hx Hl]; subst. constructor; [exact Hx | apply IH; exact Hl].
  - inversion HF as [|x0 l0 Hx Hl]; subst. apply IH. exact Hl.
Qed.

Lemma Qline_sub_closed : sub_closed Qline.
Proof.
  intros best t Hwf [Hred Hparts] (_ & _ & Hwt & Hsub).
  rewrite <- (zipped_red best Hwf) in Hred. rewrite <- (zipped_parts best Hwf) in Hparts.
  rewrite Forall_map in Hred, Hparts.
  unfold Qline. rewrite <- (zipped_red t Hwt), <- (zipped_parts t Hwt), !Forall_map.
  split.
  - exact (subred_Forall _ _ _ Hsub Hred).
  - exact (subred_Forall _ _ _ Hsub Hparts).
Qed.

Lemma collapse_line_post_ok_rel : post_ok_rel Qline (collapse_post split_line).
Proof.
  intros best raw r Hwf [Hred Hparts] Hp.
  destruct (collapse_line_post_ok_corrected_lines best raw r Hwf Hred Hparts Hp)
    as (t' & Hr & Hwt & Hlt & Hred').
  exists t'. split; [exact Hr|]. split; [exact Hwt|]. split; [|exact Hlt].
  split; [exact Hred'|].
  destruct (collapse_post_shape split_line best raw r Hp) as (m & _ & Hr2).
  rewrite Hr in Hr2. unfold split_line in Hr2. cbn [bind sp_before sp_parts sp_red sp_after] in Hr2.
  injection Hr2 as Ht'. subst t'. cbn [tc_parts].
  apply lines_single.
Qed.

Lemma load_line_shape : forall d t, load_line d = Ok t ->
  exists m, tc_parts t = splitlines m /\ tc_red t = all_true (splitlines m).
Proof.
  intros d t H. unfold load_line, load in H.
  destruct (find_markers d) as [w|b m a|].
  - unfold split_line in H. cbn [bind sp_before sp_parts sp_red sp_after] in H.
    injection H as H. subst t. exists w. split; reflexivity.
  - unfold split_line in H. cbn [bind sp_before sp_parts sp_red sp_after] in H.
    injection H as H. subst t. exists m. split; reflexivity.
  - discriminate H.
Qed.

Lemma load_line_Qline : forall d t, load_line d = Ok t -> wf t /\ Qline t.
Proof.
  intros d t H.
  destruct (proj1 load_line_ok d t H) as (_ & _ & Hwf).
  destruct (load_line_shape d t H) as (m & Hparts & Hred).
  split; [exact Hwf|]. unfold Qline. rewrite Hparts, Hred.
  split; [apply all_true_Forall | apply lines_single].
Qed.

(* ------------------------------------------------------------------ *)
(* 4. the lemma used by Props/C09.v                                   *)
(* ------------------------------------------------------------------ *)

Lemma collapse_line_bounded :
  forall cfg clk verdict d tc0 fuel,
    load_line d = Ok tc0 -> valid_cfg cfg ->
    (Z.to_nat (2 * c09_bound (tc_len tc0)) <= fuel)%nat ->
    let r := Driver.run (collapse_brace cfg clk split_line) verdict fuel tc0 d in
    (forall w, r <> NoFuel w) /\ (forall e w, r <> Aborted (Some e) w) /\
    n_tests (chron (result_world r)) <= c09_bound (tc_len tc0).
Proof.
  intros cfg clk verdict d tc0 fuel Hld Hv Hfuel.
  destruct (load_line_Qline d tc0 Hld) as [Hwf HQ].
  unfold collapse_brace.
  exact (minimize_bounded_rel Qline (collapse_post split_line) collapse_line_post_ok_rel
           Qline_sub_closed cfg clk verdict tc0 d fuel Hwf HQ Hv Hfuel).
Qed.

Print Assumptions lines_resplit.
Print Assumptions minimize_bounded_rel.
Print Assumptions collapse_line_bounded.
