(* Model of reducer.Lithium.process_args as Lithium configures argparse (two parsers: the early
   one that picks --strategy and the atom type, and the main one), and of
   interestingness.utils.rel_or_abs_import against an import oracle.
   Token domain: full option names ("--opt value" or "--opt=value"), no abbreviations, no "--",
   no clustered short flags.  argparse and importlib themselves are modelled, not verified.
   Definitions only. *)
From Coq Require Import ZArith NArith List Bool String Ascii.
From Lithium Require Import PyBase Util.
Import ListNotations.
Open Scope Z_scope.

Definition b (s : string) : bytes := map N_of_ascii (list_ascii_of_string s).

Definition is_dash (t : bytes) : bool := match t with x :: _ => N.eqb x 45 | [] => false end.

Inductive okind := OFlag | OValue.
Definition optable := list (bytes * okind).

Fixpoint lookup (n : bytes) (tbl : optable) : option okind :=
  match tbl with [] => None | (m, k) :: r => if bytes_eqb n m then Some k else lookup n r end.

(* "--name=value" -> (name, value) *)
Fixpoint split_at_eq (t : bytes) (acc : bytes) : option (bytes * bytes) :=
  match t with
  | [] => None
  | x :: r => if N.eqb x 61 then Some (rev acc, r) else split_at_eq r (x :: acc)
  end.
Definition split_eq (t : bytes) : option (bytes * bytes) :=
  match t with
  | 45%N :: 45%N :: _ => split_at_eq t []
  | _ => None
  end.

Inductive item := IFlag (name : bytes) | IVal (name value : bytes).

(* optional arguments up to the first positional; everything from there on is the REMAINDER.
   lenient = parse_known_args of the early parser (unknown option-like tokens are skipped) *)
Fixpoint scan (tbl : optable) (lenient : bool) (toks : list bytes) (acc : list item)
  : res (list item * list bytes) :=
  match toks with
  | [] => Ok (rev acc, [])
  | t :: r =>
      if negb (is_dash t) then Ok (rev acc, toks)
      else
        match split_eq t with
        | Some (n, v) =>
            match lookup n tbl with
            | Some OValue => scan tbl lenient r (IVal n v :: acc)
            | Some OFlag => Err ValueError
            | None => if lenient then scan tbl lenient r acc else Err ValueError
            end
        | None =>
            match lookup t tbl with
            | Some OFlag => scan tbl lenient r (IFlag t :: acc)
            | Some OValue =>
                match r with
                | v :: r' => if is_dash v then Err ValueError
                             else scan tbl lenient r' (IVal t v :: acc)
                | [] => Err ValueError
                end
            | None => if lenient then scan tbl lenient r acc else Err ValueError
            end
        end
  end.

(* ---- Lithium's option tables ---- *)
Inductive atom := ALine | AChar | AJs | ASymbol | AAttrs.
Inductive strat := SMinimize | SAround | SBalanced | SCollapse | SReplaceProps | SReplaceArgs | SCheckOnly.

Definition atom_flags : list (bytes * atom) :=
  [(b "-l", ALine); (b "--lines", ALine); (b "-c", AChar); (b "--char", AChar); (b "-j", AJs);
   (b "--js", AJs); (b "-s", ASymbol); (b "--symbol", ASymbol); (b "-a", AAttrs); (b "--attrs", AAttrs)].

Definition strat_names : list (bytes * strat) :=
  [(b "minimize", SMinimize); (b "minimize-around", SAround); (b "minimize-balanced", SBalanced);
   (b "minimize-collapse-brace", SCollapse); (b "replace-properties-by-globals", SReplaceProps);
   (b "replace-arguments-by-globals", SReplaceArgs); (b "check-only", SCheckOnly)].

Definition common_opts : optable :=
  map (fun p => (fst p, OFlag)) atom_flags ++
  [(b "--strategy", OValue); (b "--testcase", OValue); (b "--tempdir", OValue);
   (b "-v", OFlag); (b "--verbose", OFlag)].

Definition minimize_opts : optable :=
  [(b "--min", OValue); (b "--max", OValue); (b "--repeat", OValue); (b "--chunk-size", OValue);
   (b "--repeat-first-round", OFlag); (b "--max-run-time", OValue)].
Definition balanced_opts : optable := [(b "--with-experimental-move", OFlag)].
Definition symbol_opts : optable := [(b "--cut-before", OValue); (b "--cut-after", OValue)].

Definition strat_opts (s : strat) : optable :=
  match s with
  | SCheckOnly => []
  | SBalanced => minimize_opts ++ balanced_opts
  | _ => minimize_opts
  end.
Definition atom_opts (a : atom) : optable := match a with ASymbol => symbol_opts | _ => [] end.

(* the main parser's table for the chosen strategy and atom type *)
Definition main_table (s : strat) (a : atom) : optable := common_opts ++ strat_opts s ++ atom_opts a.
(* the early parser after the fix: every option of every strategy and atom type *)
Definition early_table : optable := common_opts ++ minimize_opts ++ balanced_opts ++ symbol_opts.
(* the early parser before the fix knew only the atom flags and --strategy *)
Definition old_early_table : optable :=
  map (fun p => (fst p, OFlag)) atom_flags ++ [(b "--strategy", OValue)].

Fixpoint assoc {A} (n : bytes) (l : list (bytes * A)) : option A :=
  match l with [] => None | (m, x) :: r => if bytes_eqb n m then Some x else assoc n r end.

(* last --strategy / last atom flag among the parsed items *)
Fixpoint pick_strategy (items : list item) (cur : strat) : strat :=
  match items with
  | [] => cur
  | IVal n v :: r => if bytes_eqb n (b "--strategy")
                     then pick_strategy r (match assoc v strat_names with Some s => s | None => cur end)
                     else pick_strategy r cur
  | _ :: r => pick_strategy r cur
  end.
Fixpoint pick_atom (items : list item) (cur : atom) : atom :=
  match items with
  | [] => cur
  | IFlag n :: r => pick_atom r (match assoc n atom_flags with Some a => a | None => cur end)
  | _ :: r => pick_atom r cur
  end.

Definition early_choice (tbl : optable) (argv : list bytes) : strat * atom :=
  match scan tbl true argv [] with
  | Ok (items, _) => (pick_strategy items SMinimize, pick_atom items ALine)
  | Err _ => (SMinimize, ALine)
  end.

(* int("...") for decimal digits with optional sign *)
Fixpoint digits (t : bytes) (acc : Z) : option Z :=
  match t with
  | [] => Some acc
  | x :: r => if (48 <=? x)%N && (x <=? 57)%N then digits r (acc * 10 + Z.of_N x - 48) else None
  end.
Definition parse_int (t : bytes) : option Z :=
  match t with
  | 45%N :: (_ :: _) as r => option_map Z.opp (digits r 0)
  | _ :: _ => digits t 0
  | [] => None
  end.

Inductive rmode := RAlways | RLast | RNever.

Record config := {
  cf_strategy : strat; cf_atom : atom;
  cf_min : Z; cf_max : Z; cf_repeat : rmode; cf_first : bool; cf_limit : option Z;
  cf_chunk : option Z; cf_move : bool;
  cf_testcase : option bytes; cf_tempdir : option bytes;
  cf_cut_before : option bytes; cf_cut_after : option bytes
}.

Definition config0 (s : strat) (a : atom) : config :=
  {| cf_strategy := s; cf_atom := a; cf_min := 1; cf_max := 2 ^ 30; cf_repeat := RLast;
     cf_first := false; cf_limit := None; cf_chunk := None; cf_move := false;
     cf_testcase := None; cf_tempdir := None; cf_cut_before := None; cf_cut_after := None |}.

Definition set_field (c : config) (it : item) : res config :=
  let upd f := Ok f in
  match it with
  | IFlag n =>
      if bytes_eqb n (b "--repeat-first-round") then
        upd {| cf_strategy := cf_strategy c; cf_atom := cf_atom c; cf_min := cf_min c; cf_max := cf_max c;
               cf_repeat := cf_repeat c; cf_first := true; cf_limit := cf_limit c; cf_chunk := cf_chunk c;
               cf_move := cf_move c; cf_testcase := cf_testcase c; cf_tempdir := cf_tempdir c;
               cf_cut_before := cf_cut_before c; cf_cut_after := cf_cut_after c |}
      else if bytes_eqb n (b "--with-experimental-move") then
        upd {| cf_strategy := cf_strategy c; cf_atom := cf_atom c; cf_min := cf_min c; cf_max := cf_max c;
               cf_repeat := cf_repeat c; cf_first := cf_first c; cf_limit := cf_limit c; cf_chunk := cf_chunk c;
               cf_move := true; cf_testcase := cf_testcase c; cf_tempdir := cf_tempdir c;
               cf_cut_before := cf_cut_before c; cf_cut_after := cf_cut_after c |}
      else Ok c
  | IVal n v =>
      let int_field (k : Z -> config) := match parse_int v with Some z => Ok (k z) | None => Err ValueError end in
      if bytes_eqb n (b "--min") then
        int_field (fun z => {| cf_strategy := cf_strategy c; cf_atom := cf_atom c; cf_min := z; cf_max := cf_max c;
               cf_repeat := cf_repeat c; cf_first := cf_first c; cf_limit := cf_limit c; cf_chunk := cf_chunk c;
               cf_move := cf_move c; cf_testcase := cf_testcase c; cf_tempdir := cf_tempdir c;
               cf_cut_before := cf_cut_before c; cf_cut_after := cf_cut_after c |})
      else if bytes_eqb n (b "--max") then
        int_field (fun z => {| cf_strategy := cf_strategy c; cf_atom := cf_atom c; cf_min := cf_min c; cf_max := z;
               cf_repeat := cf_repeat c; cf_first := cf_first c; cf_limit := cf_limit c; cf_chunk := cf_chunk c;
               cf_move := cf_move c; cf_testcase := cf_testcase c; cf_tempdir := cf_tempdir c;
               cf_cut_before := cf_cut_before c; cf_cut_after := cf_cut_after c |})
      else if bytes_eqb n (b "--chunk-size") then
        int_field (fun z => {| cf_strategy := cf_strategy c; cf_atom := cf_atom c; cf_min := cf_min c; cf_max := cf_max c;
               cf_repeat := cf_repeat c; cf_first := cf_first c; cf_limit := cf_limit c; cf_chunk := Some z;
               cf_move := cf_move c; cf_testcase := cf_testcase c; cf_tempdir := cf_tempdir c;
               cf_cut_before := cf_cut_before c; cf_cut_after := cf_cut_after c |})
      else if bytes_eqb n (b "--max-run-time") then
        int_field (fun z => {| cf_strategy := cf_strategy c; cf_atom := cf_atom c; cf_min := cf_min c; cf_max := cf_max c;
               cf_repeat := cf_repeat c; cf_first := cf_first c; cf_limit := Some z; cf_chunk := cf_chunk c;
               cf_move := cf_move c; cf_testcase := cf_testcase c; cf_tempdir := cf_tempdir c;
               cf_cut_before := cf_cut_before c; cf_cut_after := cf_cut_after c |})
      else if bytes_eqb n (b "--repeat") then
        match (if bytes_eqb v (b "always") then Some RAlways else if bytes_eqb v (b "last") then Some RLast
               else if bytes_eqb v (b "never") then Some RNever else None) with
        | Some m => upd {| cf_strategy := cf_strategy c; cf_atom := cf_atom c; cf_min := cf_min c; cf_max := cf_max c;
               cf_repeat := m; cf_first := cf_first c; cf_limit := cf_limit c; cf_chunk := cf_chunk c;
               cf_move := cf_move c; cf_testcase := cf_testcase c; cf_tempdir := cf_tempdir c;
               cf_cut_before := cf_cut_before c; cf_cut_after := cf_cut_after c |}
        | None => Err ValueError
        end
      else if bytes_eqb n (b "--testcase") then
        upd {| cf_strategy := cf_strategy c; cf_atom := cf_atom c; cf_min := cf_min c; cf_max := cf_max c;
               cf_repeat := cf_repeat c; cf_first := cf_first c; cf_limit := cf_limit c; cf_chunk := cf_chunk c;
               cf_move := cf_move c; cf_testcase := Some v; cf_tempdir := cf_tempdir c;
               cf_cut_before := cf_cut_before c; cf_cut_after := cf_cut_after c |}
      else if bytes_eqb n (b "--tempdir") then
        upd {| cf_strategy := cf_strategy c; cf_atom := cf_atom c; cf_min := cf_min c; cf_max := cf_max c;
               cf_repeat := cf_repeat c; cf_first := cf_first c; cf_limit := cf_limit c; cf_chunk := cf_chunk c;
               cf_move := cf_move c; cf_testcase := cf_testcase c; cf_tempdir := Some v;
               cf_cut_before := cf_cut_before c; cf_cut_after := cf_cut_after c |}
      else if bytes_eqb n (b "--cut-before") then
        upd {| cf_strategy := cf_strategy c; cf_atom := cf_atom c; cf_min := cf_min c; cf_max := cf_max c;
               cf_repeat := cf_repeat c; cf_first := cf_first c; cf_limit := cf_limit c; cf_chunk := cf_chunk c;
               cf_move := cf_move c; cf_testcase := cf_testcase c; cf_tempdir := cf_tempdir c;
               cf_cut_before := Some v; cf_cut_after := cf_cut_after c |}
      else if bytes_eqb n (b "--cut-after") then
        upd {| cf_strategy := cf_strategy c; cf_atom := cf_atom c; cf_min := cf_min c; cf_max := cf_max c;
               cf_repeat := cf_repeat c; cf_first := cf_first c; cf_limit := cf_limit c; cf_chunk := cf_chunk c;
               cf_move := cf_move c; cf_testcase := cf_testcase c; cf_tempdir := cf_tempdir c;
               cf_cut_before := cf_cut_before c; cf_cut_after := Some v |}
      else Ok c
  end.

Fixpoint apply_items (c : config) (items : list item) : res config :=
  match items with
  | [] => Ok c
  | it :: r => c' <- set_field c it ;; apply_items c' r
  end.

(* the atom flags form a mutually exclusive group *)
Fixpoint atom_flag_count (items : list item) : nat :=
  match items with
  | [] => O
  | IFlag n :: r => (match assoc n atom_flags with Some _ => 1 | None => 0 end + atom_flag_count r)%nat
  | _ :: r => atom_flag_count r
  end.

(* Minimize.process_args: chunk-size shortcut, run-time limit, power-of-two validation *)
Definition finish_minimize (c : config) : res config :=
  let '(mn, mx, rp) :=
    match cf_chunk c with
    | Some z => (z, z, RNever)
    | None => (cf_min c, cf_max c, cf_repeat c)
    end in
  let lim := cf_limit c in
  if negb (is_power_of_two mn) || negb (is_power_of_two mx) then Err ValueError
  else Ok {| cf_strategy := cf_strategy c; cf_atom := cf_atom c; cf_min := mn; cf_max := mx;
             cf_repeat := rp; cf_first := cf_first c; cf_limit := lim; cf_chunk := cf_chunk c;
             cf_move := cf_move c; cf_testcase := cf_testcase c; cf_tempdir := cf_tempdir c;
             cf_cut_before := cf_cut_before c; cf_cut_after := cf_cut_after c |}.

Record parsed := { pa_config : config; pa_test : bytes; pa_test_args : list bytes; pa_file : bytes }.

(* Lithium.process_args up to (not including) loading the file and importing the test *)
Definition process_args (early : optable) (argv : list bytes) : res parsed :=
  let '(s, a) := early_choice early argv in
  v <- scan (main_table s a) false argv [] ;;
  let '(items, extra) := v in
  if Nat.ltb 1 (atom_flag_count items) then Err ValueError else
  c <- apply_items (config0 s a) items ;;
  c <- (match s with SCheckOnly => Ok c | _ => finish_minimize c end) ;;
  match extra with
  | [] => Err ValueError
  | name :: rest =>
      Ok {| pa_config := c; pa_test := name; pa_test_args := rest;
            pa_file := match cf_testcase c with Some f => f | None => last extra name end |}
  end.

(* ---- rel_or_abs_import against an import oracle ---- *)
Section Import.
  Variable origin : Type.
  Variable loaded : bytes -> option origin.            (* sys.modules *)
  Variable in_dir : bytes -> bytes -> option origin.   (* module `name` found in directory `dir` *)
  Variable builtin : bytes -> option origin.           (* lithium.interestingness.<name> *)

  Fixpoint find_on_path (path : list bytes) (name : bytes) : option origin :=
    match path with
    | [] => None
    | d :: r => match in_dir d name with Some o => Some o | None => find_on_path r name end
    end.

  (* importlib.import_module(name) *)
  Definition import_module (path : list bytes) (name : bytes) : option origin :=
    match loaded name with Some o => Some o | None => find_on_path path name end.

  Fixpoint remove_first (d : bytes) (l : list bytes) : list bytes :=
    match l with [] => [] | x :: r => if bytes_eqb x d then r else x :: remove_first d r end.

  (* dir = Some d: a path was given (d = its realpath); None: only a name (cwd is searched).
     Result: the module or ImportError, and sys.path afterwards *)
  Definition rel_or_abs_import (syspath : list bytes) (cwd : bytes) (dir : option bytes) (name : bytes)
    : option origin * list bytes :=
    let d := match dir with Some d => d | None => cwd end in
    let path1 := d :: syspath in
    let r := import_module path1 name in
    let path2 := remove_first d path1 in
    match r with
    | Some o => (Some o, path2)
    | None => match dir with
              | Some _ => (None, path2)
              | None => (builtin name, path2)
              end
    end.
End Import.
