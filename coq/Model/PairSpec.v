(* Independent specification vocabulary for the pair strategies (C13).  Definitions only. *)
From Coq Require Import ZArith NArith List Bool.
From Lithium Require Import PyBase TcRecord Util Testcase Spec Driver Minimize Pairs.
Import ListNotations.
Open Scope Z_scope.

(* delete the two reducible atoms of rank i < j (the higher one first, as the code does) *)
Definition rm2 (t : tcase) (i j : Z) : res tcase :=
  t1 <- rmslice t j (j + 1) ;; rmslice t1 i (i + 1).

(* ( {}-balance, []-balance, ()-balance ) of one atom *)
Definition bdiff (p : bytes) : Z * Z * Z :=
  (count_diff p 123 125, count_diff p 91 93, count_diff p 40 41).
Definition add3 (a b : Z * Z * Z) : Z * Z * Z :=
  let '(a1, a2, a3) := a in let '(b1, b2, b3) := b in (a1 + b1, a2 + b2, a3 + b3).
Definition neg3 (a : Z * Z * Z) : bool := let '(a1, a2, a3) := a in (a1 <? 0) || (a2 <? 0) || (a3 <? 0).
Definition balanced_atom (p : bytes) : bool := zero3 (bdiff p).

(* the partner of an unbalanced atom: the first later atom at which the running bracket
   balance returns to zero, without having gone negative on the way *)
Fixpoint partner_from (ps : list bytes) (j : Z) (n : Z * Z * Z) : option Z :=
  match ps with
  | [] => None
  | p :: r => let n' := add3 n (bdiff p) in
              if neg3 n' then None else if zero3 n' then Some j else partner_from r (j + 1) n'
  end.
Definition partner (parts : list bytes) (i : Z) : option Z :=
  match nth_error parts (Z.to_nat i) with
  | None => None
  | Some p => if balanced_atom p then None
              else partner_from (skipn (S (Z.to_nat i)) parts) (i + 1) (bdiff p)
  end.

Definition all_reducible (t : tcase) : Prop := Forall (fun b => b = true) (tc_red t).
