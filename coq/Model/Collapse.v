(* Model of strategies.CollapseEmptyBraces._post_round_cb: re.sub(rb"{\s+}", b"{ }", raw), raw
   write of before + modified + after, re-split of the region with the testcase's own split_parts.  Definitions only. *)
From Coq Require Import ZArith NArith List Bool.
From Lithium Require Import PyBase TcRecord Markers SplitAttrs Driver Minimize.
Import ListNotations.

(* length of the whitespace run if d = ws+ "}" ..., else None *)
Definition ws_then_close (d : bytes) : option nat :=
  let k := SplitAttrs.run is_ws d in
  match k with
  | O => None
  | _ => match nth_error d k with
         | Some c => if N.eqb c 125 then Some k else None
         | None => None
         end
  end.

(* re.sub(rb"{\s+}", b"{ }", d): leftmost, non-overlapping *)
Fixpoint collapse_sub (fuel : nat) (d : bytes) : bytes :=
  match fuel with
  | O => d
  | S f =>
      match d with
      | [] => []
      | c :: r =>
          if N.eqb c 123 then
            match ws_then_close r with
            | Some k => [123; 32; 125]%N ++ collapse_sub f (skipn (S k) r)
            | None => c :: collapse_sub f r
            end
          else c :: collapse_sub f r
      end
  end.
Definition collapse (d : bytes) : bytes := collapse_sub (length d) d.

(* sp = the split_parts of the testcase's own type: only the region is re-split; before / after
   stay as they are (split_parts may add a header / footer to them: jsstr) *)
Definition collapse_post (sp : splitter) : post_t := fun best =>
  let raw := concat (tc_parts best) in
  let modified := collapse raw in
  if bytes_eqb raw modified then None
  else let file := tc_before best ++ modified ++ tc_after best in
       Some (file,
             s <- sp modified ;;
             Ok {| tc_before := tc_before best ++ sp_before s; tc_parts := sp_parts s;
                   tc_red := sp_red s; tc_after := sp_after s ++ tc_after best |}).

Definition collapse_brace (cfg : mcfg) (clk : clock_t) (sp : splitter) : strategy mstate :=
  minimize cfg clk (collapse_post sp).
