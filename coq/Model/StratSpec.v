(* Vocabulary for statements about concrete strategies.  Definitions only. *)
From Coq Require Import ZArith NArith List Bool.
From Lithium Require Import PyBase TcRecord Util Testcase Spec Driver TraceSpec Minimize.
Import ListNotations.
Open Scope Z_scope.

(* loop states reachable in a run (after an accepted initial check) *)
Definition reachable {S} (strat : strategy S) (verdict : verdict_t) (tc0 : tcase) (file0 : bytes)
           (st : S) (it : iter) (w : world) : Prop :=
  lsteps strat verdict (loop_start strat verdict tc0 file0) (LS st it w).

(* a strategy all of whose proposals delete reducible atoms of the current best and which never
   writes the file itself; I is an invariant relating strategy state and current best *)
Definition deleting {S} (strat : strategy S) (I : S -> tcase -> Prop) : Prop :=
  forall st best, I st best -> wf best ->
    match s_next strat st best with
    | Propose t k => sub_reducible best t /\
                     I (k Skipped) best /\ I (k (Tested false)) best /\ I (k (Tested true)) t
    | RawWrite _ _ => False
    | Done => True
    | Fail _ => True
    end.

(* every file the test saw is the original with reducible atoms deleted *)
Definition tests_are_deletions (tc0 : tcase) (tr : list event) : Prop :=
  Forall (fun e => match e with
                   | ETest _ _ f _ => exists t, sub_reducible tc0 t /\ f = content t
                   | _ => True end) tr.

Definition pow2 (c : Z) : Prop := exists j, 0 <= j /\ c = 2 ^ j.

Definition valid_cfg (cfg : mcfg) : Prop :=
  is_power_of_two (c_min cfg) = true /\ is_power_of_two (c_max cfg) = true.

Definition eff_max (cfg : mcfg) (n0 : Z) : Z :=
  Z.min (c_max cfg) (largest_power_of_two_smaller_than n0).

(* ceil(log2 n), 0 for n <= 1 *)
Definition clog2 (n : Z) : Z := if n <=? 1 then 0 else Z.log2_up n.
Definition c09_bound (n : Z) : Z := (n + 1) * (n + clog2 n + 2) + 1.

(* what C09 needs from a post-round callback: the re-load succeeds and does not grow *)
Definition post_ok (post : post_t) : Prop :=
  forall best raw r, wf best -> post best = Some (raw, r) ->
    exists t', r = Ok t' /\ wf t' /\ tc_len t' <= tc_len best.

(* deterministic interestingness test given by a predicate on the file *)
Definition det (f : bytes -> bool) : verdict_t := fun _ file => if f file then Yes else No.
