(* Pinned copies of the source-derived tables from which the hand-written models were made
   (a snapshot of Gen/GenTables.v taken when the models were written and reviewed).
   GenEq/GenEq*.v proves the tables regenerated on every run equal to these. *)
From Coq Require Import ZArith NArith List Bool String.
Import ListNotations.
Open Scope Z_scope.

Module Pins.
Definition marker_finds : list (list N) := [[68; 68; 66; 69; 71; 73; 78]%N; [68; 68; 69; 78; 68]%N; [68; 68; 69; 78; 68]%N].
Definition marker_find_subjects : list string := ["line"%string; "line"%string; "line"%string].
Definition load_splitlines_calls : list string := ["text.splitlines(keepends=True)"%string].
Definition char_load_body : string := "super().load(path) ; if (self.before or self.after) and self.parts:
    self.after = self.parts.pop() + self.after
    self.reducible.pop()"%string.
Definition DEFAULT_CUT_AFTER : list N := [63; 61; 59; 123; 91; 10]%N.
Definition DEFAULT_CUT_BEFORE : list N := [93; 125; 58]%N.
Definition cutter_prelude : list string := ["before = re.escape(before)"%string; "after = re.escape(after)"%string; "ends = [b'$']"%string; "if after:
    ends.insert(0, b'[' + after + b']')"%string; "if before:
    ends.append(b'(?=[' + before + b'])')"%string].
Definition cutter_template : string := "(b'[' + before + b']?' if before else b'') + (b'[^' + before + after + b']*' if before or after else b'(?s:.)*') + b'(?:' + b'|'.join(ends) + b')'"%string.
Definition symbol_split_body : string := "assert self._cutter is not None ; for statement in self._cutter.finditer(data):
    if statement.group(0):
        self.parts.append(statement.group(0))
        self.reducible.append(True)"%string.
Definition js_re_calls : list (string * list N * string) := [("match"%string, [40; 92; 92; 117; 91; 48; 45; 57; 65; 45; 70; 97; 45; 102; 93; 123; 52; 125; 124; 92; 92; 120; 91; 48; 45; 57; 65; 45; 70; 97; 45; 102; 93; 123; 50; 125; 124; 92; 92; 117; 92; 123; 91; 48; 45; 57; 65; 45; 70; 97; 45; 102; 93; 43; 92; 125; 124; 92; 92; 46; 124; 46; 41]%N, "re.DOTALL"%string); ("search"%string, [91; 39; 34; 93]%N, ""%string)].
Definition TAG_PATTERN : list N := [60; 92; 115; 42; 91; 65; 45; 90; 97; 45; 122; 93; 91; 65; 45; 90; 97; 45; 122; 45; 93; 42]%N.
Definition ATTR_PATTERN : list N := [40; 40; 92; 115; 43; 124; 94; 41; 91; 65; 45; 90; 97; 45; 122; 93; 91; 65; 45; 90; 97; 45; 122; 48; 45; 57; 58; 45; 93; 42; 40; 61; 124; 62; 124; 92; 115; 41; 124; 92; 115; 42; 62; 41]%N.
Definition attrs_re_calls : list (string * list N * string) := [("match"%string, [101; 120; 112; 114; 58; 115; 101; 108; 102; 46; 65; 84; 84; 82; 95; 80; 65; 84; 84; 69; 82; 78]%N, ""%string); ("search"%string, [101; 120; 112; 114; 58; 115; 101; 108; 102; 46; 65; 84; 84; 82; 95; 80; 65; 84; 84; 69; 82; 78]%N, "re.MULTILINE"%string); ("search"%string, [101; 120; 112; 114; 58; 97; 116; 116; 114; 95; 112; 97; 114; 116; 115; 91; 45; 49; 93]%N, ""%string); ("search"%string, [40; 92; 115; 124; 62; 41]%N, ""%string); ("search"%string, [101; 120; 112; 114; 58; 115; 101; 108; 102; 46; 84; 65; 71; 95; 80; 65; 84; 84; 69; 82; 78]%N, ""%string)].
Definition minimize_options : list string := ["--min default=1 type=int"%string; "--max default=pow(2, 30) type=int"%string; "--repeat choices=['always', 'last', 'never'] default='last'"%string; "--chunk-size default=None type=int"%string; "--repeat-first-round action='store_true'"%string; "--max-run-time default=None type=int"%string].
Definition minimize_process_args : string := "super().process_args(parser, args) ; if args.chunk_size is not None:
    self.minimize_min = args.chunk_size
    self.minimize_max = args.chunk_size
    self.minimize_repeat = 'never'
else:
    self.minimize_min = args.min
    self.minimize_max = args.max
    self.minimize_repeat = args.repeat ; self.minimize_repeat_first_round = args.repeat_first_round ; if args.max_run_time is not None:
    self.stop_after_time = args.max_run_time ; if not is_power_of_two(self.minimize_min):
    parser.error('Min must be a power of two.') ; if not is_power_of_two(self.minimize_max):
    parser.error('Max must be a power of two.')"%string.
Definition minimize_repeat_tests : list string := ["self.minimize_repeat != 'never'"%string; "self.minimize_repeat == 'always'"%string; "self.minimize_repeat in {'always', 'last'}"%string].
Definition collapse_re_calls : list (string * list N * string) := [("sub"%string, [123; 92; 115; 43; 125]%N, ""%string)].
Definition collapse_literals : list (list N) := [[]%N; [123; 92; 115; 43; 125]%N; [123; 32; 125]%N].
Definition create_temp_dir_catches : list string := ["FileExistsError"%string].
Definition create_temp_dir_body : string := "i = 1 ; while True:
    temp_dir = Path(f'tmp{i}')
    try:
        temp_dir.mkdir()
    except FileExistsError:
        i += 1
    else:
        self.temp_dir = temp_dir
        break"%string.
Definition testcase_methods : list string := ["Testcase(abc.ABC): __init__ __len__ _slice_xlat rmslice copy load add_arguments handle_args split_parts dump | "%string; "TestcaseLine(Testcase): split_parts | atom args arg_help"%string; "TestcaseChar(Testcase): load split_parts | atom args arg_help"%string; "TestcaseJsStr(Testcase): split_parts | atom args arg_help"%string; "TestcaseSymbol(Testcase): __init__ copy set_cut_chars split_parts handle_args add_arguments | atom DEFAULT_CUT_AFTER DEFAULT_CUT_BEFORE args arg_help"%string; "TestcaseAttrs(Testcase): split_parts | atom args arg_help TAG_PATTERN ATTR_PATTERN"%string].
Definition strategy_methods : list string := ["ReductionIterator(abc.ABC): __init__ last_feedback update_tried get_tried feedback try_testcase testcase reduced description __iter__ wrap | "%string; "Strategy(abc.ABC): add_args process_args reduce main | "%string; "CheckOnly(Strategy): reduce main | name"%string; "Minimize(Strategy): __init__ _chunk_iters add_args process_args _post_round_cb reduce | name"%string; "MinimizeSurroundingPairs(Minimize): reduce try_removing_chunks | name"%string; "MinimizeBalancedPairs(MinimizeSurroundingPairs): __init__ add_args process_args try_removing_chunks | name"%string; "ReplacePropertiesByGlobals(Minimize): reduce try_making_globals | name"%string; "ReplaceArgumentsByGlobals(Minimize): reduce try_arguments_as_globals | name"%string; "CollapseEmptyBraces(Minimize): _post_round_cb | name"%string].
End Pins.
