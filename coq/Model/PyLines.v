(* Byte-level model of
     data.decode("utf-8", errors="surrogateescape").splitlines(keepends=True)
   with every line re-encoded (utf-8, surrogateescape).  Line boundaries: after 0A 0B 0C 1C 1D
   1E, after 0D unless followed by 0A (then after the pair), after C2 85 (U+0085), after
   E2 80 A8 / E2 80 A9 (U+2028/9).  See DESIGN.md section 6 for why no other byte sequence
   is a boundary.  Definitions only. *)
From Coq Require Import ZArith NArith List Bool.
From Lithium Require Import PyBase.
Import ListNotations.
Local Open Scope N_scope.

Definition simple_term (b : N) : bool :=
  (b =? 10) || (b =? 11) || (b =? 12) || (b =? 28) || (b =? 29) || (b =? 30).

(* cur = bytes of the current line, newest first *)
Fixpoint sl (cur : bytes) (d : bytes) {struct d} : list bytes :=
  match d with
  | [] => match cur with [] => [] | _ => [rev cur] end
  | b :: r =>
      if simple_term b then rev (b :: cur) :: sl [] r
      else if b =? 13 then
        match r with
        | c :: r' => if c =? 10 then rev (c :: b :: cur) :: sl [] r'
                     else rev (b :: cur) :: sl [] r
        | [] => [rev (b :: cur)]
        end
      else if b =? 194 then            (* C2 85 *)
        match r with
        | c :: r' => if c =? 133 then rev (c :: b :: cur) :: sl [] r' else sl (b :: cur) r
        | [] => sl (b :: cur) r
        end
      else if b =? 226 then            (* E2 80 A8 | E2 80 A9 *)
        match r with
        | c1 :: r1 =>
            if c1 =? 128 then
              match r1 with
              | c2 :: r2 => if (c2 =? 168) || (c2 =? 169)
                            then rev (c2 :: c1 :: b :: cur) :: sl [] r2
                            else sl (b :: cur) r
              | [] => sl (b :: cur) r
              end
            else sl (b :: cur) r
        | [] => sl (b :: cur) r
        end
      else sl (b :: cur) r
  end.

Definition splitlines (d : bytes) : list bytes := sl [] d.
