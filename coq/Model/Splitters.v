(* Models of the split_parts methods: line, char, symbol (jsstr and attrs: SplitJs.v,
   SplitAttrs.v).  Definitions only. *)
From Coq Require Import ZArith NArith List Bool.
From Lithium Require Import PyBase TcRecord PyLines Markers.
Import ListNotations.

Definition all_true {A} (l : list A) : list bool := map (fun _ => true) l.

Definition split_line : splitter := fun d =>
  let ps := splitlines d in
  Ok {| sp_before := []; sp_parts := ps; sp_red := all_true ps; sp_after := [] |}.

Definition split_char : splitter := fun d =>
  let ps := map (fun b => [b]) d in
  Ok {| sp_before := []; sp_parts := ps; sp_red := all_true ps; sp_after := [] |}.

Fixpoint mem_byte (b : N) (s : bytes) : bool :=
  match s with [] => false | x :: r => N.eqb b x || mem_byte b r end.

(* the symbol cutter  [B]?[^BA]*(?:[A]|$|(?=[B]))  (a class is left out of the pattern when its set is
   empty: fix c3e3b03) as a direct scanner; B = cut-before set,
   A = cut-after set (both read as plain byte sets: see class_safe in the C15 statements).
   `tok_run` consumes the maximal run of bytes outside A and B and an A byte after it *)
Fixpoint tok_run (bs afs : bytes) (acc : bytes) (d : bytes) : bytes * bytes :=
  match d with
  | [] => (rev acc, [])
  | x :: r =>
      if mem_byte x afs then (rev (x :: acc), r)
      else if mem_byte x bs then (rev acc, d)
      else tok_run bs afs (x :: acc) r
  end.

(* one match of the cutter at the head of d (d non-empty): optional B byte, then tok_run *)
Definition cut_one (bs afs : bytes) (d : bytes) : bytes * bytes :=
  match d with
  | [] => ([], [])
  | x :: r =>
      if mem_byte x bs then
        let '(tok, rest) := tok_run bs afs [] r in (x :: tok, rest)
      else tok_run bs afs [] d
  end.

Fixpoint cut_all (fuel : nat) (bs afs : bytes) (d : bytes) : list bytes :=
  match fuel with
  | O => []
  | S f =>
      match d with
      | [] => []
      | _ => let '(tok, rest) := cut_one bs afs d in
             match tok with
             | [] => []            (* cannot happen: cut_one consumes at least one byte *)
             | _ => tok :: cut_all f bs afs rest
             end
      end
  end.

Definition split_symbol (bs afs : bytes) : splitter := fun d =>
  let ps := cut_all (length d) bs afs d in
  Ok {| sp_before := []; sp_parts := ps; sp_red := all_true ps; sp_after := [] |}.

Definition DEFAULT_CUT_AFTER : bytes := [63; 61; 59; 123; 91; 10]%N.   (* ?=;{[\n *)
Definition DEFAULT_CUT_BEFORE : bytes := [93; 125; 58]%N.              (* ]}: *)

Definition load_line (d : bytes) : res tcase := load split_line d.
Definition load_char (d : bytes) : res tcase :=
  t <- load split_char d ;; Ok (char_fixup t).
Definition load_symbol (bs afs : bytes) (d : bytes) : res tcase := load (split_symbol bs afs) d.
