(* The interestingness test as a stronger adversary: besides answering, it may CHANGE the testcase
   file while it runs (a browser rewriting its prefs file, a formatter working in place, a tool that
   deletes its input).  `scr k file` is what test number k leaves at the testcase path when it found
   `file` there (None: untouched).  The test's own write is not a write of Lithium's: no EWrite event.
   Everything else is Driver.v's run, unchanged.  Definitions only. *)
From Coq Require Import ZArith NArith List Bool.
From Lithium Require Import PyBase TcRecord Testcase Driver.
Import ListNotations.
Open Scope Z_scope.

Definition scribble_t := Z -> bytes -> option bytes.

Definition set_file (b : bytes) (w : world) : world :=
  {| w_file := b; w_temp := w_temp w; w_tests := w_tests w; w_tfc := w_tfc w;
     w_total := w_total w; w_last := w_last w; w_dirty := w_dirty w; w_trace := w_trace w |}.

(* after Lithium.interesting returns, the file holds what the test left there *)
Definition leave (scr : scribble_t) (w : world) : world :=
  match scr (w_tests w) (w_file w) with
  | Some b => set_file b w
  | None => w
  end.

Definition interesting_s (verdict : verdict_t) (scr : scribble_t) (w : world) (t : tcase)
           (write_it : bool) : world * answer :=
  let (w', a) := interesting verdict w t write_it in (leave scr w', a).

Fixpoint loop_s {S} (strat : strategy S) (verdict : verdict_t) (scr : scribble_t) (fuel : nat)
         (st : S) (it : iter) (w : world) : result :=
  match fuel with
  | O => NoFuel w
  | Datatypes.S fuel' =>
      match s_next strat st (it_best it) with
      | Done => Finished (if it_any it then 0 else 1) (write_file (content (it_best it)) w)
      | Fail e => Aborted (Some e) w
      | RawWrite b st' => loop_s strat verdict scr fuel' st' it (write_file b w)
      | Propose t k =>
          if mem_bytes (content t) (it_tried it) then loop_s strat verdict scr fuel' (k Skipped) it w
          else
            let it1 := {| it_best := it_best it; it_tried := content t :: it_tried it;
                          it_any := it_any it |} in
            match interesting_s verdict scr w t true with
            | (w', Raise) => Aborted None w'
            | (w', Yes) =>
                loop_s strat verdict scr fuel' (k (Tested true))
                       {| it_best := t; it_tried := it_tried it1; it_any := true |} w'
            | (w', No) => loop_s strat verdict scr fuel' (k (Tested false)) it1 w'
            end
      end
  end.

Definition strategy_main_s {S} (strat : strategy S) (verdict : verdict_t) (scr : scribble_t)
           (fuel : nat) (tc0 : tcase) (w : world) : result :=
  let w := temp_copy Original (content tc0) false w in
  if tc_len tc0 =? 0 then Finished 0 w
  else match interesting_s verdict scr w tc0 false with
       | (w', Raise) => Aborted None w'
       | (w', No) => Finished 1 w'
       | (w', Yes) =>
           loop_s strat verdict scr fuel (s_start strat tc0)
                  {| it_best := tc0; it_tried := []; it_any := false |} w'
       end.

Definition run_s {S} (strat : strategy S) (verdict : verdict_t) (scr : scribble_t) (fuel : nat)
           (tc0 : tcase) (file0 : bytes) : result :=
  map_world finally (strategy_main_s strat verdict scr fuel tc0 (log EInit (init_world file0))).

(* two worlds that differ at most in the bytes at the testcase path *)
Definition same_but_file (w1 w2 : world) : Prop :=
  w_temp w1 = w_temp w2 /\ w_tests w1 = w_tests w2 /\ w_tfc w1 = w_tfc w2 /\
  w_total w1 = w_total w2 /\ w_last w1 = w_last w2 /\ w_dirty w1 = w_dirty w2 /\
  w_trace w1 = w_trace w2.

Definition same_result_but_file (r1 r2 : result) : Prop :=
  match r1, r2 with
  | Finished rc1 w1, Finished rc2 w2 => rc1 = rc2 /\ same_but_file w1 w2
  | Aborted e1 w1, Aborted e2 w2 => e1 = e2 /\ same_but_file w1 w2
  | NoFuel w1, NoFuel w2 => same_but_file w1 w2
  | _, _ => False
  end.
