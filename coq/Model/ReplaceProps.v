(* Concrete model of ReplacePropertiesByGlobals.try_making_globals (strategies.py): one pass of
   replace-properties-by-globals, to be plugged into the abstract outer loop of Rewriters.v.
     words: for every reducible part, every match of  (?<=[\w\d_])\.(\w+)  adds the part's index to the
            entry of the captured word (dict in insertion order, one index per MATCH, so an index can repeat);
     for every word, the indexes are grouped by  index // chunk_size  (insertion order); a group of one index
     is skipped unless this is the final chunk size; the candidate is the CURRENT best with
            re.sub(rb"[\w_.]+\." + word, word, part)
     applied once per listed index (in order), maybe_removed = bytes removed.
   Bytes patterns: \w = [a-zA-Z0-9_] (ASCII only), so \d and _ add nothing to the classes.
   Definitions only. *)
From Coq Require Import ZArith NArith List Bool.
From Lithium Require Import PyBase TcRecord Util Testcase Driver Minimize Rewriters.
Import ListNotations.
Open Scope Z_scope.

Definition is_w (c : N) : bool :=
  ((48 <=? c) && (c <=? 57) || (65 <=? c) && (c <=? 90) || (97 <=? c) && (c <=? 122) || (c =? 95))%N.
Definition is_dot (c : N) : bool := (c =? 46)%N.
(* the class [\w_.] *)
Definition is_wd (c : N) : bool := is_w c || is_dot c.

(* ---- re.finditer(rb"(?<=[\w\d_])\.(\w+)", line): the captured words, in order.
   prevw: the previous byte is a word byte; cap: Some w = a dot with a word byte before it has been seen
   and w (reversed) is the word collected so far. *)
Fixpoint find_props (s : bytes) (prevw : bool) (cap : option bytes) : list bytes :=
  match s with
  | [] => match cap with Some (c :: w) => [rev (c :: w)] | _ => [] end
  | c :: r =>
      match cap with
      | Some w =>
          if is_w c then find_props r true (Some (c :: w))
          else
            let emit := match w with [] => [] | _ => [rev w] end in
            let prevw' := match w with [] => false | _ => true end in
            emit ++ find_props r (is_w c) (if is_dot c && prevw' then Some [] else None)
      | None => find_props r (is_w c) (if is_dot c && prevw then Some [] else None)
      end
  end.
Definition props_of (line : bytes) : list bytes := find_props line false None.

(* ---- re.sub(rb"[\w_.]+\." + word, word, line) for a word of word bytes.
   A match starts at the beginning of a maximal run of [\w_.] bytes and extends (greedy, then
   backtracking) to the end of the LAST occurrence of "." ++ word that starts at offset >= 1 of the run;
   the rest of the run contains no further occurrence, so each run is rewritten at most once. *)
Fixpoint starts_with (p s : bytes) : bool :=
  match p, s with
  | [], _ => true
  | a :: p', b :: s' => (a =? b)%N && starts_with p' s'
  | _ :: _, [] => false
  end.

(* offset of the last occurrence of p in s at an offset >= 1 (off = offset of s in the run) *)
Fixpoint last_occ (p s : bytes) (off : nat) : option nat :=
  match s with
  | [] => None
  | _ :: r =>
      match last_occ p r (S off) with
      | Some k => Some k
      | None => if (1 <=? off)%nat && starts_with p s then Some off else None
      end
  end.

Definition sub_run (word run : bytes) : bytes :=
  match last_occ (46%N :: word) run 0 with
  | Some k => word ++ skipn (k + 1 + length word) run
  | None => run
  end.

(* run = the current run of class bytes, reversed *)
Fixpoint sub_scan (word s run : bytes) : bytes :=
  match s with
  | [] => sub_run word (rev run)
  | c :: r =>
      if is_wd c then sub_scan word r (c :: run)
      else sub_run word (rev run) ++ c :: sub_scan word r []
  end.
Definition sub_word (word line : bytes) : bytes := sub_scan word line [].

(* ---- the words dictionary and the per-word grouping (Python dicts keep insertion order) *)
Fixpoint dict_add {V} (eqb : bytes -> bytes -> bool) (k : bytes) (v : V) (d : list (bytes * list V))
  : list (bytes * list V) :=
  match d with
  | [] => [(k, [v])]
  | (k', vs) :: r => if eqb k k' then (k', vs ++ [v]) :: r else (k', vs) :: dict_add eqb k v r
  end.

Fixpoint zdict_add (k : Z) (v : Z) (d : list (Z * list Z)) : list (Z * list Z) :=
  match d with
  | [] => [(k, [v])]
  | (k', vs) :: r => if k =? k' then (k', vs ++ [v]) :: r else (k', vs) :: zdict_add k v r
  end.

Fixpoint words_of (parts : list bytes) (red : list bool) (idx : Z) (d : list (bytes * list Z))
  : list (bytes * list Z) :=
  match parts, red with
  | p :: ps, f :: fs =>
      let d' := if f then fold_left (fun d w => dict_add bytes_eqb w idx d) (props_of p) d else d in
      words_of ps fs (idx + 1) d'
  | _, _ => d
  end.

Definition groups (chunk_size : Z) (chunks : list Z) : list (Z * list Z) :=
  fold_left (fun d c => zdict_add (c / chunk_size) c d) chunks [].

(* the work list of a pass: (word, chunk_starts), filter applied *)
Definition pass_items (final chunk_size : Z) (best : tcase) : list (bytes * list Z) :=
  flat_map (fun wc : bytes * list Z =>
              flat_map (fun g : Z * list Z =>
                          if (zlen (snd g) =? 1) && negb (final =? chunk_size) then []
                          else [(fst wc, snd g)])
                       (groups chunk_size (snd wc)))
           (words_of (tc_parts best) (tc_red best) 0 []).

(* apply the substitution at one index; returns the new parts, flags and the bytes removed *)
Fixpoint subst_at (word : bytes) (i : nat) (parts : list bytes) (red : list bool)
  : list bytes * list bool * Z :=
  match i, parts, red with
  | O, p :: ps, _ :: fs => let q := sub_word word p in (q :: ps, true :: fs, zlen p - zlen q)
  | Datatypes.S j, p :: ps, f :: fs =>
      let '(ps', fs', d) := subst_at word j ps fs in (p :: ps', f :: fs', d)
  | _, _, _ => (parts, red, 0)
  end.

Definition candidate (word : bytes) (starts : list Z) (best : tcase) : Z * tcase :=
  let '(ps, fs, d) :=
    fold_left (fun (acc : list bytes * list bool * Z) (c : Z) =>
                 let '(ps, fs, d) := acc in
                 let '(ps', fs', d') := subst_at word (Z.to_nat c) ps fs in (ps', fs', d + d'))
              starts (tc_parts best, tc_red best, 0) in
  (d, {| tc_before := tc_before best; tc_parts := ps; tc_red := fs; tc_after := tc_after best |}).

Definition props_pass_start (cfg : mcfg) (chunk_size : Z) (best : tcase) : list (bytes * list Z) :=
  pass_items (Z.max (c_min cfg) 1) chunk_size best.

Definition props_pass_next (items : list (bytes * list Z)) (best : tcase)
  : option (Z * tcase * (outcome -> list (bytes * list Z))) :=
  match items with
  | [] => None
  | (word, starts) :: rest =>
      let '(d, t) := candidate word starts best in Some (d, t, fun _ => rest)
  end.

Definition replace_properties_concrete (cfg : mcfg) : strategy (rstate (list (bytes * list Z))) :=
  replace_properties (list (bytes * list Z)) (props_pass_start cfg) props_pass_next cfg.
