(* Model of reducer.Lithium.create_temp_dir: the loop
       i = 1; while True: try: Path(f"tmp{i}").mkdir() except FileExistsError: i += 1 else: break
   over an abstract directory: `fs` = the indices N for which an entry tmpN exists (directory
   or plain file: mkdir fails with EEXIST for both), mkdir is one atomic step, other failures
   come from a fault oracle.  k concurrently starting runs are small-step machines driven by an
   arbitrary schedule.  Definitions only. *)
From Coq Require Import ZArith NArith List Bool.
Import ListNotations.
Open Scope Z_scope.

Inductive errno := EACCES | ENOENT | ENOTDIR | EROFS | ENOSPC | EOTHER.

Fixpoint mem_z (x : Z) (l : list Z) : bool :=
  match l with [] => false | y :: r => (x =? y) || mem_z x r end.

Inductive mk_result := Created | Exists | Fault (e : errno).

(* one atomic mkdir(tmp i); fault i = injected failure for an attempt on a FREE name *)
Definition mkdir (fault : Z -> option errno) (fs : list Z) (i : Z) : mk_result * list Z :=
  if mem_z i fs then (Exists, fs)
  else match fault i with
       | Some e => (Fault e, fs)
       | None => (Created, i :: fs)
       end.

Inductive ctd_result := Dir (n : Z) (fs : list Z) | Failed (e : errno) (fs : list Z) | Spinning.

(* the loop, from index i *)
Fixpoint ctd_from (fuel : nat) (fault : Z -> option errno) (fs : list Z) (i : Z) : ctd_result :=
  match fuel with
  | O => Spinning
  | S f =>
      match mkdir fault fs i with
      | (Created, fs') => Dir i fs'
      | (Exists, _) => ctd_from f fault fs (i + 1)
      | (Fault e, fs') => Failed e fs'
      end
  end.

Definition create_temp_dir (fuel : nat) (fault : Z -> option errno) (fs : list Z) : ctd_result :=
  ctd_from fuel fault fs 1.

(* ---- k concurrently starting runs ---- *)
Record proc := { pr_i : Z; pr_done : option Z }.
Definition proc0 : proc := {| pr_i := 1; pr_done := None |}.

(* process p performs its next mkdir attempt (no faults) *)
Definition pstep (fs : list Z) (p : proc) : list Z * proc :=
  match pr_done p with
  | Some _ => (fs, p)
  | None =>
      if mem_z (pr_i p) fs then (fs, {| pr_i := pr_i p + 1; pr_done := None |})
      else (pr_i p :: fs, {| pr_i := pr_i p; pr_done := Some (pr_i p) |})
  end.

Fixpoint update_nth {A} (n : nat) (x : A) (l : list A) : list A :=
  match l, n with
  | [], _ => []
  | _ :: r, O => x :: r
  | y :: r, S n' => y :: update_nth n' x r
  end.

(* schedule = which process moves next (indices beyond the list are ignored) *)
Fixpoint run_sched (sched : list nat) (fs : list Z) (procs : list proc) : list Z * list proc :=
  match sched with
  | [] => (fs, procs)
  | p :: rest =>
      match nth_error procs p with
      | None => run_sched rest fs procs
      | Some pr => let '(fs', pr') := pstep fs pr in
                   run_sched rest fs' (update_nth p pr' procs)
      end
  end.

Definition results (procs : list proc) : list Z :=
  flat_map (fun p => match pr_done p with Some n => [n] | None => [] end) procs.

(* ---- which directory a run started through main() uses.
   Lithium.process_args assigns  self.temp_dir = args.tempdir  unconditionally (None without --tempdir),
   whatever the object held before (e.g. the directory of an earlier main() on the same object);
   Lithium.run creates a directory exactly when temp_dir is None. *)
Inductive tdir := TGiven (path : list N) | TNum (n : Z).
Definition after_process_args (before : option tdir) (opt_tempdir : option (list N)) : option tdir :=
  match opt_tempdir with Some p => Some (TGiven p) | None => None end.
Definition main_temp_dir (fuel : nat) (fault : Z -> option errno) (fs : list Z)
           (before : option tdir) (opt_tempdir : option (list N)) : option tdir * ctd_result :=
  match after_process_args before opt_tempdir with
  | Some d => (Some d, Dir 0 fs)          (* the given directory is used; nothing is created *)
  | None => match create_temp_dir fuel fault fs with
            | Dir n fs' => (Some (TNum n), Dir n fs')
            | r => (None, r)
            end
  end.
