(* Independent specifications for C16: a reference tokenizer for JS strings that knows nothing
   about parts/indices, and a structural grammar for attribute atoms.  Definitions only. *)
From Coq Require Import ZArith NArith List Bool Arith.
From Lithium Require Import PyBase TcRecord Markers SplitJs SplitAttrs.
Import ListNotations.
Local Open Scope N_scope.

(* absolute (start, end) spans of the reducible parts of a split, offsets into split_content *)
Fixpoint spans_from (pos : nat) (parts : list bytes) (red : list bool) : list (nat * nat) :=
  match parts, red with
  | p :: ps, r :: rs =>
      let e := (pos + length p)%nat in
      if r then (pos, e) :: spans_from e ps rs else spans_from e ps rs
  | _, _ => []
  end.
Definition spans_of (s : split) : list (nat * nat) :=
  spans_from (length (sp_before s)) (sp_parts s) (sp_red s).

(* inside a string opened with quote q at absolute position pos: token spans up to the closing
   quote; None if the data ends first.  Result: spans, absolute position after the closing
   quote, the rest of the data *)
Fixpoint ref_string (fuel : nat) (q : N) (pos : nat) (d : bytes)
  : option (list (nat * nat) * nat * bytes) :=
  match fuel with
  | O => None
  | S f =>
      match d with
      | [] => None
      | b :: _ =>
          let n := tok_len d in
          if Nat.eqb n 1 && (b =? q) then Some ([], S pos, skipn 1 d)
          else match ref_string f q (pos + n) (skipn n d) with
               | Some (sp, e, rest) => Some ((pos, (pos + n)%nat) :: sp, e, rest)
               | None => None
               end
      end
  end.

(* outside a string *)
Fixpoint ref_js (fuel : nat) (pos : nat) (d : bytes) : list (nat * nat) :=
  match fuel with
  | O => []
  | S f =>
      match d with
      | [] => []
      | b :: r =>
          if is_quote b then
            match ref_string (S (length r)) b (S pos) r with
            | Some (sp, e, rest) => sp ++ ref_js f e rest
            | None => ref_js f (S pos) r          (* unclosed quote: ordinary text *)
            end
          else ref_js f (S pos) r
      end
  end.

Definition js_reference (d : bytes) : list (nat * nat) := ref_js (S (length d)) 0 d.

(* ---- attributes ---- *)
(* p = ws* name tail,  tail = "" | "=" q body q (q not in body) | "=" body (no ws, no ">") *)
Definition attr_shape (p : bytes) : bool :=
  let k := run is_ws p in
  match skipn k p with
  | b :: r =>
      is_alpha b &&
      (let n := run is_namechar r in
       match skipn n r with
       | [] => true
       | e :: v =>
           (e =? 61) &&
           match v with
           | q :: body =>
               if (q =? 39) || (q =? 34) then
                 match rev body with
                 | c :: ibody => (c =? q) && forallb (fun x => negb (x =? q)) ibody
                 | [] => false
                 end
               else forallb (fun x => negb (is_ws x || (x =? 62))) v
           | [] => true
           end
       end)
  | [] => false
  end.

(* a suffix of p fully matches TAG_PATTERN *)
Fixpoint opens_tag (p : bytes) : bool :=
  match p with
  | [] => false
  | _ :: r => (match tag_at p with Some n => Nat.eqb n (length p) | None => false end) || opens_tag r
  end.

Definition ends_gt (p : bytes) : bool := match rev p with c :: _ => c =? 62 | [] => false end.

(* walk over the parts: a reducible part must have attribute shape and occur inside a tag *)
Fixpoint attrs_walk (in_tag : bool) (parts : list bytes) (red : list bool) : bool :=
  match parts, red with
  | [], [] => true
  | p :: ps, r :: rs =>
      if r then in_tag && attr_shape p && attrs_walk true ps rs
      else if in_tag then attrs_walk (negb (ends_gt p)) ps rs
      else attrs_walk (opens_tag p) ps rs
  | _, _ => false
  end.
