(* Model of testcases.TestcaseAttrs.split_parts.  TAG_PATTERN, ATTR_PATTERN and the two value
   terminator searches are rendered as direct scanners; the pattern texts are pinned against
   the source in Gen/GenTables.v.  Definitions only. *)
From Coq Require Import ZArith NArith List Bool Arith.
From Lithium Require Import PyBase TcRecord Markers.
Import ListNotations.
Local Open Scope N_scope.

(* \s for bytes patterns: [ \t\n\r\f\v] *)
Definition is_ws (b : N) : bool :=
  (b =? 32) || (b =? 9) || (b =? 10) || (b =? 13) || (b =? 12) || (b =? 11).
Definition is_alpha (b : N) : bool :=
  ((65 <=? b) && (b <=? 90)) || ((97 <=? b) && (b <=? 122)).
Definition is_digit (b : N) : bool := (48 <=? b) && (b <=? 57).
(* [A-Za-z0-9:-] *)
Definition is_namechar (b : N) : bool := is_alpha b || is_digit b || (b =? 58) || (b =? 45).
(* [A-Za-z-] *)
Definition is_tagchar (b : N) : bool := is_alpha b || (b =? 45).

Fixpoint run (p : N -> bool) (l : bytes) : nat :=
  match l with b :: r => if p b then S (run p r) else O | [] => O end.

(* first alternative of ATTR_PATTERN at the head of d:
     (\s+|^)[A-Za-z][A-Za-z0-9:-]*(=|>|\s)
   linestart = whether `^` may match here.  Returns the length of the match. *)
Definition a1_at (linestart : bool) (d : bytes) : option nat :=
  let k := run is_ws d in
  if (Nat.eqb k 0) && negb linestart then None
  else
    match skipn k d with
    | b :: r =>
        if is_alpha b then
          let n := run is_namechar r in
          match skipn n r with
          | t :: _ => if (t =? 61) || (t =? 62) || is_ws t then Some (k + 1 + n + 1)%nat else None
          | [] => None
          end
        else None
    | [] => None
    end.

(* second alternative: \s*>  *)
Definition a2_at (d : bytes) : option nat :=
  let k := run is_ws d in
  match skipn k d with
  | t :: _ => if t =? 62 then Some (k + 1)%nat else None
  | [] => None
  end.

Inductive akind := A1 | A2.

(* re.match(ATTR_PATTERN, d) *)
Definition attr_match (d : bytes) : option (akind * nat) :=
  match a1_at true d with
  | Some n => Some (A1, n)
  | None => match a2_at d with Some n => Some (A2, n) | None => None end
  end.

(* re.search(ATTR_PATTERN, d, re.MULTILINE) restricted to start positions >= 1 (position 0 has
   already failed with re.match): (start, kind, length) of the leftmost match.
   prev = the byte before the head of d. *)
Fixpoint attr_search_from (prev : N) (pos : nat) (d : bytes) : option (nat * akind * nat) :=
  match d with
  | [] => None
  | b :: r =>
      match a1_at (prev =? 10) d with
      | Some n => Some (pos, A1, n)
      | None =>
          match a2_at d with
          | Some n => Some (pos, A2, n)
          | None => attr_search_from b (S pos) r
          end
      end
  end.

Definition attr_search (d : bytes) : option (nat * akind * nat) :=
  match d with
  | [] => None
  | b :: r => attr_search_from b 1 r
  end.

(* re.search(TAG_PATTERN, d):  <\s*[A-Za-z][A-Za-z-]*  -> index of the END of the leftmost match *)
Definition tag_at (d : bytes) : option nat :=
  match d with
  | c :: r =>
      if c =? 60 then
        let k := run is_ws r in
        match skipn k r with
        | b :: r2 => if is_alpha b then Some (1 + k + 1 + run is_tagchar r2)%nat else None
        | [] => None
        end
      else None
  | [] => None
  end.

Fixpoint tag_search (pos : nat) (d : bytes) : option nat :=
  match d with
  | [] => None
  | _ :: r => match tag_at d with
              | Some n => Some (pos + n)%nat
              | None => tag_search (S pos) r
              end
  end.

Fixpoint find_byte (p : N -> bool) (d : bytes) : option nat :=
  match d with
  | [] => None
  | b :: r => if p b then Some O else option_map S (find_byte p r)
  end.

(* the `while data:` loop; parts / flags in order *)
Fixpoint attrs_loop (fuel : nat) (in_tag : bool) (parts : list bytes) (red : list bool)
         (d : bytes) : res (list bytes * list bool) :=
  match fuel with
  | O => Err OutOfFuel
  | S f =>
      match d with
      | [] => Ok (parts, red)
      | _ =>
          if in_tag then
            match attr_match d with
            | None =>
                match attr_search d with
                | Some (p, A1, _) =>
                    (* skipping unrecognized data *)
                    attrs_loop f true (parts ++ [firstn p d]) (red ++ [false]) (skipn p d)
                | Some (p, A2, n) =>
                    attrs_loop f false (parts ++ [firstn (p + n) d]) (red ++ [false])
                               (skipn (p + n) d)
                | None => attrs_loop f false parts red d
                end
            | Some (A2, n) =>
                attrs_loop f false (parts ++ [firstn n d]) (red ++ [false]) (skipn n d)
            | Some (A1, n) =>
                let g := firstn n d in
                if negb (match last g 0 with t => t =? 61 end) then
                  (* value-less attribute: keep the terminator for the next match *)
                  attrs_loop f true (parts ++ [firstn (n - 1) d]) (red ++ [true])
                             (skipn (n - 1) d)
                else
                  let d1 := skipn n d in
                  match d1 with
                  | q :: d2 =>
                      if (q =? 39) || (q =? 34) then
                        match find_byte (fun b => b =? q) d2 with
                        | None => attrs_loop f false parts red d          (* EOF: put back *)
                        | Some i =>
                            attrs_loop f true (parts ++ [g ++ [q] ++ firstn (S i) d2])
                                       (red ++ [true]) (skipn (S i) d2)
                        end
                      else
                        match find_byte (fun b => is_ws b || (b =? 62)) d1 with
                        | None => attrs_loop f false parts red d
                        | Some i =>
                            attrs_loop f true (parts ++ [g ++ firstn i d1]) (red ++ [true])
                                       (skipn i d1)
                        end
                  | [] => attrs_loop f false parts red d
                  end
            end
          else
            match tag_search 0 d with
            | None => Ok (parts ++ [d], red ++ [false])
            | Some e => attrs_loop f true (parts ++ [firstn e d]) (red ++ [false]) (skipn e d)
            end
      end
  end.

Definition split_attrs : splitter := fun d =>
  v <- attrs_loop (2 * length d + 2) false [] [] d ;;
  let '(parts, red) := v in
  Ok {| sp_before := []; sp_parts := parts; sp_red := red; sp_after := [] |}.

Definition load_attrs (d : bytes) : res tcase := load split_attrs d.
