(* Boolean equalities used by the extraction cross-check: the harness evaluates a sample of its
   cases INSIDE Coq (vm_compute) and compares with what the extracted OCaml driver printed.
   Definitions only. *)
From Coq Require Import ZArith NArith List Bool.
From Lithium Require Import PyBase TcRecord StatusTypes Status TempDir.
Import ListNotations.

Fixpoint list_eqb {A} (eqb : A -> A -> bool) (a b : list A) : bool :=
  match a, b with
  | [], [] => true
  | x :: a', y :: b' => eqb x y && list_eqb eqb a' b'
  | _, _ => false
  end.

Definition tcase_eqb (a b : tcase) : bool :=
  bytes_eqb (tc_before a) (tc_before b) && list_eqb bytes_eqb (tc_parts a) (tc_parts b) &&
  list_eqb Bool.eqb (tc_red a) (tc_red b) && bytes_eqb (tc_after a) (tc_after b).

Definition exn_eqb (a b : exn) : bool :=
  match a, b with
  | IndexError, IndexError | ValueError, ValueError | TypeError, TypeError
  | LithiumError, LithiumError | ZeroDivisionError, ZeroDivisionError
  | AssertionError, AssertionError | RuntimeError, RuntimeError | OutOfFuel, OutOfFuel => true
  | _, _ => false
  end.

Definition res_eqb {A} (eqb : A -> A -> bool) (a b : res A) : bool :=
  match a, b with
  | Ok x, Ok y => eqb x y
  | Err e, Err f => exn_eqb e f
  | _, _ => false
  end.

Definition zpair_eqb (a b : Z * Z) : bool := Z.eqb (fst a) (fst b) && Z.eqb (snd a) (snd b).

Definition errno_eqb (a b : errno) : bool :=
  match a, b with
  | EACCES, EACCES | ENOENT, ENOENT | ENOTDIR, ENOTDIR | EROFS, EROFS | ENOSPC, ENOSPC
  | EOTHER, EOTHER => true
  | _, _ => false
  end.

(* create_temp_dir: compare the outcome (directory index / error), not the directory contents *)
Definition ctd_eqb (r : ctd_result) (want : option Z * option errno) : bool :=
  match r, want with
  | Dir n _, (Some m, None) => Z.eqb n m
  | Failed e _, (None, Some f) => errno_eqb e f
  | _, _ => false
  end.
