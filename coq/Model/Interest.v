(* Model of the decision logic of interestingness/outputs.py, diff_test.py and repeat.py.
   Regular-expression matching is a parameter (`matches pattern data` = re.search(pattern, data,
   re.MULTILINE) is not None); process execution and capture belong to C18.  Definitions only. *)
From Coq Require Import ZArith NArith List Bool.
From Lithium Require Import PyBase Markers.
Import ListNotations.
Open Scope Z_scope.

Section Outputs.
  Variable matches : bytes -> bytes -> bool.

  (* in memory:  for data in (out, err): if <found>: return True ... return False *)
  Definition found_mem (is_regex : bool) (search data : bytes) : bool :=
    if is_regex then matches search data else contains search data.

  Fixpoint first_stream (is_regex : bool) (search : bytes) (streams : list bytes) : bool :=
    match streams with
    | [] => false
    | d :: r => if found_mem is_regex search d then true else first_stream is_regex search r
    end.

  Definition outputs_mem (is_regex : bool) (search out err : bytes) : bool :=
    first_stream is_regex search [out; err].

  (* log files: any(file_contains(prefix + suffix, regex, search) for suffix in (-out, -err)) *)
  Definition file_contains_regex (search content : bytes) : bool := matches search content.
  Definition file_contains_str (search content : bytes) : bool := contains search content.
  Definition file_contains (is_regex : bool) (search content : bytes) : bool :=
    if is_regex then file_contains_regex search content else file_contains_str search content.

  Definition outputs_file (is_regex : bool) (search out_file err_file : bytes) : bool :=
    existsb (file_contains is_regex search) [out_file; err_file].
End Outputs.

(* ---- diff_test ---- *)
Definition optz_eqb (a b : option Z) : bool :=
  match a, b with
  | None, None => true
  | Some x, Some y => x =? y
  | _, _ => false
  end.

(* filecmp.cmp(a, b, shallow=False) on two regular files: sizes, then contents *)
Definition filecmp_deep (a b : bytes) : bool :=
  if negb (Nat.eqb (length a) (length b)) then false else bytes_eqb a b.

(* return codes: None for a run that timed out *)
Definition diff_mem (ra rb : option Z) (oa ea ob eb : bytes) : bool :=
  if negb (optz_eqb ra rb) then true
  else if negb (bytes_eqb oa ob) || negb (bytes_eqb ea eb) then true else false.

Definition diff_file (ra rb : option Z) (oa ea ob eb : bytes) : bool :=
  if negb (optz_eqb ra rb) then true
  else if negb (filecmp_deep oa ob) || negb (filecmp_deep ea eb) then true else false.

(* ---- repeat ---- *)
(* str.replace(old, new) for a non-empty `old`: all non-overlapping occurrences, left to right *)
Fixpoint py_replace (fuel : nat) (old new s : bytes) : bytes :=
  match fuel with
  | O => s
  | S f =>
      match s with
      | [] => []
      | c :: r => if starts_with old s then new ++ py_replace f old new (skipn (length old) s)
                  else c :: py_replace f old new r
      end
  end.
Definition replace (old new s : bytes) : bytes := py_replace (length s) old new s.

(* str(i) for i >= 1 *)
Fixpoint dec_digits (fuel : nat) (i : Z) (acc : bytes) : bytes :=
  match fuel with
  | O => acc
  | S f => let acc' := Z.to_N (48 + i mod 10) :: acc in
           if i / 10 =? 0 then acc' else dec_digits f (i / 10) acc'
  end.
Definition dec (i : Z) : bytes := dec_digits (S (Z.to_nat (Z.log2 (Z.max i 1)))) i [].

(* for i in range(1, n+1): if inner(replaced args): return True ... return False
   inner i args = verdict of the i-th call; result + the argument lists of the calls made *)
Fixpoint repeat_from (inner : Z -> list bytes -> bool) (cookie : bytes) (args : list bytes)
         (i : Z) (n : nat) : bool * list (list bytes) :=
  match n with
  | O => (false, [])
  | S n' =>
      let a := map (replace cookie (dec i)) args in
      if inner i a then (true, [a])
      else let '(r, calls) := repeat_from inner cookie args (i + 1) n' in (r, a :: calls)
  end.
Definition repeat_loop (inner : Z -> list bytes -> bool) (cookie : bytes) (args : list bytes) (n : Z)
  : bool * list (list bytes) := repeat_from inner cookie args 1 (Z.to_nat n).
