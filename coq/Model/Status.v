(* Model of the exit-status decision of interestingness/timed_run.py and of the verdicts of
   crashes.py / hangs.py.  Definitions only. *)
From Coq Require Import ZArith List Bool.
From Lithium Require Import StatusTypes.
Open Scope Z_scope.

Definition ERROR_CODE : Z := 77.

Definition classify (timed_out : bool) (rc : Z) : status :=
  if timed_out then TIMEOUT
  else if rc =? 0 then NORMAL
  else if negb (rc =? ERROR_CODE) && (0 <? rc) && (rc <? 2147483648) then ABNORMAL
  else CRASH.

Definition reported_code (st : status) (rc : Z) : option Z :=
  match st with TIMEOUT => None | _ => Some rc end.

Definition status_eqb (a b : status) : bool :=
  match a, b with
  | NORMAL, NORMAL | ABNORMAL, ABNORMAL | CRASH, CRASH | TIMEOUT, TIMEOUT => true
  | _, _ => false
  end.

Definition crashes_verdict (st : status) : bool := status_eqb st CRASH.
Definition hangs_verdict (st : status) : bool := status_eqb st TIMEOUT.
