(* Vocabulary for statements about runs of the driver: traces, last accepted version, hooks,
   temp-dir log.  Definitions only. *)
From Coq Require Import ZArith NArith List Bool.
From Lithium Require Import PyBase TcRecord Testcase Driver.
Import ListNotations.
Open Scope Z_scope.

(* chronological trace of a world *)
Definition chron (w : world) : list event := rev (w_trace w).

(* the bytes the testcase file had during the most recent test that answered Yes
   (`cur` = the original if there is none); tr is chronological *)
Fixpoint last_accepted (tr : list event) (cur : bytes) : bytes :=
  match tr with
  | [] => cur
  | ETest _ _ f Yes :: r => last_accepted r f
  | _ :: r => last_accepted r cur
  end.

Definition is_test (e : event) : bool := match e with ETest _ _ _ _ => true | _ => false end.
Definition is_write (e : event) : bool := match e with EWrite _ => true | _ => false end.
Definition tests_of (tr : list event) : list event := filter is_test tr.
Definition n_tests (tr : list event) : Z := zlen (tests_of tr).
Definition no_writes (tr : list event) : Prop := Forall (fun e => is_write e = false) tr.

Definition test_file (e : event) : bytes := match e with ETest _ _ f _ => f | _ => [] end.
Definition test_nums (e : event) : Z * Z := match e with ETest k p _ _ => (k, p) | _ => (0, 0) end.

(* init hook exactly once and before every test; cleanup hook exactly once and after every
   test (after it only the restoring write may follow) *)
Definition hooks_ok (tr : list event) : Prop :=
  exists mid post, tr = EInit :: mid ++ ECleanup :: post /\
    Forall (fun e => e <> EInit /\ e <> ECleanup) mid /\
    Forall (fun e => is_write e = true) post.

(* what the temp dir must contain according to the tests of a (chronological) trace *)
Fixpoint expected_temp (tr : list event) : list (tname * bytes) :=
  match tr with
  | [] => []
  | ETest k _ f Yes :: r => (Numbered k true, f) :: expected_temp r
  | ETest k _ f No :: r => (Numbered k false, f) :: expected_temp r
  | _ :: r => expected_temp r
  end.

(* the i-th test is numbered i and handed prefix number i *)
Fixpoint numbered_from (i : Z) (tests : list event) : Prop :=
  match tests with
  | [] => True
  | e :: r => test_nums e = (i, i) /\ numbered_from (i + 1) r
  end.

(* temp-dir contents written so far, from the copy events of a chronological trace *)
Fixpoint copies (tr : list event) : list (tname * bytes) :=
  match tr with
  | [] => []
  | ECopy n b :: r => (n, b) :: copies r
  | _ :: r => copies r
  end.

(* the highest-numbered '*-interesting' copy, else 'original' (dir = chronological list) *)
Fixpoint best_tagged (dir : list (tname * bytes)) (cur : option bytes) : option bytes :=
  match dir with
  | [] => cur
  | (Numbered _ true, b) :: r => best_tagged r (Some b)
  | (Original, b) :: r => best_tagged r (match cur with None => Some b | c => c end)
  | _ :: r => best_tagged r cur
  end.

(* one iteration of the driver loop as a relation on loop states *)
Inductive lstate (S : Type) := LS (st : S) (it : iter) (w : world).
Arguments LS {S} st it w.

Inductive lstep {S} (strat : strategy S) (verdict : verdict_t) : lstate S -> lstate S -> Prop :=
| ls_raw : forall st it w b st',
    s_next strat st (it_best it) = RawWrite b st' ->
    lstep strat verdict (LS st it w) (LS st' it (write_file b w))
| ls_skip : forall st it w t k,
    s_next strat st (it_best it) = Propose t k ->
    mem_bytes (content t) (it_tried it) = true ->
    lstep strat verdict (LS st it w) (LS (k Skipped) it w)
| ls_yes : forall st it w t k w',
    s_next strat st (it_best it) = Propose t k ->
    mem_bytes (content t) (it_tried it) = false ->
    interesting verdict w t true = (w', Yes) ->
    lstep strat verdict (LS st it w)
          (LS (k (Tested true))
              {| it_best := t; it_tried := content t :: it_tried it; it_any := true |} w')
| ls_no : forall st it w t k w',
    s_next strat st (it_best it) = Propose t k ->
    mem_bytes (content t) (it_tried it) = false ->
    interesting verdict w t true = (w', No) ->
    lstep strat verdict (LS st it w)
          (LS (k (Tested false))
              {| it_best := it_best it; it_tried := content t :: it_tried it;
                 it_any := it_any it |} w').

Inductive lsteps {S} (strat : strategy S) (verdict : verdict_t) : lstate S -> lstate S -> Prop :=
| lss_refl : forall s, lsteps strat verdict s s
| lss_step : forall a b c, lstep strat verdict a b -> lsteps strat verdict b c ->
                           lsteps strat verdict a c.

(* the loop state right after an accepted initial check *)
Definition loop_start {S} (strat : strategy S) (verdict : verdict_t) (tc0 : tcase) (file0 : bytes)
  : lstate S :=
  LS (s_start strat tc0) {| it_best := tc0; it_tried := []; it_any := false |}
     (fst (interesting verdict (temp_copy Original (content tc0) false (log EInit (init_world file0)))
                       tc0 false)).
