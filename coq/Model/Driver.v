(* Model of the generic reduction driver:
     reducer.Lithium.run / interesting / testcase_temp_filename,
     strategies.Strategy.main, CheckOnly.main,
     strategies.ReductionIterator.try_testcase / feedback.
   A strategy is an arbitrary resumption (record `strategy`): everything proved about `run`
   is proved for every strategy that talks to the driver only through
   try_testcase / feedback / iterator.testcase (and, for collapse-brace, a raw write to the
   testcase file).  The interestingness test is an adversary `verdict k file` (test number,
   bytes on disk at that moment) that may answer Yes, No or raise.
   Definitions only. *)
From Coq Require Import ZArith NArith List Bool.
From Lithium Require Import PyBase TcRecord Testcase.
Import ListNotations.
Open Scope Z_scope.

Inductive answer := Yes | No | Raise.
Inductive outcome := Skipped | Tested (b : bool).

Inductive step (S : Type) :=
| Propose (t : tcase) (k : outcome -> S)  (* yield from iterator.try_testcase(t) *)
| RawWrite (b : bytes) (s : S)            (* open(testcase.filename,"wb").write(b) by the strategy *)
| Done                                    (* generator returns *)
| Fail (e : exn).                         (* strategy raises *)
Arguments Propose {S} t k.
Arguments RawWrite {S} b s.
Arguments Done {S}.
Arguments Fail {S} e.

Record strategy (S : Type) := {
  s_start : tcase -> S;               (* reduce(testcase): state before the first step *)
  s_next : S -> tcase -> step S       (* next step, given iterator.testcase (current best) *)
}.
Arguments s_start {S} s t.
Arguments s_next {S} s st best.

(* names inside the temporary directory *)
Inductive tname := Original | Numbered (k : Z) (interesting : bool).

Inductive event :=
| EInit | ECleanup
| EWrite (b : bytes)                               (* a write to the testcase path *)
| ETest (k : Z) (prefix : Z) (file : bytes) (a : answer)   (* k-th call of the test *)
| ECopy (n : tname) (b : bytes).                   (* a file written into the temp dir *)

Record world := {
  w_file : bytes;                   (* bytes at the testcase path *)
  w_temp : list (tname * bytes);    (* temp dir, newest first *)
  w_tests : Z;                      (* Lithium.test_count *)
  w_tfc : Z;                        (* Lithium.temp_file_count *)
  w_total : Z;                      (* Lithium.test_total *)
  w_last : option tcase;            (* Lithium.last_interesting *)
  w_dirty : bool;                   (* Lithium.testcase_written *)
  w_trace : list event              (* newest first *)
}.

Definition init_world (file0 : bytes) : world :=
  {| w_file := file0; w_temp := []; w_tests := 0; w_tfc := 1; w_total := 0; w_last := None;
     w_dirty := false; w_trace := [] |}.

Definition log (e : event) (w : world) : world :=
  {| w_file := w_file w; w_temp := w_temp w; w_tests := w_tests w; w_tfc := w_tfc w;
     w_total := w_total w; w_last := w_last w; w_dirty := w_dirty w; w_trace := e :: w_trace w |}.

Definition write_file (b : bytes) (w : world) : world :=
  {| w_file := b; w_temp := w_temp w; w_tests := w_tests w; w_tfc := w_tfc w;
     w_total := w_total w; w_last := w_last w; w_dirty := w_dirty w; w_trace := EWrite b :: w_trace w |}.

Definition temp_copy (n : tname) (b : bytes) (bump : bool) (w : world) : world :=
  {| w_file := w_file w; w_temp := (n, b) :: w_temp w; w_tests := w_tests w;
     w_tfc := if bump then w_tfc w + 1 else w_tfc w;
     w_total := w_total w; w_last := w_last w; w_dirty := w_dirty w; w_trace := ECopy n b :: w_trace w |}.

Definition set_last (t : tcase) (w : world) : world :=
  {| w_file := w_file w; w_temp := w_temp w; w_tests := w_tests w; w_tfc := w_tfc w;
     w_total := w_total w; w_last := Some t; w_dirty := w_dirty w; w_trace := w_trace w |}.

Definition set_dirty (w : world) : world :=
  {| w_file := w_file w; w_temp := w_temp w; w_tests := w_tests w; w_tfc := w_tfc w;
     w_total := w_total w; w_last := w_last w; w_dirty := true; w_trace := w_trace w |}.

Definition count_test (len : Z) (w : world) : world :=
  {| w_file := w_file w; w_temp := w_temp w; w_tests := w_tests w + 1; w_tfc := w_tfc w;
     w_total := w_total w + len; w_last := w_last w; w_dirty := w_dirty w; w_trace := w_trace w |}.

Definition verdict_t := Z -> bytes -> answer.

(* Lithium.interesting(testcase_suggestion, write_it) *)
Definition interesting (verdict : verdict_t) (w : world) (t : tcase) (write_it : bool)
  : world * answer :=
  let w1 := if write_it then write_file (content t) (set_dirty w) else w in
  let w2 := count_test (tc_len t) w1 in
  let a := verdict (w_tests w2) (w_file w2) in
  let w3 := log (ETest (w_tests w2) (w_tfc w2) (w_file w2) a) w2 in
  match a with
  | Raise => (w3, Raise)
  | Yes => (set_last t (temp_copy (Numbered (w_tfc w3) true) (content t) true w3), Yes)
  | No => (temp_copy (Numbered (w_tfc w3) false) (content t) true w3, No)
  end.

(* ReductionIterator state *)
Record iter := { it_best : tcase; it_tried : list bytes; it_any : bool }.

Fixpoint mem_bytes (x : bytes) (l : list bytes) : bool :=
  match l with [] => false | y :: r => bytes_eqb x y || mem_bytes x r end.

Inductive result :=
| Finished (rc : Z) (w : world)
| Aborted (e : option exn) (w : world)   (* None: the test raised; Some e: the strategy raised *)
| NoFuel (w : world).

(* `for attempt in reduction: success = interesting(attempt); reduction.feedback(success)` *)
Fixpoint loop {S} (strat : strategy S) (verdict : verdict_t) (fuel : nat)
         (st : S) (it : iter) (w : world) : result :=
  match fuel with
  | O => NoFuel w
  | Datatypes.S fuel' =>
      match s_next strat st (it_best it) with
      | Done =>
          (* testcase = reduction.testcase; testcase.dump(); return int(not reduction.reduced) *)
          Finished (if it_any it then 0 else 1) (write_file (content (it_best it)) w)
      | Fail e => Aborted (Some e) w
      | RawWrite b st' => loop strat verdict fuel' st' it (write_file b w)
      | Propose t k =>
          if mem_bytes (content t) (it_tried it) then loop strat verdict fuel' (k Skipped) it w
          else
            let it1 := {| it_best := it_best it; it_tried := content t :: it_tried it;
                          it_any := it_any it |} in
            match interesting verdict w t true with
            | (w', Raise) => Aborted None w'
            | (w', Yes) =>
                loop strat verdict fuel' (k (Tested true))
                     {| it_best := t; it_tried := it_tried it1; it_any := true |} w'
            | (w', No) => loop strat verdict fuel' (k (Tested false)) it1 w'
            end
      end
  end.

(* Strategy.main *)
Definition strategy_main {S} (strat : strategy S) (verdict : verdict_t) (fuel : nat)
           (tc0 : tcase) (w : world) : result :=
  let w := temp_copy Original (content tc0) false w in
  if tc_len tc0 =? 0 then Finished 0 w
  else match interesting verdict w tc0 false with
       | (w', Raise) => Aborted None w'
       | (w', No) => Finished 1 w'
       | (w', Yes) =>
           loop strat verdict fuel (s_start strat tc0)
                {| it_best := tc0; it_tried := []; it_any := false |} w'
       end.

(* CheckOnly.main *)
Definition check_only_main (verdict : verdict_t) (tc0 : tcase) (w : world) : result :=
  match interesting verdict w tc0 false with
  | (w', Raise) => Aborted None w'
  | (w', Yes) => Finished 0 w'
  | (w', No) => Finished 1 w'
  end.

Definition result_world (r : result) : world :=
  match r with Finished _ w => w | Aborted _ w => w | NoFuel w => w end.

(* the `finally:` of Lithium.run: cleanup hook, then re-dump last_interesting if a candidate
   was ever written to the testcase path *)
Definition finally (w : world) : world :=
  let w := log ECleanup w in
  match w_last w with
  | Some t => if w_dirty w then write_file (content t) w else w
  | None => w
  end.

Definition map_world (f : world -> world) (r : result) : result :=
  match r with Finished rc w => Finished rc (f w) | Aborted e w => Aborted e (f w)
          | NoFuel w => NoFuel w end.

(* Lithium.run with a reducing strategy; file0 = bytes on disk at start *)
Definition run {S} (strat : strategy S) (verdict : verdict_t) (fuel : nat)
           (tc0 : tcase) (file0 : bytes) : result :=
  map_world finally (strategy_main strat verdict fuel tc0 (log EInit (init_world file0))).

Definition run_check_only (verdict : verdict_t) (tc0 : tcase) (file0 : bytes) : result :=
  map_world finally (check_only_main verdict tc0 (log EInit (init_world file0))).

(* A strategy that replays a recorded list of steps (used by the correspondence check to
   drive the model of the DRIVER with the proposals of strategies that have no concrete
   model: the replace-* rewriters and the experimental move). *)
Inductive rstep := RProp (t : tcase) | RRaw (b : bytes) | RFail (e : exn).
Definition replay (steps : list rstep) : strategy (list rstep) :=
  {| s_start := fun _ => steps;
     s_next := fun st _ => match st with
                           | [] => Done
                           | RProp t :: r => Propose t (fun _ => r)
                           | RRaw b :: r => RawWrite b r
                           | RFail e :: _ => Fail e
                           end |}.
