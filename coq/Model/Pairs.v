(* Model of strategies.MinimizeSurroundingPairs (minimize-around) and MinimizeBalancedPairs
   (minimize-balanced, experimental move OFF): the shared outer loop `reduce` and the two
   `try_removing_chunks` passes.  summary is a list of booleans (true = "S", false = "-").
   Definitions only. *)
From Coq Require Import ZArith NArith List Bool.
From Lithium Require Import PyBase TcRecord Util Testcase Driver Minimize.
Import ListNotations.
Open Scope Z_scope.

Inductive pkind := KAround | KBalanced.

Inductive pphase :=
| PTop        (* top of the outer `while True:` : start a pass *)
| PLoop       (* head of the `while` loop inside try_removing_chunks *)
| PAfter.     (* the pass generator is exhausted: post-pass logic of reduce *)

Record pstate := {
  p_chunk_size : Z;
  p_final : Z;                 (* final_chunk_size = max(minimize_min, 1) *)
  p_deadline : option Z;
  p_reads : nat;
  p_any : bool;                (* any_chunks_removed *)
  p_phase : pphase;
  p_summary : list bool;
  p_chunk_start : Z;
  p_i1 : Z;                    (* around: before_chunk_idx   balanced: lhs_chunk_idx *)
  p_i2 : Z;                    (* around: keep_chunk_idx *)
  p_i3 : Z;                    (* around: after_chunk_idx *)
  p_tables : list (Z * Z * Z)  (* balanced: (curly, square, normal) per chunk index *)
}.

(* summary.index("S", from) *)
Fixpoint s_index_from (l : list bool) (pos : Z) (from : Z) : option Z :=
  match l with
  | [] => None
  | b :: r => if b && (from <=? pos) then Some pos else s_index_from r (pos + 1) from
  end.
Definition s_index (l : list bool) (from : Z) : option Z := s_index_from l 0 from.

(* summary.rindex("S", 0, hi): last true at an index < hi *)
Fixpoint s_rindex_from (l : list bool) (pos : Z) (hi : Z) (acc : option Z) : option Z :=
  match l with
  | [] => acc
  | b :: r => s_rindex_from r (pos + 1) hi (if b && (pos <? hi) then Some pos else acc)
  end.
Definition s_rindex (l : list bool) (hi : Z) : option Z := s_rindex_from l 0 hi None.

(* summary[:i] + "-" + summary[i+1:] *)
Definition s_clear (l : list bool) (i : Z) : list bool :=
  py_slice l None (Some i) ++ [false] ++ py_slice l (Some (i + 1)) None.

(* summary.count("S", lo, hi) *)
Definition s_count (l : list bool) (lo hi : Z) : Z :=
  zlen (filter (fun b => b) (py_slice l (Some lo) (Some hi))).

Definition count_byte (b : N) (p : bytes) : Z := zlen (filter (N.eqb b) p).
Definition count_diff (p : bytes) (o c : N) : Z := count_byte o p - count_byte c p.

Definition set_pp (ph : pphase) (s : pstate) : pstate :=
  {| p_chunk_size := p_chunk_size s; p_final := p_final s; p_deadline := p_deadline s;
     p_reads := p_reads s; p_any := p_any s; p_phase := ph; p_summary := p_summary s;
     p_chunk_start := p_chunk_start s; p_i1 := p_i1 s; p_i2 := p_i2 s; p_i3 := p_i3 s;
     p_tables := p_tables s |}.

Definition pstart (cfg : mcfg) (clk : clock_t) (tc : tcase) : pstate :=
  {| p_chunk_size := Z.min (c_max cfg) (largest_power_of_two_smaller_than (tc_len tc));
     p_final := Z.max (c_min cfg) 1;
     p_deadline := match c_limit cfg with Some l => Some (clk O + l) | None => None end;
     p_reads := match c_limit cfg with Some _ => 1%nat | None => O end;
     p_any := false; p_phase := PTop; p_summary := []; p_chunk_start := 0;
     p_i1 := 0; p_i2 := 0; p_i3 := 0; p_tables := [] |}.

(* clock read: (expired?, state with the read counted) *)
Definition read_clock (clk : clock_t) (s : pstate) : bool * pstate :=
  match p_deadline s with
  | None => (false, s)
  | Some d =>
      (clk (p_reads s) >? d,
       {| p_chunk_size := p_chunk_size s; p_final := p_final s; p_deadline := p_deadline s;
          p_reads := S (p_reads s); p_any := p_any s; p_phase := p_phase s;
          p_summary := p_summary s; p_chunk_start := p_chunk_start s; p_i1 := p_i1 s;
          p_i2 := p_i2 s; p_i3 := p_i3 s; p_tables := p_tables s |})
  end.

Definition upd (s : pstate) (any : bool) (ph : pphase) (summary : list bool) (cs i1 i2 i3 : Z)
  : pstate :=
  {| p_chunk_size := p_chunk_size s; p_final := p_final s; p_deadline := p_deadline s;
     p_reads := p_reads s; p_any := any; p_phase := ph; p_summary := summary;
     p_chunk_start := cs; p_i1 := i1; p_i2 := i2; p_i3 := i3; p_tables := p_tables s |}.

(* --- minimize-around: one iteration of the pass loop (condition and clock already checked) *)
Definition around_propose (s : pstate) (best : tcase) : step pstate :=
  let c := p_chunk_size s in
  let len := tc_len best in
  let cst := p_chunk_start s in
  let bef_start := Z.max 0 (cst - c) in
  let bef_end := cst in
  let aft_start := Z.min len (cst + c) in
  let aft_end := Z.min len (aft_start + c) in
  match (t1 <- rmslice (copy best) aft_start aft_end ;; rmslice t1 bef_start bef_end) with
  | Err e => Fail e
  | Ok t =>
      Propose t (fun o =>
        match o with
        | Tested true =>
            let sm := s_clear (s_clear (p_summary s) (p_i1 s)) (p_i3 s) in
            let cst1 := cst - c in
            match s_rindex sm (p_i2 s) with
            | Some b =>
                match s_index sm (p_i2 s + 1) with
                | Some a => upd s true PLoop sm cst1 b (p_i2 s) a
                | None => upd s true PAfter sm cst1 b (p_i2 s) (p_i3 s)
                end
            | None =>
                match s_index sm (p_i2 s + 1) with
                | Some k =>
                    match s_index sm (k + 1) with
                    | Some a => upd s true PLoop sm (cst1 + c) (p_i2 s) k a
                    | None => upd s true PAfter sm (cst1 + c) (p_i2 s) k (p_i3 s)
                    end
                | None => upd s true PAfter sm cst1 (p_i2 s) (p_i2 s) (p_i3 s)
                end
            end
        | other =>
            let any := match other with Tested b => p_any s || b | Skipped => p_any s end in
            match s_index (p_summary s) (p_i3 s + 1) with
            | Some a => upd s any PLoop (p_summary s) (cst + c) (p_i2 s) (p_i3 s) a
            | None => upd s any PAfter (p_summary s) (cst + c) (p_i2 s) (p_i3 s) (p_i3 s)
            end
        end)
  end.

(* --- minimize-balanced: partner scan `for item in summary[lhs+1:]` *)
Fixpoint partner_scan (sm : list bool) (tb : list (Z * Z * Z)) (idx : Z) (n : Z * Z * Z)
  : Z * (Z * Z * Z) :=
  match sm, tb with
  | item :: sm', (c, q, r) :: tb' =>
      let idx' := idx + 1 in
      if negb item then partner_scan sm' tb' idx' n
      else
        let '(nc, nq, nr) := n in
        let n' := (nc + c, nq + q, nr + r) in
        let '(a, b, d) := n' in
        if (a <? 0) || (b <? 0) || (d <? 0) then (idx', n')
        else if (a =? 0) && (b =? 0) && (d =? 0) then (idx', n')
        else partner_scan sm' tb' idx' n'
  | _, _ => (idx, n)
  end.

Definition zero3 (n : Z * Z * Z) : bool :=
  let '(a, b, d) := n in (a =? 0) && (b =? 0) && (d =? 0).

Definition nth_table (tb : list (Z * Z * Z)) (i : Z) : res (Z * Z * Z) := py_index tb i.

(* advance lhs to the next surviving chunk, or end the pass *)
Definition bal_next (s : pstate) (any : bool) (sm : list bool) (cst : Z) : pstate :=
  match s_index sm (p_i1 s + 1) with
  | Some l => upd s any PLoop sm cst l 0 0
  | None => upd s any PAfter sm cst (p_i1 s) 0 0
  end.

Inductive iter_res := IStep (st : step pstate) | ICont (s : pstate).

(* one iteration of the balanced pass loop body (condition and clock already checked):
   a proposal, or (no partner found) just an advance to the next chunk *)
Definition balanced_body (s : pstate) (best : tcase) : iter_res :=
  let c := p_chunk_size s in
  let len := tc_len best in
  let cst := p_chunk_start s in
  let lhs := p_i1 s in
  if negb (s_count (p_summary s) 0 lhs * c =? cst) then IStep (Fail AssertionError) else
  let lhs_start := cst in
  let lhs_end := Z.min len (lhs_start + c) in
  match nth_table (p_tables s) lhs with
  | Err e => IStep (Fail e)
  | Ok n0 =>
      if zero3 n0 then
        match rmslice (copy best) lhs_start lhs_end with
        | Err e => IStep (Fail e)
        | Ok t =>
            IStep (Propose t (fun o =>
              match o with
              | Tested true => bal_next s true (s_clear (p_summary s) lhs) cst
              | Tested false => bal_next s (p_any s) (p_summary s) (cst + c)
              | Skipped => bal_next s (p_any s) (p_summary s) (cst + c)
              end))
        end
      else
        let '(rhs, n) := partner_scan (py_slice (p_summary s) (Some (lhs + 1)) None)
                                      (py_slice (p_tables s) (Some (lhs + 1)) None) lhs n0 in
        if negb (zero3 n) then ICont (bal_next s (p_any s) (p_summary s) (cst + c))
        else
          let rhs_start := Z.min len (lhs_start + c * s_count (p_summary s) lhs rhs) in
          let rhs_end := Z.min len (rhs_start + c) in
          match (t1 <- rmslice (copy best) rhs_start rhs_end ;; rmslice t1 lhs_start lhs_end) with
          | Err e => IStep (Fail e)
          | Ok t =>
              IStep (Propose t (fun o =>
                match o with
                | Tested true => bal_next s true (s_clear (s_clear (p_summary s) lhs) rhs) cst
                | Tested false => bal_next s (p_any s) (p_summary s) (cst + c)
                | Skipped => bal_next s (p_any s) (p_summary s) (cst + c)
                end))
          end
  end.

(* start of a pass (try_removing_chunks up to its while loop) *)
Definition pass_start (kind : pkind) (s : pstate) (best : tcase) : res pstate :=
  v <- divide_rounding_up (tc_len best) (p_chunk_size s) ;;
  let num_chunks := v in
  let sm := py_repeat true num_chunks in
  match kind with
  | KAround =>
      if num_chunks <? 3 then Ok (upd s false PAfter [] 0 0 0 0)
      else Ok (upd s false PLoop sm (p_chunk_size s) 0 1 2)
  | KBalanced =>
      if num_chunks <? 2 then Ok (upd s false PAfter [] 0 0 0 0)
      else
        tb <- flat_mapM (fun i => p <- py_index (tc_parts best) i ;;
                                   Ok [(count_diff p 123 125, count_diff p 91 93,
                                        count_diff p 40 41)])
                        (py_range num_chunks) ;;
        Ok {| p_chunk_size := p_chunk_size s; p_final := p_final s; p_deadline := p_deadline s;
              p_reads := p_reads s; p_any := false; p_phase := PLoop; p_summary := sm;
              p_chunk_start := 0; p_i1 := 0; p_i2 := 0; p_i3 := 0; p_tables := tb |}
  end.

(* post-pass logic of reduce(): None = stop *)
Definition after_pass (cfg : mcfg) (clk : clock_t) (s : pstate) : option pstate :=
  let '(expired, s) := read_clock clk s in
  if expired then None else
  let last := p_chunk_size s <=? p_final s in
  let rep_ok := match c_repeat cfg with Always => true | Last => last | Never => false end in
  if p_any s && rep_ok then Some (set_pp PTop s)
  else if last then None
  else Some {| p_chunk_size := py_shr (p_chunk_size s) 1; p_final := p_final s;
               p_deadline := p_deadline s; p_reads := p_reads s; p_any := p_any s;
               p_phase := PTop; p_summary := p_summary s; p_chunk_start := p_chunk_start s;
               p_i1 := p_i1 s; p_i2 := p_i2 s; p_i3 := p_i3 s; p_tables := p_tables s |}.

(* run the non-proposing transitions until the next proposal / stop *)
Fixpoint pdrive (fuel : nat) (kind : pkind) (cfg : mcfg) (clk : clock_t) (s : pstate)
         (best : tcase) : step pstate :=
  match fuel with
  | O => Fail OutOfFuel
  | S f =>
      match p_phase s with
      | PTop =>
          match pass_start kind s best with
          | Err e => Fail e
          | Ok s' => pdrive f kind cfg clk s' best
          end
      | PLoop =>
          let continue_ := match kind with
                           | KAround => p_chunk_start s + p_chunk_size s <? tc_len best
                           | KBalanced => p_chunk_start s <? tc_len best
                           end in
          if negb continue_ then pdrive f kind cfg clk (set_pp PAfter s) best
          else
            let '(expired, s1) := read_clock clk s in
            if expired then pdrive f kind cfg clk (set_pp PAfter s1) best
            else match kind with
                 | KAround => around_propose s1 best
                 | KBalanced =>
                     match balanced_body s1 best with
                     | IStep st => st
                     | ICont s2 => pdrive f kind cfg clk s2 best
                     end
                 end
      | PAfter =>
          match after_pass cfg clk s with
          | None => Done
          | Some s' => pdrive f kind cfg clk s' best
          end
      end
  end.

Definition pairs_fuel (s : pstate) (best : tcase) : nat :=
  (3 * Z.to_nat (tc_len best) + 4 * S (Z.to_nat (Z.log2 (Z.max 1 (p_chunk_size s)))) + 16)%nat.

Definition pnext (kind : pkind) (cfg : mcfg) (clk : clock_t) (s : pstate) (best : tcase)
  : step pstate := pdrive (pairs_fuel s best) kind cfg clk s best.

Definition pairs (kind : pkind) (cfg : mcfg) (clk : clock_t) : strategy pstate :=
  {| s_start := pstart cfg clk; s_next := pnext kind cfg clk |}.
