(* Model of testcases.Testcase.load (DDBEGIN/DDEND scan) and dump, parameterised by the
   splitter (split_parts).  Definitions only. *)
From Coq Require Import ZArith NArith List Bool.
From Lithium Require Import PyBase TcRecord PyLines.
Import ListNotations.

(* "DDBEGIN", "DDEND" *)
Definition DDBEGIN : bytes := [68; 68; 66; 69; 71; 73; 78]%N.
Definition DDEND : bytes := [68; 68; 69; 78; 68]%N.

Fixpoint starts_with (p d : bytes) : bool :=
  match p, d with
  | [], _ => true
  | x :: p', y :: d' => N.eqb x y && starts_with p' d'
  | _ :: _, [] => false
  end.

(* line.find(needle) != -1 *)
Fixpoint contains (needle hay : bytes) : bool :=
  starts_with needle hay ||
  match hay with [] => false | _ :: r => contains needle r end.

(* result of split_parts: what it adds to before, parts, flags, what it puts in front of after *)
Record split := { sp_before : bytes; sp_parts : list bytes; sp_red : list bool; sp_after : bytes }.
Definition splitter := bytes -> res split.

(* second loop: lines after the DDBEGIN line *)
Fixpoint scan_end (between : list bytes) (lines : list bytes) : option (bytes * bytes) :=
  match lines with
  | [] => None
  | l :: r => if contains DDEND l then Some (concat (rev between), l ++ concat r)
              else scan_end (l :: between) r
  end.

Inductive marked :=
| NoMarkers (whole : bytes)
| Marked (before region after : bytes)
| MarkerError.

(* first loop *)
Fixpoint scan_begin (before : list bytes) (lines : list bytes) : marked :=
  match lines with
  | [] => NoMarkers (concat (rev before))
  | l :: r =>
      if contains DDBEGIN l then
        match scan_end [] r with
        | Some (region, after) => Marked (concat (rev (l :: before))) region after
        | None => MarkerError
        end
      else if contains DDEND l then MarkerError
      else scan_begin (l :: before) r
  end.

Definition find_markers (d : bytes) : marked := scan_begin [] (splitlines d).

Definition load (sp : splitter) (d : bytes) : res tcase :=
  match find_markers d with
  | MarkerError => Err LithiumError
  | NoMarkers whole =>
      s <- sp whole ;;
      Ok {| tc_before := sp_before s; tc_parts := sp_parts s; tc_red := sp_red s;
            tc_after := sp_after s |}
  | Marked before region after =>
      s <- sp region ;;
      Ok {| tc_before := before ++ sp_before s; tc_parts := sp_parts s; tc_red := sp_red s;
            tc_after := sp_after s ++ after |}
  end.

(* TestcaseChar.load: move the last byte of the region (end of the last line's terminator)
   out of the reducible part when markers are present *)
Definition char_fixup (t : tcase) : tcase :=
  match tc_before t, tc_after t with
  | [], [] => t
  | _, _ =>
      match rev (tc_parts t) with
      | [] => t
      | last :: rest =>
          {| tc_before := tc_before t; tc_parts := rev rest;
             tc_red := removelast (tc_red t); tc_after := last ++ tc_after t |}
      end
  end.
