(* Hand-written model of testcases.Testcase: __len__, _slice_xlat, rmslice, copy.
   Definitions only.  GenEq/GenEqTestcase.v proves these equal to the definitions that
   tools/translate.py regenerates from the source on every run. *)
From Coq Require Import ZArith NArith List Bool.
From Lithium Require Import PyBase TcRecord.
Import ListNotations.
Open Scope Z_scope.

Definition tc_len (t : tcase) : Z := zlen (tc_parts t) - count_false (tc_red t).

Definition clamp (len_self : Z) (bound : option Z) (dflt : Z) : Z :=
  match bound with
  | None => dflt
  | Some b => if b <? 0 then Z.max (len_self + b) 0
              else if b >? len_self then len_self else b
  end.

(* opts0 = [i for i in range(len(parts)) if reducible[i]] *)
Definition red_positions (t : tcase) : res (list Z) :=
  flat_mapM (fun i => v <- py_index (tc_red t) i ;; if v then Ok [i] else Ok [])
            (py_range (zlen (tc_parts t))).

Definition slice_xlat (t : tcase) (start stop : option Z) : res (Z * Z) :=
  let len_self := tc_len t in
  let start := clamp len_self start 0 in
  let stop := clamp len_self stop len_self in
  opts0 <- red_positions t ;;
  let opts := ([0] ++ py_slice opts0 (Some 1) None) ++ [zlen (tc_parts t)] in
  a <- py_index opts start ;; b <- py_index opts stop ;; Ok (a, b).

Definition rmslice (t : tcase) (start stop : Z) : res tcase :=
  v <- slice_xlat t (Some start) (Some stop) ;;
  let '(start, stop) := v in
  keep <- flat_mapM (fun '(i, x) => v2 <- py_index (tc_red t) (start + i) ;;
                                  if negb v2 then Ok [x] else Ok [])
                    (py_enumerate (py_slice (tc_parts t) (Some start) (Some stop))) ;;
  Ok {| tc_before := tc_before t;
        tc_parts := (py_slice (tc_parts t) None (Some start) ++ keep)
                      ++ py_slice (tc_parts t) (Some stop) None;
        tc_red := (py_slice (tc_red t) None (Some start) ++ py_repeat false (zlen keep))
                      ++ py_slice (tc_red t) (Some stop) None;
        tc_after := tc_after t |}.

Definition copy (t : tcase) : tcase :=
  {| tc_before := tc_before t;
     tc_parts := py_slice (tc_parts t) None None;
     tc_red := py_slice (tc_red t) None None;
     tc_after := tc_after t |}.
