(* Vocabulary for C05: the protected frame (prefix P through the DDBEGIN line, suffix S from the
   DDEND line on) of a testcase.  Definitions only. *)
From Coq Require Import ZArith NArith List Bool.
From Lithium Require Import PyBase TcRecord Testcase Spec Driver TraceSpec Minimize StratSpec.
Import ListNotations.

Definition in_frame (P S : bytes) (f : bytes) : Prop := exists m, f = P ++ m ++ S.

Definition framed (P S : bytes) (t : tcase) : Prop :=
  (exists x, tc_before t = P ++ x) /\ (exists y, tc_after t = y ++ S).

(* a strategy all of whose candidates (and raw writes) keep the frame; I = invariant *)
Definition frame_preserving {St} (strat : strategy St) (I : St -> tcase -> Prop) (P S : bytes) : Prop :=
  forall st best, I st best -> wf best -> framed P S best ->
    match s_next strat st best with
    | Propose t k => wf t /\ framed P S t /\
                     I (k Skipped) best /\ I (k (Tested false)) best /\ I (k (Tested true)) t
    | RawWrite b st' => in_frame P S b /\ I st' best
    | Done => True
    | Fail _ => True
    end.

Definition tests_in_frame (P S : bytes) (tr : list event) : Prop :=
  Forall (fun e => match e with ETest _ _ f _ => in_frame P S f | _ => True end) tr.
