(* Specification vocabulary for loading/splitting (C06, C08, C15).  Definitions only. *)
From Coq Require Import ZArith NArith List Bool.
From Lithium Require Import PyBase TcRecord PyLines Markers Splitters.
Import ListNotations.

Definition split_content (s : split) : bytes := sp_before s ++ concat (sp_parts s) ++ sp_after s.

(* what the loader needs from a split_parts implementation *)
Definition splitter_ok (sp : splitter) : Prop :=
  forall d s, sp d = Ok s ->
    split_content s = d /\ Forall (fun p => p <> []) (sp_parts s) /\
    length (sp_parts s) = length (sp_red s).

Definition loader_ok (ld : bytes -> res tcase) : Prop :=
  forall d t, ld d = Ok t ->
    content t = d /\ Forall (fun p => p <> []) (tc_parts t) /\ wf t.

Definition only_lithium_error (ld : bytes -> res tcase) : Prop :=
  forall d e, ld d = Err e -> e = LithiumError.

Fixpoint first_index {A} (p : A -> bool) (l : list A) : option nat :=
  match l with
  | [] => None
  | x :: r => if p x then Some O else option_map S (first_index p r)
  end.

Definition has_begin (l : bytes) : bool := contains DDBEGIN l.
Definition has_end (l : bytes) : bool := contains DDEND l.

(* C08: the region is the lines strictly between the first DDBEGIN line and the first later
   DDEND line *)
Definition markers_spec (d : bytes) : marked :=
  let ls := splitlines d in
  match first_index has_begin ls with
  | None => if existsb has_end ls then MarkerError else NoMarkers d
  | Some i =>
      if existsb has_end (firstn i ls) then MarkerError
      else match first_index has_end (skipn (S i) ls) with
           | None => MarkerError
           | Some j => Marked (concat (firstn (S i) ls))
                              (concat (firstn j (skipn (S i) ls)))
                              (concat (skipn (S i + j) ls))
           end
  end.

(* line terminators *)
Definition terminators : list bytes :=
  [[13; 10]; [10]; [13]; [11]; [12]; [28]; [29]; [30]; [194; 133]; [226; 128; 168]; [226; 128; 169]]%N.
Definition ends_with (suffix l : bytes) : Prop := exists p, l = p ++ suffix.
Definition ends_with_terminator (l : bytes) : Prop := exists t, In t terminators /\ ends_with t l.

(* adjacent pairs of a list *)
Fixpoint adjacent {A} (l : list A) : list (A * A) :=
  match l with
  | x :: ((y :: _) as r) => (x, y) :: adjacent r
  | _ => []
  end.

(* prefix sums of the atom lengths except the last = the cut positions *)
Fixpoint boundaries (pos : nat) (parts : list bytes) : list nat :=
  match parts with
  | [] => []
  | [p] => []
  | p :: r => (pos + length p)%nat :: boundaries (pos + length p)%nat r
  end.

(* i is a cut position of d for cut-before set bs and cut-after set afs *)
Definition is_cut (bs afs : bytes) (d : bytes) (i : nat) : bool :=
  match i with
  | O => false
  | S j => mem_byte (nth j d 0%N) afs || mem_byte (nth i d 0%N) bs
  end.

Definition cut_positions (bs afs : bytes) (d : bytes) : list nat :=
  filter (is_cut bs afs d) (seq 1 (length d - 1)%nat).

Definition disjoint_sets (bs afs : bytes) : Prop := forall b, mem_byte b bs = true -> mem_byte b afs = false.
