(* Model of strategies.MinimizeBalancedPairs WITH the experimental move (--with-experimental-move):
   the pass of Pairs.v (balanced) extended by the inner loop that tries to move balanced chunks out of
   an unbalanced pair which could not be removed ("->Moving" after the right chunk, "<-Moving" before the
   left chunk).  The code indexes `parts` / `reducible` with atom numbers there (it assumes that every part
   is reducible) - so does the model.  Exceptions: `summary.index` raising ValueError anywhere in the pass
   ends the pass (the `except ValueError` of try_removing_chunks); a failing assert is an internal error.
   The move is excluded by C04, C09 and C13; this model exists for the trace correspondence and for C05.
   Definitions only. *)
From Coq Require Import ZArith NArith List Bool.
From Lithium Require Import PyBase TcRecord Util Testcase Driver Minimize Pairs.
Import ListNotations.
Open Scope Z_scope.

Inductive mphase :=
| MBase            (* the phases of Pairs.v (p_phase of the base state) *)
| MLoop            (* head of the inner `while chunk_mid_start < chunk_rhs_start` *)
| MBefore.         (* the "->Moving" candidate was not accepted: try "<-Moving" *)

Record mvstate := {
  m_base : pstate;           (* p_i1 = lhs_chunk_idx, p_chunk_start = chunk_start, p_tables, p_summary ... *)
  m_phase : mphase;
  m_lhs_start : Z; m_lhs_end : Z;
  m_rhs_start : Z; m_rhs_end : Z;
  m_rhs_idx : Z;
  m_mid_start : Z; m_mid_idx : Z;
  m_orig_idx : Z;
  m_stay : bool
}.

Definition mv_of (s : pstate) : mvstate :=
  {| m_base := s; m_phase := MBase; m_lhs_start := 0; m_lhs_end := 0; m_rhs_start := 0; m_rhs_end := 0;
     m_rhs_idx := 0; m_mid_start := 0; m_mid_idx := 0; m_orig_idx := 0; m_stay := false |}.

(* new tables after an ACCEPTED move; reduce() sets any_chunks_removed for every accepted candidate, moves
   included (which is how the move "can introduce reducing loops") *)
Definition set_tables (s : pstate) (sm : list bool) (tb : list (Z * Z * Z)) (i1 : Z) : pstate :=
  {| p_chunk_size := p_chunk_size s; p_final := p_final s; p_deadline := p_deadline s;
     p_reads := p_reads s; p_any := true; p_phase := p_phase s; p_summary := sm;
     p_chunk_start := p_chunk_start s; p_i1 := i1; p_i2 := p_i2 s; p_i3 := p_i3 s; p_tables := tb |}.

(* _split_parts(lst, step, ignore_before, start, stop) *)
Definition split5 {A} (l : list A) (step ib start stop : Z) : list A * list A * list A * list A * list A :=
  (py_slice l None (Some ib), py_slice l (Some ib) (Some start), py_slice l (Some start) (Some (start + step)),
   py_slice l (Some (start + step)) (Some (stop + step)), py_slice l (Some (stop + step)) None).
Definition parts_after {A} (p : list A * list A * list A * list A * list A) : list A :=
  let '(p0, p1, p2, p3, p4) := p in p0 ++ p1 ++ p3 ++ p2 ++ p4.
Definition parts_before {A} (p : list A * list A * list A * list A * list A) : list A :=
  let '(p0, p1, p2, p3, p4) := p in p0 ++ p2 ++ p1 ++ p3 ++ p4.

(* the pass is over (ValueError caught / loop condition false): post-pass logic of reduce() *)
Definition to_after (m : mvstate) : mvstate := mv_of (set_pp PAfter (m_base m)).

(* leave the inner loop: `lhs_chunk_idx = orig_chunk_idx; if not stay: chunk_start += size; lhs = index(...)` *)
Definition leave_inner (m : mvstate) : mvstate :=
  let s := m_base m in
  if m_stay m then
    mv_of (upd s (p_any s) PLoop (p_summary s) (p_chunk_start s) (m_orig_idx m) 0 0)
  else
    match s_index (p_summary s) (m_orig_idx m + 1) with
    | Some l => mv_of (upd s (p_any s) PLoop (p_summary s) (p_chunk_start s + p_chunk_size s) l 0 0)
    | None => mv_of (upd s (p_any s) PAfter (p_summary s) (p_chunk_start s + p_chunk_size s) (m_orig_idx m) 0 0)
    end.

(* `mid_chunk_idx = summary.index("S", mid_chunk_idx + 1)` with the other fields given; None = ValueError *)
Definition with_mid (m : mvstate) (s : pstate) (lhs_start lhs_end rhs_start rhs_end rhs_idx mid_start : Z)
           (stay : bool) : mvstate :=
  match s_index (p_summary s) (m_mid_idx m + 1) with
  | Some k => {| m_base := s; m_phase := MLoop; m_lhs_start := lhs_start; m_lhs_end := lhs_end;
                 m_rhs_start := rhs_start; m_rhs_end := rhs_end; m_rhs_idx := rhs_idx;
                 m_mid_start := mid_start; m_mid_idx := k; m_orig_idx := m_orig_idx m; m_stay := stay |}
  | None => mv_of (set_pp PAfter s)
  end.

Definition move_tables_after (s : pstate) (lhs mid rhs : Z) : pstate :=
  set_tables s (parts_after (split5 (p_summary s) 1 lhs mid rhs))
             (parts_after (split5 (p_tables s) 1 lhs mid rhs)) (p_i1 s).
Definition move_tables_before (s : pstate) (lhs mid rhs : Z) : pstate :=
  set_tables s (parts_before (split5 (p_summary s) 1 lhs mid rhs))
             (parts_before (split5 (p_tables s) 1 lhs mid rhs)) (p_i1 s + 1).

Definition moved (best : tcase) (ps : list bytes) (fs : list bool) : tcase :=
  {| tc_before := tc_before best; tc_parts := ps; tc_red := fs; tc_after := tc_after best |}.

(* one iteration of the inner loop, phase MLoop *)
Inductive mres := MStep (st : step mvstate) | MCont (m : mvstate).

Definition inner_iter (m : mvstate) (best : tcase) : mres :=
  let s := m_base m in
  let c := p_chunk_size s in
  if negb (m_mid_start m <? m_rhs_start m) then MCont (leave_inner m) else
  if negb (s_count (p_summary s) 0 (m_mid_idx m) * c =? m_mid_start m) then MStep (Fail AssertionError) else
  match nth_table (p_tables s) (m_mid_idx m) with
  | Err e => MStep (Fail e)
  | Ok n =>
      if negb (zero3 n) then
        MCont (with_mid m s (m_lhs_start m) (m_lhs_end m) (m_rhs_start m) (m_rhs_end m) (m_rhs_idx m)
                        (m_mid_start m + c) (m_stay m))
      else
        let ps := split5 (tc_parts best) c (m_lhs_start m) (m_mid_start m) (m_rhs_start m) in
        let fs := split5 (tc_red best) c (m_lhs_start m) (m_mid_start m) (m_rhs_start m) in
        MStep (Propose (moved best (parts_after ps) (parts_after fs)) (fun o =>
          match o with
          | Tested true =>
              let s' := move_tables_after s (p_i1 s) (m_mid_idx m) (m_rhs_idx m) in
              with_mid m s' (m_lhs_start m) (m_lhs_end m) (m_rhs_start m - c) (m_rhs_end m - c)
                       (m_rhs_idx m - 1) (m_mid_start m) (m_stay m)
          | _ => {| m_base := s; m_phase := MBefore; m_lhs_start := m_lhs_start m; m_lhs_end := m_lhs_end m;
                    m_rhs_start := m_rhs_start m; m_rhs_end := m_rhs_end m; m_rhs_idx := m_rhs_idx m;
                    m_mid_start := m_mid_start m; m_mid_idx := m_mid_idx m; m_orig_idx := m_orig_idx m;
                    m_stay := m_stay m |}
          end))
  end.

(* phase MBefore: the "<-Moving" candidate, built from the SAME split of the (unchanged) best *)
Definition before_iter (m : mvstate) (best : tcase) : step mvstate :=
  let s := m_base m in
  let c := p_chunk_size s in
  let ps := split5 (tc_parts best) c (m_lhs_start m) (m_mid_start m) (m_rhs_start m) in
  let fs := split5 (tc_red best) c (m_lhs_start m) (m_mid_start m) (m_rhs_start m) in
  Propose (moved best (parts_before ps) (parts_before fs)) (fun o =>
    match o with
    | Tested true =>
        let s' := move_tables_before s (p_i1 s) (m_mid_idx m) (m_rhs_idx m) in
        with_mid m s' (m_lhs_start m + c) (m_lhs_end m + c) (m_rhs_start m) (m_rhs_end m) (m_rhs_idx m)
                 (m_mid_start m + c) true
    | _ => with_mid m s (m_lhs_start m) (m_lhs_end m) (m_rhs_start m) (m_rhs_end m) (m_rhs_idx m)
                    (m_mid_start m + c) (m_stay m)
    end).

(* the balanced pass body with the move: as Pairs.balanced_body, but a pair that could not be removed
   enters the inner loop *)
Definition enter_inner (s : pstate) (lhs_start lhs_end rhs_start rhs_end rhs : Z) : mvstate :=
  match s_index (p_summary s) (p_i1 s + 1) with
  | Some k => {| m_base := s; m_phase := MLoop; m_lhs_start := lhs_start; m_lhs_end := lhs_end;
                 m_rhs_start := rhs_start; m_rhs_end := rhs_end; m_rhs_idx := rhs;
                 m_mid_start := lhs_end; m_mid_idx := k; m_orig_idx := p_i1 s; m_stay := false |}
  | None => mv_of (set_pp PAfter s)
  end.

Definition balanced_body_mv (s : pstate) (best : tcase) : mres :=
  let c := p_chunk_size s in
  let len := tc_len best in
  let cst := p_chunk_start s in
  let lhs := p_i1 s in
  if negb (s_count (p_summary s) 0 lhs * c =? cst) then MStep (Fail AssertionError) else
  let lhs_start := cst in
  let lhs_end := Z.min len (lhs_start + c) in
  match nth_table (p_tables s) lhs with
  | Err e => MStep (Fail e)
  | Ok n0 =>
      if zero3 n0 then
        match rmslice (copy best) lhs_start lhs_end with
        | Err e => MStep (Fail e)
        | Ok t =>
            MStep (Propose t (fun o =>
              match o with
              | Tested true => mv_of (bal_next s true (s_clear (p_summary s) lhs) cst)
              | _ => mv_of (bal_next s (p_any s) (p_summary s) (cst + c))
              end))
        end
      else
        let '(rhs, n) := partner_scan (py_slice (p_summary s) (Some (lhs + 1)) None)
                                      (py_slice (p_tables s) (Some (lhs + 1)) None) lhs n0 in
        if negb (zero3 n) then MCont (mv_of (bal_next s (p_any s) (p_summary s) (cst + c)))
        else
          let rhs_start := Z.min len (lhs_start + c * s_count (p_summary s) lhs rhs) in
          let rhs_end := Z.min len (rhs_start + c) in
          match (t1 <- rmslice (copy best) rhs_start rhs_end ;; rmslice t1 lhs_start lhs_end) with
          | Err e => MStep (Fail e)
          | Ok t =>
              MStep (Propose t (fun o =>
                match o with
                | Tested true => mv_of (bal_next s true (s_clear (s_clear (p_summary s) lhs) rhs) cst)
                | _ => enter_inner s lhs_start lhs_end rhs_start rhs_end rhs
                end))
          end
  end.

Fixpoint mdrive (fuel : nat) (cfg : mcfg) (clk : clock_t) (m : mvstate) (best : tcase) : step mvstate :=
  match fuel with
  | O => Fail OutOfFuel
  | S f =>
      match m_phase m with
      | MLoop =>
          match inner_iter m best with
          | MStep st => st
          | MCont m' => mdrive f cfg clk m' best
          end
      | MBefore => before_iter m best
      | MBase =>
          let s := m_base m in
          match p_phase s with
          | PTop =>
              match pass_start KBalanced s best with
              | Err e => Fail e
              | Ok s' => mdrive f cfg clk (mv_of s') best
              end
          | PLoop =>
              if negb (p_chunk_start s <? tc_len best) then mdrive f cfg clk (mv_of (set_pp PAfter s)) best
              else
                let '(expired, s1) := read_clock clk s in
                if expired then mdrive f cfg clk (mv_of (set_pp PAfter s1)) best
                else match balanced_body_mv s1 best with
                     | MStep st => st
                     | MCont m' => mdrive f cfg clk m' best
                     end
          | PAfter =>
              match after_pass cfg clk s with
              | None => Done
              | Some s' => mdrive f cfg clk (mv_of s') best
              end
          end
      end
  end.

Definition move_fuel (best : tcase) : nat := (8 * Z.to_nat (tc_len best) + 200)%nat.

Definition pairs_move (cfg : mcfg) (clk : clock_t) : strategy mvstate :=
  {| s_start := fun tc => mv_of (pstart cfg clk tc);
     s_next := fun m best => mdrive (move_fuel best) cfg clk m best |}.
