(* Model of strategies.Minimize.reduce (and, through the `post` parameter, of
   CollapseEmptyBraces which only overrides _post_round_cb).  One `mnext` call is one
   iteration of the `while True:` loop up to its next yield.  Definitions only. *)
From Coq Require Import ZArith NArith List Bool.
From Lithium Require Import PyBase TcRecord Util Testcase Driver.
Import ListNotations.
Open Scope Z_scope.

Inductive repeat_mode := Always | Last | Never.

Record mcfg := {
  c_min : Z;                 (* minimize_min *)
  c_max : Z;                 (* minimize_max *)
  c_repeat : repeat_mode;    (* minimize_repeat *)
  c_first : bool;            (* minimize_repeat_first_round *)
  c_limit : option Z         (* stop_after_time (seconds), None = no limit *)
}.

Definition default_cfg : mcfg :=
  {| c_min := 1; c_max := 2 ^ 30; c_repeat := Last; c_first := false; c_limit := None |}.

Inductive mphase :=
| PHead                       (* top of the while loop *)
| PPost (t : tcase)           (* _post_round_cb wrote the file and re-loaded it: propose t *)
| PPostFail (e : exn)         (* the re-load raised *)
| PDecide.                    (* after `yield from self._post_round_cb(iterator)` *)

Record mstate := {
  m_chunk_size : Z;
  m_min_chunk : Z;
  m_chunk_end : Z;
  m_removed : bool;
  m_deadline : option Z;      (* stop_after_time = time.time() + limit *)
  m_reads : nat;              (* number of time.time() calls made so far *)
  m_phase : mphase
}.

Definition set_phase (p : mphase) (s : mstate) : mstate :=
  {| m_chunk_size := m_chunk_size s; m_min_chunk := m_min_chunk s; m_chunk_end := m_chunk_end s;
     m_removed := m_removed s; m_deadline := m_deadline s; m_reads := m_reads s; m_phase := p |}.

(* the clock: value returned by the i-th call of time.time() *)
Definition clock_t := nat -> Z.

Definition mstart (cfg : mcfg) (clk : clock_t) (tc : tcase) : mstate :=
  let chunk_size := Z.min (c_max cfg) (largest_power_of_two_smaller_than (tc_len tc)) in
  {| m_chunk_size := chunk_size;
     m_min_chunk := Z.min chunk_size (Z.max (c_min cfg) 1);
     m_chunk_end := tc_len tc;
     m_removed := c_first cfg;
     m_deadline := match c_limit cfg with Some l => Some (clk O + l) | None => None end;
     m_reads := match c_limit cfg with Some _ => 1%nat | None => O end;
     m_phase := PHead |}.

(* while chunk_size > 1: chunk_size >>= 1; if chunk_size < len: break *)
Fixpoint halve (fuel : nat) (cs len : Z) : Z :=
  match fuel with
  | O => cs
  | S f => if cs >? 1 then
             let cs' := py_shr cs 1 in
             if cs' <? len then cs' else halve f cs' len
           else cs
  end.

Definition halve_fuel (cs : Z) : nat := S (Z.to_nat (Z.log2 cs)).

(* the block [chunk_start, chunk_end) the next proposal deletes *)
Definition block_of (s : mstate) : Z * Z :=
  (Z.max 0 (m_chunk_end s - m_chunk_size s), m_chunk_end s).

(* chunk_start = max(0, chunk_end - chunk_size); try copy().rmslice(chunk_start, chunk_end) *)
Definition propose_chunk (s : mstate) (best : tcase) : step mstate :=
  let chunk_start := fst (block_of s) in
  match rmslice (copy best) chunk_start (m_chunk_end s) with
  | Err e => Fail e
  | Ok t =>
      Propose t (fun o =>
        match o with
        | Tested true =>
            {| m_chunk_size := m_chunk_size s; m_min_chunk := m_min_chunk s;
               m_chunk_end := chunk_start; m_removed := true;
               m_deadline := m_deadline s; m_reads := m_reads s; m_phase := PHead |}
        | _ =>
            {| m_chunk_size := m_chunk_size s; m_min_chunk := m_min_chunk s;
               m_chunk_end := if m_chunk_size s <=? 2 then m_chunk_end s - 1
                              else m_chunk_end s - m_chunk_size s;
               m_removed := m_removed s;
               m_deadline := m_deadline s; m_reads := m_reads s; m_phase := PHead |}
        end)
  end.

Definition repeats_last_or_always (r : repeat_mode) : bool :=
  match r with Always | Last => true | Never => false end.
Definition is_always (r : repeat_mode) : bool :=
  match r with Always => true | _ => false end.

(* the round-end decision tree (strategies.py lines 471-507): None = stop, Some s' = state
   with which the next sweep starts *)
Definition decide_state (cfg : mcfg) (s : mstate) (best : tcase) : option mstate :=
  let len := tc_len best in
  let upd cs :=
    {| m_chunk_size := cs; m_min_chunk := m_min_chunk s; m_chunk_end := len;
       m_removed := false; m_deadline := m_deadline s; m_reads := m_reads s;
       m_phase := PHead |} in
  if m_chunk_size s <=? m_min_chunk s then
    if m_removed s && repeats_last_or_always (c_repeat cfg)
    then Some (upd (m_chunk_size s))
    else None
  else if m_removed s && is_always (c_repeat cfg) && (m_chunk_size s <? len)
  then Some (upd (m_chunk_size s))
  else Some (upd (halve (halve_fuel (m_chunk_size s)) (m_chunk_size s) len)).

(* ... then the proposal of the first chunk of the new sweep *)
Definition decide (cfg : mcfg) (s : mstate) (best : tcase) : step mstate :=
  match decide_state cfg s best with
  | None => Done
  | Some s' => propose_chunk s' best
  end.

(* post-round callback: None = nothing to do; Some (raw, r) = the strategy wrote `raw` to the
   testcase path and re-loaded it with result r *)
Definition post_t := tcase -> option (bytes * res tcase).
Definition no_post : post_t := fun _ => None.

Definition mnext (cfg : mcfg) (clk : clock_t) (post : post_t) (s : mstate) (best : tcase)
  : step mstate :=
  match m_phase s with
  | PHead =>
      let expired := match m_deadline s with
                     | Some d => clk (m_reads s) >? d
                     | None => false end in
      if expired then Done else
      let s := {| m_chunk_size := m_chunk_size s; m_min_chunk := m_min_chunk s;
                  m_chunk_end := m_chunk_end s; m_removed := m_removed s;
                  m_deadline := m_deadline s;
                  m_reads := match m_deadline s with Some _ => S (m_reads s) | None => m_reads s end;
                  m_phase := PHead |} in
      if m_chunk_end s - m_chunk_size s <? 0 then
        if tc_len best =? 0 then Done
        else match post best with
             | None => decide cfg s best
             | Some (raw, Ok t') => RawWrite raw (set_phase (PPost t') s)
             | Some (raw, Err e) => RawWrite raw (set_phase (PPostFail e) s)
             end
      else propose_chunk s best
  | PPost t' => Propose t' (fun _ => set_phase PDecide s)
  | PPostFail e => Fail e
  | PDecide => decide cfg s best
  end.

Definition minimize (cfg : mcfg) (clk : clock_t) (post : post_t) : strategy mstate :=
  {| s_start := mstart cfg clk; s_next := mnext cfg clk post |}.
