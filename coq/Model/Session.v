(* Session: a second (third, ...) run() on the SAME Lithium object.  Counters, temp dir and
   last_interesting survive from the previous run; the caller has put `file0` at the testcase
   path; run() itself resets `testcase_written` (reducer.py, first statement of run()). *)
From Coq Require Import ZArith NArith List Bool.
From Lithium Require Import PyBase TcRecord Testcase Driver TraceSpec.
Import ListNotations.
Open Scope Z_scope.

(* the world a following run starts in; `reset` says whether run() resets the written flag
   (true = the code as it is; false = the flag survives, as it did before fix b8a6434) *)
Definition carry (reset : bool) (prev : world) (file0 : bytes) : world :=
  {| w_file := file0; w_temp := w_temp prev; w_tests := w_tests prev; w_tfc := w_tfc prev;
     w_total := w_total prev; w_last := w_last prev;
     w_dirty := if reset then false else w_dirty prev; w_trace := [] |}.

Definition run_on {S} (strat : strategy S) (verdict : verdict_t) (fuel : nat)
           (tc0 : tcase) (w0 : world) : result :=
  map_world finally (strategy_main strat verdict fuel tc0 (log EInit w0)).

Definition run_check_only_on (verdict : verdict_t) (tc0 : tcase) (w0 : world) : result :=
  map_world finally (check_only_main verdict tc0 (log EInit w0)).

(* ---- the temp dir across runs on one object (C12): files are named by the prefix number *)
Fixpoint expected_temp_p (tr : list event) : list (tname * bytes) :=
  match tr with
  | [] => []
  | ETest _ p f Yes :: r => (Numbered p true, f) :: expected_temp_p r
  | ETest _ p f No :: r => (Numbered p false, f) :: expected_temp_p r
  | _ :: r => expected_temp_p r
  end.

(* the i-th test of a following run is numbered k0+i-1 and handed prefix number p0+i-1 *)
Fixpoint numbered_from2 (k p : Z) (tests : list event) : Prop :=
  match tests with
  | [] => True
  | e :: r => test_nums e = (k, p) /\ numbered_from2 (k + 1) (p + 1) r
  end.

(* every numbered file in the directory has a number below n *)
Definition names_below (d : list (tname * bytes)) (n : Z) : Prop :=
  Forall (fun e => match fst e with Numbered p _ => p < n | Original => True end) d.
