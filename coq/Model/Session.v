(* Session: a second (third, ...) run() on the SAME Lithium object.  Counters, temp dir and
   last_interesting survive from the previous run; the caller has put `file0` at the testcase
   path; run() itself resets `testcase_written` (reducer.py, first statement of run()). *)
From Coq Require Import ZArith NArith List Bool.
From Lithium Require Import PyBase TcRecord Testcase Driver.
Import ListNotations.
Open Scope Z_scope.

(* the world a following run starts in; `reset` says whether run() resets the written flag
   (true = the code as it is; false = the flag survives, as it did before fix b8a6434) *)
Definition carry (reset : bool) (prev : world) (file0 : bytes) : world :=
  {| w_file := file0; w_temp := w_temp prev; w_tests := w_tests prev; w_tfc := w_tfc prev;
     w_total := w_total prev; w_last := w_last prev;
     w_dirty := if reset then false else w_dirty prev; w_trace := [] |}.

Definition run_on {S} (strat : strategy S) (verdict : verdict_t) (fuel : nat)
           (tc0 : tcase) (w0 : world) : result :=
  map_world finally (strategy_main strat verdict fuel tc0 (log EInit w0)).

Definition run_check_only_on (verdict : verdict_t) (tc0 : tcase) (w0 : world) : result :=
  map_world finally (check_only_main verdict tc0 (log EInit w0)).
