(* Pinned source texts (ast.unparse, docstrings dropped) of the functions the hand-written models
   were made from: a snapshot of Gen/GenSrc.v taken when the models were written / last reviewed.
   GenEq/GenEqSrc*.v proves the texts regenerated on every run equal to these. *)
From Coq Require Import ZArith NArith List Bool String.
Import ListNotations.
Open Scope Z_scope.

Module PinsSrc.
Definition src_reducer_Lithium_init : string := "def __init__(self) -> None:
    self.strategy: Optional[Strategy] = None
    self.condition_script: Optional[ModuleType] = None
    self.condition_args: Optional[List[str]] = None
    self.test_count = 0
    self.test_total = 0
    self.temp_dir: Optional[Path] = None
    self.testcase: Optional[Testcase] = None
    self.last_interesting: Optional[Testcase] = None
    self.temp_file_count = 1
    self.testcase_written = False"%string.
Definition src_reducer_Lithium_run : string := "def run(self) -> int:
    self.testcase_written = False
    if hasattr(self.condition_script, 'init'):
        cast(Any, self.condition_script).init(self.condition_args)
    try:
        if self.temp_dir is None:
            self.create_temp_dir()
            LOG.info('Intermediate files will be stored in %s%s.', self.temp_dir, os.sep)
        assert self.strategy is not None
        assert self.testcase is not None
        result = self.strategy.main(self.testcase, self.interesting, self.testcase_temp_filename)
        LOG.info('  Tests performed: %d', self.test_count)
        LOG.info('  Test total: %s', quantity(self.test_total, self.testcase.atom))
        return result
    finally:
        if hasattr(self.condition_script, 'cleanup'):
            cast(Any, self.condition_script).cleanup(self.condition_args)
        if self.last_interesting is not None and self.testcase_written:
            self.last_interesting.dump()"%string.
Definition src_reducer_Lithium_interesting : string := "def interesting(self, testcase_suggestion: Testcase, write_it: bool=True) -> bool:
    if write_it:
        self.testcase_written = True
        testcase_suggestion.dump()
    self.test_count += 1
    self.test_total += len(testcase_suggestion)
    assert self.temp_dir is not None
    temp_prefix = str(self.temp_dir / str(self.temp_file_count))
    assert self.condition_script is not None
    inter = bool(cast(Any, self.condition_script).interesting(self.condition_args, temp_prefix))
    if self.temp_dir:
        temp_file_tag = 'interesting' if inter else 'boring'
        testcase_suggestion.dump(self.testcase_temp_filename(temp_file_tag))
    if inter:
        self.testcase = testcase_suggestion
        self.last_interesting = self.testcase
    return inter"%string.
Definition src_reducer_Lithium_testcase_temp_filename : string := "def testcase_temp_filename(self, filename_stem: str, use_number: bool=True) -> Path:
    if use_number:
        filename_stem = f'{self.temp_file_count}-{filename_stem}'
        self.temp_file_count += 1
    assert self.testcase is not None
    assert self.testcase.extension is not None
    assert self.temp_dir is not None
    return self.temp_dir / (filename_stem + self.testcase.extension)"%string.
Definition src_strategies_Strategy_main : string := "def main(self, testcase: Testcase, interesting: Callable[[Testcase, bool], bool], temp_filename: Callable[[str, bool], Path]) -> int:
    testcase.dump(temp_filename('original', False))
    if not testcase:
        LOG.info(""The file has %s so there's nothing for Lithium to try to remove!"", quantity(0, testcase.atom))
        return 0
    orig_len = quantity(len(testcase), testcase.atom)
    LOG.info('The original testcase has %s.', orig_len)
    LOG.info(""Checking that the original testcase is 'interesting'..."")
    if not interesting(testcase, False):
        LOG.info(""Lithium result: the original testcase is not 'interesting'!"")
        return 1
    reduction = self.reduce(testcase)
    for attempt in reduction:
        success = interesting(attempt, True)
        if success:
            LOG.info('%s was successful', reduction.description)
        else:
            LOG.info('%s made the file uninteresting', reduction.description)
        reduction.feedback(success)
    testcase = reduction.testcase
    testcase.dump()
    summary_header()
    LOG.info('  Initial size: %s', orig_len)
    LOG.info('  Final size: %s', quantity(len(testcase), testcase.atom))
    return int(not reduction.reduced)"%string.
Definition src_strategies_CheckOnly_main : string := "def main(self, testcase: Testcase, interesting: Callable[[Testcase, bool], bool], temp_filename: Callable[[str, bool], Path]) -> int:
    result = interesting(testcase, False)
    LOG.info('Lithium result: %sinteresting.', '' if result else 'not ')
    return int(not result)"%string.
Definition src_strategies_CheckOnly_reduce : string := "@ReductionIterator.wrap
def reduce(self, iterator: ReductionIterator) -> Iterator[Testcase]:
    yield from iterator.try_testcase(iterator.testcase, 'Check')"%string.
Definition src_strategies_ReductionIterator_init : string := "def __init__(self, testcase: Testcase) -> None:
    self._best_testcase = testcase
    self._testcase_attempt: Optional[Testcase] = None
    self._any_success: bool = False
    self._last_success: Optional[bool] = None
    self._description: str = 'Reduction'
    self._tried: Set[bytes] = set()"%string.
Definition src_strategies_ReductionIterator_feedback : string := "def feedback(self, success: bool) -> None:
    assert self._testcase_attempt is not None, 'No testcase being attempted'
    assert self._last_success is None, 'Already got feedback'
    self._last_success = success
    if success:
        self._best_testcase = self._testcase_attempt
        self._any_success = True
    self._testcase_attempt = None"%string.
Definition src_strategies_ReductionIterator_try_testcase : string := "def try_testcase(self, testcase: Testcase, description: str='Reduction') -> Iterator[Testcase]:
    assert self._testcase_attempt is None, 'Already attempting a testcase'
    tc_hasher = hashlib.sha512()
    tc_hasher.update(testcase.before)
    for part in testcase.parts:
        tc_hasher.update(part)
    tc_hasher.update(testcase.after)
    tc_hash = tc_hasher.digest()
    if tc_hash not in self._tried:
        self._tried.add(tc_hash)
        self._last_success = None
        self._testcase_attempt = testcase
        self._description = description
        yield self._testcase_attempt"%string.
Definition src_strategies_ReductionIterator_wrap : string := "@classmethod
def wrap(cls, method: Callable[['Strategy', 'ReductionIterator'], Iterator[Testcase]]) -> Callable[['Strategy', Testcase], Iterator[Testcase]]:

    @functools.wraps(method)
    def wrapped(inst: 'Strategy', testcase: Testcase) -> Iterator[Testcase]:

        class _iter(cls):

            def __iter__(self) -> Iterator[Testcase]:
                yield from method(inst, self)
        return _iter(testcase)
    return wrapped"%string.
Definition src_testcases_Testcase_dump : string := "def dump(self, path: Optional[Union[Path, str]]=None) -> None:
    if path is None:
        assert self.filename is not None
        path = self.filename
    else:
        path = str(path)
    with open(path, 'wb') as fileobj:
        fileobj.write(self.before)
        fileobj.writelines(self.parts)
        fileobj.write(self.after)"%string.
Definition src_strategies_Minimize_init : string := "def __init__(self) -> None:
    super().__init__()
    self.minimize_repeat = 'last'
    self.minimize_min = 1
    self.minimize_max = pow(2, 30)
    self.minimize_repeat_first_round = False
    self.stop_after_time = None"%string.
Definition src_strategies_Minimize_reduce : string := "@ReductionIterator.wrap
def reduce(self, iterator: ReductionIterator) -> Iterator[Testcase]:
    chunk_size = min(self.minimize_max, largest_power_of_two_smaller_than(len(iterator.testcase)))
    min_chunk_size = min(chunk_size, max(self.minimize_min, 1))
    chunk_end = len(iterator.testcase)
    removed_chunks = self.minimize_repeat_first_round
    stop_after_time = None
    if self.stop_after_time is not None:
        stop_after_time = time.time() + self.stop_after_time
    while True:
        if stop_after_time is not None and time.time() > stop_after_time:
            LOG.warning('Lithium result: run time elapsed, please perform another pass using the same arguments')
            return
        if chunk_end - chunk_size < 0:
            if not iterator.testcase:
                LOG.info('Lithium result: succeeded, reduced to: %s', quantity(len(iterator.testcase), iterator.testcase.atom))
                break
            yield from self._post_round_cb(iterator)
            if chunk_size <= min_chunk_size:
                if removed_chunks and self.minimize_repeat in {'always', 'last'}:
                    LOG.info('Starting another round of chunk size %d', chunk_size)
                    chunk_end = len(iterator.testcase)
                else:
                    LOG.info('Lithium result: succeeded, reduced to: %s', quantity(len(iterator.testcase), iterator.testcase.atom))
                    break
            elif removed_chunks and self.minimize_repeat == 'always' and (chunk_size < len(iterator.testcase)):
                LOG.info('Starting another round of chunk size %d', chunk_size)
                chunk_end = len(iterator.testcase)
            else:
                chunk_end = len(iterator.testcase)
                while chunk_size > 1:
                    chunk_size >>= 1
                    if chunk_size < len(iterator.testcase):
                        break
                LOG.info('')
                LOG.info('Reducing chunk size to %d', chunk_size)
            removed_chunks = False
        chunk_start = max(0, chunk_end - chunk_size)
        status = f'Removing chunk from {chunk_start} to {chunk_end} of {len(iterator.testcase)}'
        test_to_try = iterator.testcase.copy()
        test_to_try.rmslice(chunk_start, chunk_end)
        for test in iterator.try_testcase(test_to_try, status):
            yield test
            if iterator.last_feedback:
                removed_chunks = True
                chunk_end = chunk_start
                break
        else:
            if chunk_size <= 2:
                chunk_end -= 1
            else:
                chunk_end -= chunk_size
    if chunk_size == 1 and (not removed_chunks) and (self.minimize_repeat != 'never'):
        LOG.info('  Removing any single %s from the final file makes it uninteresting!', iterator.testcase.atom)"%string.
Definition src_strategies_Minimize_post_round_cb : string := "def _post_round_cb(self, iterator: ReductionIterator) -> Iterator[Testcase]:
    return cast(Iterator[Testcase], [])"%string.
Definition src_strategies_MinimizeSurroundingPairs_reduce : string := "@ReductionIterator.wrap
def reduce(self, iterator: ReductionIterator) -> Iterator[Testcase]:
    chunk_size = min(self.minimize_max, largest_power_of_two_smaller_than(len(iterator.testcase)))
    final_chunk_size = max(self.minimize_min, 1)
    stop_after_time: Optional[int] = None
    if self.stop_after_time is not None:
        stop_after_time = time.time() + self.stop_after_time
    while True:
        any_chunks_removed = False
        for testcase in self.try_removing_chunks(chunk_size, stop_after_time, iterator):
            yield testcase
            any_chunks_removed = any_chunks_removed or iterator.last_feedback
        if stop_after_time is not None and time.time() > stop_after_time:
            LOG.warning('Lithium result: run time elapsed, please perform another pass using the same arguments')
            return
        last = chunk_size <= final_chunk_size
        if any_chunks_removed and (self.minimize_repeat == 'always' or (self.minimize_repeat == 'last' and last)):
            continue
        if last:
            break
        chunk_size >>= 1
    if final_chunk_size == 1 and self.minimize_repeat != 'never':
        LOG.info('  Removing any single %s from the final file makes it uninteresting!', iterator.testcase.atom)"%string.
Definition src_strategies_MinimizeSurroundingPairs_try_removing_chunks : string := "def try_removing_chunks(self, chunk_size: int, stop_after_time: Optional[int], iterator: ReductionIterator) -> Iterator[Testcase]:
    chunks_removed = 0
    atoms_removed = 0
    atoms_initial = len(iterator.testcase)
    num_chunks = divide_rounding_up(len(iterator.testcase), chunk_size)
    if num_chunks < 3:
        return
    LOG.info('Starting a round with chunks of %s.', quantity(chunk_size, iterator.testcase.atom))
    summary = 'S' * num_chunks
    chunk_start = chunk_size
    before_chunk_idx = 0
    keep_chunk_idx = 1
    after_chunk_idx = 2
    try:
        while chunk_start + chunk_size < len(iterator.testcase):
            if stop_after_time is not None and time.time() > stop_after_time:
                return
            chunk_bef_start = max(0, chunk_start - chunk_size)
            chunk_bef_end = chunk_start
            chunk_aft_start = min(len(iterator.testcase), chunk_start + chunk_size)
            chunk_aft_end = min(len(iterator.testcase), chunk_aft_start + chunk_size)
            description = f'Removing chunk #{before_chunk_idx} & #{after_chunk_idx} of {num_chunks} chunks of size {chunk_size}'
            testcase_suggestion = iterator.testcase.copy()
            testcase_suggestion.rmslice(chunk_aft_start, chunk_aft_end)
            testcase_suggestion.rmslice(chunk_bef_start, chunk_bef_end)
            for test in iterator.try_testcase(testcase_suggestion, description):
                yield test
                if iterator.last_feedback:
                    chunks_removed += 2
                    atoms_removed += chunk_bef_end - chunk_bef_start
                    atoms_removed += chunk_aft_end - chunk_aft_start
                    summary = summary[:before_chunk_idx] + '-' + summary[before_chunk_idx + 1:]
                    summary = summary[:after_chunk_idx] + '-' + summary[after_chunk_idx + 1:]
                    chunk_start -= chunk_size
                    try:
                        before_chunk_idx = summary.rindex('S', 0, keep_chunk_idx)
                    except ValueError:
                        before_chunk_idx = keep_chunk_idx
                        keep_chunk_idx = summary.index('S', keep_chunk_idx + 1)
                        chunk_start += chunk_size
                    break
            else:
                before_chunk_idx = keep_chunk_idx
                keep_chunk_idx = after_chunk_idx
                chunk_start += chunk_size
            after_chunk_idx = summary.index('S', keep_chunk_idx + 1)
    except ValueError:
        pass
    atoms_surviving = atoms_initial - atoms_removed
    printable_summary = ' '.join((summary[2 * i:min(2 * (i + 1), num_chunks + 1)] for i in range(num_chunks // 2 + num_chunks % 2)))
    LOG.info('')
    LOG.info('Done with a round of chunk size %d!', chunk_size)
    LOG.info('%s survived; %s removed.', quantity(summary.count('S'), 'chunk'), quantity(summary.count('-'), 'chunk'))
    LOG.info('%s survived; %s removed.', quantity(atoms_surviving, iterator.testcase.atom), quantity(atoms_removed, iterator.testcase.atom))
    LOG.info('Which chunks survived: %s', printable_summary)
    LOG.info('')"%string.
Definition src_strategies_MinimizeBalancedPairs_try_removing_chunks : string := "def try_removing_chunks(self, chunk_size: int, stop_after_time: Optional[int], iterator: ReductionIterator) -> Iterator[Testcase]:
    chunks_removed = 0
    atoms_removed = 0
    atoms_initial = len(iterator.testcase)
    num_chunks = divide_rounding_up(len(iterator.testcase), chunk_size)
    if num_chunks < 2:
        return
    LOG.info('Starting a round with chunks of %s.', quantity(chunk_size, iterator.testcase.atom))

    def _count_diff(chunk: int, ops: bytes) -> int:
        assert len(ops) == 2
        return iterator.testcase.parts[chunk].count(ops[0]) - iterator.testcase.parts[chunk].count(ops[1])
    summary = 'S' * num_chunks
    curly = [_count_diff(i, b'{}') for i in range(num_chunks)]
    square = [_count_diff(i, b'[]') for i in range(num_chunks)]
    normal = [_count_diff(i, b'()') for i in range(num_chunks)]
    chunk_start = 0
    lhs_chunk_idx = 0
    try:
        while chunk_start < len(iterator.testcase):
            if stop_after_time is not None and time.time() > stop_after_time:
                return
            description = f'chunk #{lhs_chunk_idx} of {num_chunks} chunks of size {chunk_size}'
            assert summary.count('S', 0, lhs_chunk_idx) * chunk_size == chunk_start, 'the chunk_start should correspond to the lhs_chunk_idx modulo the removed chunks.'
            chunk_lhs_start = chunk_start
            chunk_lhs_end = min(len(iterator.testcase), chunk_lhs_start + chunk_size)
            n_curly = curly[lhs_chunk_idx]
            n_square = square[lhs_chunk_idx]
            n_normal = normal[lhs_chunk_idx]
            if not (n_curly or n_square or n_normal):
                testcase_suggestion = iterator.testcase.copy()
                testcase_suggestion.rmslice(chunk_lhs_start, chunk_lhs_end)
                for test in iterator.try_testcase(testcase_suggestion, 'Removing ' + description):
                    yield test
                    if iterator.last_feedback:
                        chunks_removed += 1
                        atoms_removed += chunk_lhs_end - chunk_lhs_start
                        summary = summary[:lhs_chunk_idx] + '-' + summary[lhs_chunk_idx + 1:]
                        break
                else:
                    chunk_start += chunk_size
                lhs_chunk_idx = summary.index('S', lhs_chunk_idx + 1)
                continue
            rhs_chunk_idx = lhs_chunk_idx
            for item in summary[lhs_chunk_idx + 1:]:
                rhs_chunk_idx += 1
                if item != 'S':
                    continue
                n_curly += curly[rhs_chunk_idx]
                n_square += square[rhs_chunk_idx]
                n_normal += normal[rhs_chunk_idx]
                if n_curly < 0 or n_square < 0 or n_normal < 0:
                    break
                if not (n_curly or n_square or n_normal):
                    break
            if n_curly or n_square or n_normal:
                LOG.info(""Skipping %s because it is 'uninteresting'."", description)
                chunk_start += chunk_size
                lhs_chunk_idx = summary.index('S', lhs_chunk_idx + 1)
                continue
            chunk_rhs_start = chunk_lhs_start + chunk_size * summary.count('S', lhs_chunk_idx, rhs_chunk_idx)
            chunk_rhs_start = min(len(iterator.testcase), chunk_rhs_start)
            chunk_rhs_end = min(len(iterator.testcase), chunk_rhs_start + chunk_size)
            description = f'chunk #{lhs_chunk_idx} & #{rhs_chunk_idx} of {num_chunks} chunks of size {chunk_size}'
            testcase_suggestion = iterator.testcase.copy()
            testcase_suggestion.rmslice(chunk_rhs_start, chunk_rhs_end)
            testcase_suggestion.rmslice(chunk_lhs_start, chunk_lhs_end)
            worked = False
            for test in iterator.try_testcase(testcase_suggestion, 'Removing ' + description):
                yield test
                if iterator.last_feedback:
                    chunks_removed += 2
                    atoms_removed += chunk_lhs_end - chunk_lhs_start
                    atoms_removed += chunk_rhs_end - chunk_rhs_start
                    summary = summary[:lhs_chunk_idx] + '-' + summary[lhs_chunk_idx + 1:]
                    summary = summary[:rhs_chunk_idx] + '-' + summary[rhs_chunk_idx + 1:]
                    lhs_chunk_idx = summary.index('S', lhs_chunk_idx + 1)
                    worked = True
            if worked:
                continue
            if not self.use_experimental_move:
                chunk_start += chunk_size
                lhs_chunk_idx = summary.index('S', lhs_chunk_idx + 1)
                continue
            Sliceable = Union[str, List[Any]]
            FiveParts = Tuple[Sliceable, Sliceable, Sliceable, Sliceable, Sliceable]

            def _split_parts(lst: Sliceable, step: int, ignore_before: int, start: int, stop: int) -> FiveParts:
                return (lst[:ignore_before], lst[ignore_before:start], lst[start:start + step], lst[start + step:stop + step], lst[stop + step:])

            def _parts_after(parts: FiveParts) -> Sliceable:
                return parts[0] + parts[1] + parts[3] + parts[2] + parts[4]

            def _parts_before(parts: FiveParts) -> Sliceable:
                return parts[0] + parts[2] + parts[1] + parts[3] + parts[4]

            def _move_after(lst: Sliceable, step: int, ignore_before: int, start: int, stop: int) -> Sliceable:
                return _parts_after(_split_parts(lst, step, ignore_before, start, stop))

            def _move_before(lst: Sliceable, step: int, ignore_before: int, start: int, stop: int) -> Sliceable:
                return _parts_before(_split_parts(lst, step, ignore_before, start, stop))
            orig_chunk_idx = lhs_chunk_idx
            stay_on_same_chunk = False
            chunk_mid_start = chunk_lhs_end
            mid_chunk_idx = summary.index('S', lhs_chunk_idx + 1)
            while chunk_mid_start < chunk_rhs_start:
                assert summary.count('S', 0, mid_chunk_idx) * chunk_size == chunk_mid_start, 'the chunk_mid_start should correspond to the mid_chunk_idx modulo the removed chunks.'
                description = f'chunk #{mid_chunk_idx} of {num_chunks} chunks of size {chunk_size}'
                parts = _split_parts(iterator.testcase.parts, chunk_size, chunk_lhs_start, chunk_mid_start, chunk_rhs_start)
                reducible = _split_parts(iterator.testcase.reducible, chunk_size, chunk_lhs_start, chunk_mid_start, chunk_rhs_start)
                n_curly = curly[mid_chunk_idx]
                n_square = square[mid_chunk_idx]
                n_normal = normal[mid_chunk_idx]
                if n_curly or n_square or n_normal:
                    LOG.info(""Keeping %s because it is 'uninteresting'."", description)
                    chunk_mid_start += chunk_size
                    mid_chunk_idx = summary.index('S', mid_chunk_idx + 1)
                    continue
                testcase_suggestion = iterator.testcase.copy()
                testcase_suggestion.parts = cast(List[bytes], _parts_after(parts))
                testcase_suggestion.reducible = cast(List[bool], _parts_after(reducible))
                worked = False
                for test in iterator.try_testcase(testcase_suggestion, '->Moving ' + description):
                    yield test
                    if iterator.last_feedback:
                        chunk_rhs_start -= chunk_size
                        chunk_rhs_end -= chunk_size
                        summary = cast(str, _move_after(summary, 1, lhs_chunk_idx, mid_chunk_idx, rhs_chunk_idx))
                        curly = cast(List[int], _move_after(curly, 1, lhs_chunk_idx, mid_chunk_idx, rhs_chunk_idx))
                        square = cast(List[int], _move_after(square, 1, lhs_chunk_idx, mid_chunk_idx, rhs_chunk_idx))
                        normal = cast(List[int], _move_after(normal, 1, lhs_chunk_idx, mid_chunk_idx, rhs_chunk_idx))
                        rhs_chunk_idx -= 1
                        mid_chunk_idx = summary.index('S', mid_chunk_idx + 1)
                        worked = True
                if worked:
                    continue
                testcase_suggestion.parts = cast(List[bytes], _parts_before(parts))
                testcase_suggestion.reducible = cast(List[bool], _parts_before(reducible))
                worked = False
                for test in iterator.try_testcase(testcase_suggestion, '<-Moving ' + description):
                    yield test
                    if iterator.last_feedback:
                        chunk_lhs_start += chunk_size
                        chunk_lhs_end += chunk_size
                        chunk_mid_start += chunk_size
                        summary = cast(str, _move_before(summary, 1, lhs_chunk_idx, mid_chunk_idx, rhs_chunk_idx))
                        curly = cast(List[int], _move_before(curly, 1, lhs_chunk_idx, mid_chunk_idx, rhs_chunk_idx))
                        square = cast(List[int], _move_before(square, 1, lhs_chunk_idx, mid_chunk_idx, rhs_chunk_idx))
                        normal = cast(List[int], _move_before(normal, 1, lhs_chunk_idx, mid_chunk_idx, rhs_chunk_idx))
                        lhs_chunk_idx += 1
                        mid_chunk_idx = summary.index('S', mid_chunk_idx + 1)
                        stay_on_same_chunk = True
                        worked = True
                if worked:
                    continue
                chunk_mid_start += chunk_size
                mid_chunk_idx = summary.index('S', mid_chunk_idx + 1)
            lhs_chunk_idx = orig_chunk_idx
            if not stay_on_same_chunk:
                chunk_start += chunk_size
                lhs_chunk_idx = summary.index('S', lhs_chunk_idx + 1)
    except ValueError:
        pass
    atoms_surviving = atoms_initial - atoms_removed
    printable_summary = ' '.join((summary[2 * i:min(2 * (i + 1), num_chunks + 1)] for i in range(num_chunks // 2 + num_chunks % 2)))
    LOG.info('')
    LOG.info('Done with a round of chunk size %d!', chunk_size)
    LOG.info('%s survived; %s removed.', quantity(summary.count('S'), 'chunk'), quantity(summary.count('-'), 'chunk'))
    LOG.info('%s survived; %s removed.', quantity(atoms_surviving, iterator.testcase.atom), quantity(atoms_removed, iterator.testcase.atom))
    LOG.info('Which chunks survived: %s', printable_summary)
    LOG.info('')"%string.
Definition src_strategies_CollapseEmptyBraces_post_round_cb : string := "def _post_round_cb(self, iterator: ReductionIterator) -> Iterator[Testcase]:
    raw = b''.join(iterator.testcase.parts)
    modified = re.sub(b'{\\s+}', b'{ }', raw)
    if raw != modified:
        assert iterator.testcase.filename is not None
        with open(iterator.testcase.filename, 'wb') as testf:
            testf.write(iterator.testcase.before)
            testf.write(modified)
            testf.write(iterator.testcase.after)
        new_tc = iterator.testcase.copy()
        new_tc.parts = []
        new_tc.reducible = []
        new_tc.split_parts(modified)
        yield from iterator.try_testcase(new_tc, 'Collapse empty braces')"%string.
Definition src_testcases_Testcase_init : string := "def __init__(self) -> None:
    self.before: bytes = b''
    self.after: bytes = b''
    self.parts: List[bytes] = []
    self.reducible: List[bool] = []
    self.filename: Optional[str] = None
    self.extension: Optional[str] = None"%string.
Definition src_testcases_Testcase_load : string := "def load(self, path: Union[Path, str]) -> None:
    self.__init__()
    self.filename = str(path)
    self.extension = os.path.splitext(self.filename)[1]
    with open(self.filename, 'rb') as fileobj:
        text = fileobj.read().decode('utf-8', errors='surrogateescape')
        lines = [line.encode('utf-8', errors='surrogateescape') for line in text.splitlines(keepends=True)]
    before = []
    while lines:
        line = lines.pop(0)
        before.append(line)
        if line.find(b'DDBEGIN') != -1:
            self.before = b''.join(before)
            del before
            break
        if line.find(b'DDEND') != -1:
            raise LithiumError(f""The testcase ({self.filename}) has a line containing 'DDEND' without a line containing 'DDBEGIN' before it."")
    else:
        self.split_parts(b''.join(before))
        return
    between = []
    while lines:
        line = lines.pop(0)
        if line.find(b'DDEND') != -1:
            self.after = line + b''.join(lines)
            break
        between.append(line)
    else:
        raise LithiumError(f""The testcase ({self.filename}) has a line containing 'DDBEGIN' but noline containing 'DDEND'."")
    self.split_parts(b''.join(between))"%string.
Definition src_testcases_TestcaseLine_split_parts : string := "def split_parts(self, data: bytes) -> None:
    orig = len(self.parts)
    self.parts.extend((line.encode('utf-8', errors='surrogateescape') for line in data.decode('utf-8', errors='surrogateescape').splitlines(keepends=True)))
    added = len(self.parts) - orig
    self.reducible.extend([True] * added)"%string.
Definition src_testcases_TestcaseChar_load : string := "def load(self, path: Union[Path, str]) -> None:
    super().load(path)
    if (self.before or self.after) and self.parts:
        self.after = self.parts.pop() + self.after
        self.reducible.pop()"%string.
Definition src_testcases_TestcaseChar_split_parts : string := "def split_parts(self, data: bytes) -> None:
    orig = len(self.parts)
    self.parts.extend((data[i:i + 1] for i in range(len(data))))
    added = len(self.parts) - orig
    self.reducible.extend([True] * added)"%string.
Definition src_testcases_TestcaseJsStr_split_parts : string := "def split_parts(self, data: bytes) -> None:
    instr = None
    chars: List[int] = []
    while True:
        last = 0
        while True:
            if instr:
                match = re.match(b'(\\\\u[0-9A-Fa-f]{4}|\\\\x[0-9A-Fa-f]{2}|\\\\u\\{[0-9A-Fa-f]+\\}|\\\\.|.)', data[last:], re.DOTALL)
                if not match:
                    break
                chars.append(len(self.parts))
                if match.group(0) == instr:
                    instr = None
                    chars.pop()
            else:
                match = re.search(b'[\'""]', data[last:])
                if not match:
                    break
                instr = match.group(0)
            self.parts.append(data[last:last + match.end(0)])
            last += match.end(0)
        if last != len(data):
            self.parts.append(data[last:])
        if instr is None:
            break
        idx = None
        for idx in reversed(range(len(self.parts))):
            if self.parts[idx].endswith(instr) and idx not in chars:
                break
        else:
            raise RuntimeError('error while backtracking from unmatched ' + instr)
        self.parts, data = (self.parts[:idx + 1], b''.join(self.parts[idx + 1:]))
        chars = [c for c in chars if c < idx]
        instr = None
    if chars:
        offset = chars[0]
        if offset:
            header, self.parts = (b''.join(self.parts[:offset]), self.parts[offset:])
            self.before = self.before + header
            chars = [c - offset for c in chars]
        offset = chars[-1] + 1
        if offset < len(self.parts):
            self.parts, footer = (self.parts[:offset], b''.join(self.parts[offset:]))
            self.after = footer + self.after
    for i in range(len(chars) - 1):
        char1, char2 = (chars[i], chars[i + 1])
        if char2 - char1 > 2:
            self.parts[char1 + 1:char2] = [b''.join(self.parts[char1 + 1:char2])]
            offset = char2 - char1 - 2
            chars[i + 1:] = [c - offset for c in chars[i + 1:]]
    self.reducible = [False] * len(self.parts)
    for idx in chars:
        self.reducible[idx] = True"%string.
Definition src_testcases_TestcaseSymbol_init : string := "def __init__(self) -> None:
    super().__init__()
    if getattr(self, '_cutter', None) is None:
        self._cutter: Optional[Pattern[bytes]] = None
        self.set_cut_chars(self.DEFAULT_CUT_BEFORE, self.DEFAULT_CUT_AFTER)"%string.
Definition src_testcases_TestcaseSymbol_copy : string := "def copy(self) -> 'TestcaseSymbol':
    new = cast('TestcaseSymbol', super().copy())
    new._cutter = self._cutter
    return new"%string.
Definition src_testcases_TestcaseSymbol_set_cut_chars : string := "def set_cut_chars(self, before: bytes, after: bytes) -> None:
    before = re.escape(before)
    after = re.escape(after)
    ends = [b'$']
    if after:
        ends.insert(0, b'[' + after + b']')
    if before:
        ends.append(b'(?=[' + before + b'])')
    self._cutter = re.compile((b'[' + before + b']?' if before else b'') + (b'[^' + before + after + b']*' if before or after else b'(?s:.)*') + b'(?:' + b'|'.join(ends) + b')')"%string.
Definition src_testcases_TestcaseSymbol_split_parts : string := "def split_parts(self, data: bytes) -> None:
    assert self._cutter is not None
    for statement in self._cutter.finditer(data):
        if statement.group(0):
            self.parts.append(statement.group(0))
            self.reducible.append(True)"%string.
Definition src_testcases_TestcaseAttrs_split_parts : string := "def split_parts(self, data: bytes) -> None:
    in_tag = False
    while data:
        if in_tag:
            match = re.match(self.ATTR_PATTERN, data)
            if match is None:
                match = re.search(self.ATTR_PATTERN, data, flags=re.MULTILINE)
                if match is not None and match.group(0).strip() != b'>':
                    LOG.debug('skipping unrecognized data (%r)', match)
                    self.parts.append(data[:match.start(0)])
                    self.reducible.append(False)
                    data = data[match.start(0):]
                    continue
            if match is None or match.group(0).strip() == b'>':
                in_tag = False
                LOG.debug('no attribute found (%r) in %r..., looking for other tags', match, data[:20])
                if match is not None:
                    self.parts.append(data[:match.end(0)])
                    self.reducible.append(False)
                    data = data[match.end(0):]
                continue
            if not match.group(0).endswith(b'='):
                LOG.debug('value-less attribute')
                self.parts.append(data[:match.end(0) - 1])
                self.reducible.append(True)
                data = data[match.end(0) - 1:]
                continue
            attr_parts = [match.group(0)]
            data = data[match.end(0):]
            if data[0:1] in {b""'"", b'""'}:
                attr_parts.append(data[0:1])
                data = data[1:]
                end_match = re.search(attr_parts[-1], data)
                incl_end = True
            else:
                end_match = re.search(b'(\\s|>)', data)
                incl_end = False
            if end_match is None:
                data = b''.join(attr_parts) + data
                LOG.debug('EOF looking for attr end quote')
                in_tag = False
                continue
            end = end_match.end(0)
            if not incl_end:
                end -= 1
            attr_parts.append(data[:end])
            data = data[end:]
            self.parts.append(b''.join(attr_parts))
            self.reducible.append(True)
            LOG.debug('found attribute: %r', self.parts[-1])
        else:
            match = re.search(self.TAG_PATTERN, data)
            if match is None:
                break
            LOG.debug('entering tag: %s', match.group(0))
            in_tag = True
            self.parts.append(data[:match.end(0)])
            self.reducible.append(False)
            data = data[match.end(0):]
    if data:
        LOG.debug('remaining data: %s', match and match.group(0))
        self.parts.append(data)
        self.reducible.append(False)"%string.
Definition src_reducer_Lithium_main : string := "def main(self, argv: Optional[List[str]]=None) -> int:
    self.process_args(argv)
    try:
        return self.run()
    except LithiumError:
        summary_header()
        LOG.exception('')
        return 1"%string.
Definition src_reducer_Lithium_process_args : string := "def process_args(self, argv: Optional[List[str]]=None) -> None:

    class _ArgParseTry(argparse.ArgumentParser):

        def exit(self, status: int=0, message: Optional[str]=None) -> None:
            pass

        def error(self, message: str) -> None:
            pass
    early_parser = _ArgParseTry(add_help=False, conflict_handler='resolve')
    early_atoms = early_parser.add_mutually_exclusive_group()
    parser = argparse.ArgumentParser(description='Lithium, an automated testcase reduction tool', epilog='See docs/using-for-firefox.md for more information.', usage='%(prog)s [options] condition [condition options] file-to-reduce')
    grp_opt = parser.add_argument_group(description='Lithium options')
    grp_atoms = grp_opt.add_mutually_exclusive_group()
    strategies: Dict[str, Type[Strategy]] = {}
    testcase_types: Dict[str, Type[Testcase]] = {}
    for entry_point in iter_entry_points('lithium_strategies'):
        try:
            strategy_cls = entry_point.load()
            assert strategy_cls.name == entry_point.name, f'entry_point name mismatch, check setup.py and {strategy_cls.__name__}.name'
        except Exception as exc:
            LOG.warning('error loading strategy type %s: %s', entry_point.name, exc)
            continue
        strategies[entry_point.name] = strategy_cls
    assert DEFAULT_STRATEGY in strategies
    for entry_point in iter_entry_points('lithium_testcases'):
        try:
            testcase_cls = entry_point.load()
            assert testcase_cls.args
            assert testcase_cls.arg_help
        except Exception as exc:
            LOG.warning('error loading testcase type %s: %s', entry_point.name, exc)
            continue
        testcase_types[testcase_cls.atom] = testcase_cls
        early_atoms.add_argument(*testcase_cls.args, action='store_const', const=testcase_cls.atom, dest='atom')
        grp_atoms.add_argument(*testcase_cls.args, action='store_const', const=testcase_cls.atom, dest='atom', help=testcase_cls.arg_help)
    assert DEFAULT_TESTCASE in testcase_types
    early_parser.set_defaults(atom=DEFAULT_TESTCASE)
    early_parser.add_argument('extra_args', action='append', nargs=argparse.REMAINDER)
    early_parser.add_argument('--strategy', default=DEFAULT_STRATEGY, choices=strategies.keys())
    early_parser.add_argument('--testcase')
    early_parser.add_argument('--tempdir')
    early_parser.add_argument('-v', '--verbose', action='store_true')
    for strategy_cls in strategies.values():
        strategy_cls().add_args(early_parser)
    for testcase_cls in testcase_types.values():
        testcase_cls.add_arguments(early_parser)
    early_args = early_parser.parse_known_args(argv)
    atom = early_args[0].atom if early_args else DEFAULT_TESTCASE
    self.strategy = strategies.get(early_args[0].strategy if early_args else None, strategies[DEFAULT_STRATEGY])()
    grp_opt.add_argument('--testcase', help='testcase file. default: last argument is used.')
    grp_opt.add_argument('--tempdir', help='specify the directory to use as temporary directory.', type=Path)
    grp_opt.add_argument('-v', '--verbose', action='store_true', help='enable verbose debug logging')
    assert self.strategy is not None
    grp_opt.add_argument('--strategy', default=self.strategy.name, choices=strategies.keys(), help=f'reduction strategy to use. default: {DEFAULT_STRATEGY}')
    self.strategy.add_args(parser)
    testcase_types[atom].add_arguments(parser)
    grp_ext = parser.add_argument_group(description='Condition, condition options and file-to-reduce')
    grp_ext.add_argument('extra_args', action='append', nargs=argparse.REMAINDER, help='condition [condition options] file-to-reduce')
    args = parser.parse_args(argv)
    if args.verbose:
        logging.getLogger().setLevel(logging.DEBUG)
    self.strategy.process_args(parser, args)
    self.temp_dir = args.tempdir
    extra_args = args.extra_args[0]
    if args.testcase:
        testcase_filename = args.testcase
    elif extra_args:
        testcase_filename = extra_args[-1]
    else:
        parser.error('No testcase specified (use --testcase or last condition arg)')
    LOG.info('Testcase type: %s', atom)
    self.testcase = testcase_types[atom]()
    self.testcase.handle_args(args)
    self.testcase.load(testcase_filename)
    self.condition_script = rel_or_abs_import(extra_args[0])
    self.condition_args = extra_args[1:]"%string.
Definition src_utils_rel_or_abs_import : string := "def rel_or_abs_import(module: str) -> ModuleType:
    log = logging.getLogger('lithium')
    orig_arg = module
    path, module = os.path.split(module)
    if not module:
        path, module = os.path.split(path)
    if module.endswith('.py'):
        module = module[:-3]
    search_dir = os.path.realpath(path) if path else os.path.realpath('.')
    sys.path.insert(0, search_dir)
    try:
        return importlib.import_module(module)
    except ImportError:
        if path:
            log.error('Failed to import: %s', orig_arg)
            log.error('From: %s', __file__)
            raise
    finally:
        sys.path.remove(search_dir)
    try:
        return importlib.import_module('.interestingness.' + module, package='lithium')
    except ImportError:
        log.error('Failed to import: .interestingness.%s', module)
        log.error('From: %s', __file__)
        raise"%string.
Definition src_strategies_Minimize_add_args : string := "def add_args(self, parser: argparse.ArgumentParser) -> None:
    super().add_args(parser)
    grp_add = parser.add_argument_group(description=f'Additional options for the {self.name} strategy')
    grp_add.add_argument('--min', type=int, default=1, help='must be a power of two. default: 1')
    grp_add.add_argument('--max', type=int, default=pow(2, 30), help='must be a power of two. default: about half of the file')
    grp_add.add_argument('--repeat', default='last', choices=['always', 'last', 'never'], help='Whether to repeat a chunk size if chunks are removed. default: last')
    grp_add.add_argument('--chunk-size', type=int, default=None, help='Shortcut for repeat=never, min=n, max=n. chunk size must be a power of two.')
    grp_add.add_argument('--repeat-first-round', action='store_true', help='Treat the first round as if it removed chunks; possibly repeat it. [Mostly intended for internal use]')
    grp_add.add_argument('--max-run-time', type=int, default=None, help='If reduction takes more than n seconds, stop (and print instructions for continuing).')"%string.
Definition src_strategies_Minimize_process_args : string := "def process_args(self, parser: argparse.ArgumentParser, args: argparse.Namespace) -> None:
    super().process_args(parser, args)
    if args.chunk_size is not None:
        self.minimize_min = args.chunk_size
        self.minimize_max = args.chunk_size
        self.minimize_repeat = 'never'
    else:
        self.minimize_min = args.min
        self.minimize_max = args.max
        self.minimize_repeat = args.repeat
    self.minimize_repeat_first_round = args.repeat_first_round
    if args.max_run_time is not None:
        self.stop_after_time = args.max_run_time
    if not is_power_of_two(self.minimize_min):
        parser.error('Min must be a power of two.')
    if not is_power_of_two(self.minimize_max):
        parser.error('Max must be a power of two.')"%string.
Definition src_strategies_MinimizeBalancedPairs_add_args : string := "def add_args(self, parser: argparse.ArgumentParser) -> None:
    super().add_args(parser)
    grp_add = parser.add_argument_group(description=f'Additional options for the {self.name} strategy')
    grp_add.add_argument('--with-experimental-move', action='store_true', help='Moving chunks is still a bit experimental, and it can introduce reducing loops. Use at own risk!')"%string.
Definition src_strategies_MinimizeBalancedPairs_process_args : string := "def process_args(self, parser: argparse.ArgumentParser, args: argparse.Namespace) -> None:
    super().process_args(parser, args)
    self.use_experimental_move = args.with_experimental_move"%string.
Definition src_testcases_TestcaseSymbol_add_arguments : string := "@classmethod
def add_arguments(cls, parser: argparse.ArgumentParser) -> None:
    grp_add = parser.add_argument_group(description='Additional options for the symbol-delimiter testcase type.')
    grp_add.add_argument('--cut-before', default=cls.DEFAULT_CUT_BEFORE, help='See --symbol. default: ' + cls.DEFAULT_CUT_BEFORE.decode('ascii'))
    grp_add.add_argument('--cut-after', default=cls.DEFAULT_CUT_AFTER, help='See --symbol. default: ' + cls.DEFAULT_CUT_AFTER.decode('ascii'))"%string.
Definition src_testcases_TestcaseSymbol_handle_args : string := "def handle_args(self, args: argparse.Namespace) -> None:
    before, after = (val.encode('utf-8', errors='surrogateescape') if isinstance(val, str) else val for val in (args.cut_before, args.cut_after))
    self.set_cut_chars(before, after)"%string.
Definition src_timed_run_timed_run : string := "def timed_run(cmd_with_args: List[str], timeout: int, log_prefix: Optional[str]=None, env: Optional[Dict[str, str]]=None, inp: str='', preexec_fn: Optional[Callable[[], None]]=None) -> RunData:
    if len(cmd_with_args) == 0:
        raise ValueError('Command not specified!')
    prog = Path(cmd_with_args[0]).resolve()
    if prog.stem == 'gdb':
        raise OSError('Do not use this with gdb, because kill in timed_run will kill gdb but leave the process within gdb still running')
    status = None
    env = _configure_sanitizers(os.environ.copy() if env is None else env)
    child_stderr: Union[BinaryIO, int] = subprocess.PIPE
    child_stdout: Union[BinaryIO, int] = subprocess.PIPE
    if log_prefix is not None:
        child_stdout = open(f'{log_prefix}-out.txt', 'wb')
        child_stderr = open(f'{log_prefix}-err.txt', 'wb')
    start_time = time.time()
    LOG.info(f""Running: {' '.join(cmd_with_args)}"")
    child = subprocess.Popen(cmd_with_args, env=env, stderr=child_stderr, stdout=child_stdout, preexec_fn=preexec_fn)
    try:
        stdout, stderr = child.communicate(input=inp.encode('utf-8'), timeout=timeout)
    except subprocess.TimeoutExpired:
        child.kill()
        stdout, stderr = child.communicate()
        status = ExitStatus.TIMEOUT
    except Exception as exc:
        LOG.error(exc)
        sys.exit(2)
    finally:
        if isinstance(child_stderr, BinaryIO) and isinstance(child_stdout, BinaryIO):
            child_stdout.close()
            child_stderr.close()
    elapsed_time = time.time() - start_time
    if status == ExitStatus.TIMEOUT:
        message = 'TIMED OUT'
    elif child.returncode == 0:
        message = 'NORMAL'
        status = ExitStatus.NORMAL
    elif child.returncode != ERROR_CODE and 0 < child.returncode < 2147483648:
        message = f'ABNORMAL exit code {child.returncode}'
        status = ExitStatus.ABNORMAL
    else:
        if child.returncode < 0:
            signum = abs(child.returncode)
            message = f'CRASHED with {_get_signal_name(signum)}'
        else:
            message = 'CRASHED'
        status = ExitStatus.CRASH
    return RunData(child.pid, status, child.returncode if status != ExitStatus.TIMEOUT else None, message, elapsed_time, stdout if log_prefix is None else f'{log_prefix}-out.txt', stderr if log_prefix is None else f'{log_prefix}-err.txt')"%string.
Definition src_crashes_interesting : string := "def interesting(cli_args: Optional[List[str]]=None, temp_prefix: Optional[str]=None) -> bool:
    parser = BaseParser()
    args = parser.parse_args(cli_args)
    if not args.cmd_with_flags:
        parser.error('Must specify command to evaluate.')
    run_info = timed_run(args.cmd_with_flags, args.timeout, temp_prefix)
    if run_info.status == ExitStatus.CRASH:
        LOG.info(f'[Interesting] Crash detected ({run_info.elapsed:.3f}s)')
        return True
    LOG.info(f'[Uninteresting] No crash detected ({run_info.elapsed:.3f}s)')
    return False"%string.
Definition src_hangs_interesting : string := "def interesting(cli_args: Optional[List[str]]=None, temp_prefix: Optional[str]=None) -> bool:
    parser = BaseParser()
    args = parser.parse_args(cli_args)
    if not args.cmd_with_flags:
        parser.error('Must specify command to evaluate.')
    run_info = timed_run(args.cmd_with_flags, args.timeout, temp_prefix)
    if run_info.status == ExitStatus.TIMEOUT:
        LOG.info(f'[Interesting] Timeout detected ({args.timeout:.3f}s)')
        return True
    LOG.info(f'[Uninteresting] Program exited ({run_info.elapsed:.3f}s)')
    return False"%string.
Definition src_outputs_interesting : string := "def interesting(cli_args: Optional[List[str]]=None, temp_prefix: Optional[str]=None) -> bool:
    parser = BaseParser()
    parser.add_argument('-s', '--search', help='String to search for.', required=True)
    parser.add_argument('-r', '--regex', action='store_true', default=False, help='Treat string as a regular expression')
    args = parser.parse_args(cli_args)
    if not args.cmd_with_flags:
        parser.error('Must specify command to evaluate.')
    run_info = timed_run(args.cmd_with_flags, args.timeout, temp_prefix)
    if temp_prefix is None:
        outputs = (run_info.out, run_info.err)
        search = args.search.encode('utf-8')
        for data in outputs:
            if args.regex:
                found = re.search(search, data, flags=re.MULTILINE) is not None
            else:
                found = search in data
            if found:
                LOG.info('[Interesting] Match detected!')
                return True
        LOG.info('[Uninteresting] No match detected!')
        return False
    result = any((file_contains(f'{temp_prefix}{suffix}', args.regex, args.search) for suffix in ('-out.txt', '-err.txt')))
    if result:
        LOG.info('[Interesting] Match detected!')
        return True
    LOG.info('[Uninteresting] No match detected!')
    return False"%string.
Definition src_outputs_file_contains : string := "def file_contains(path: Union[Path, str], is_regex: bool, search: str) -> bool:
    if is_regex:
        return utils.file_contains_regex(path, search.encode())[0]
    return utils.file_contains_str(path, search.encode())"%string.
Definition src_utils_file_contains_str : string := "def file_contains_str(input_file: Union[Path, str], regex: bytes, verbose: bool=True) -> bool:
    file_contents = Path(input_file).read_bytes()
    idx = file_contents.find(regex)
    if idx != -1:
        if verbose and regex != b'':
            prev_nl = max(file_contents.rfind(b'\n', 0, idx + 1), 0)
            next_nl = idx + len(regex)
            if not regex.endswith(b'\n'):
                next_nl = max(file_contents.find(b'\n', idx + len(regex)), next_nl)
            match = file_contents[prev_nl:next_nl].decode('utf-8', errors='replace')
            print(f'[Found string in: {match!r}]', end=' ')
        return True
    return False"%string.
Definition src_utils_file_contains_regex : string := "def file_contains_regex(input_file: Union[Path, str], regex: bytes, verbose: bool=True) -> Tuple[bool, bytes]:
    matched_str = b''
    found = False
    file_contents = Path(input_file).read_bytes()
    found_regex = re.search(regex, file_contents, flags=re.MULTILINE)
    if found_regex:
        matched_str = found_regex.group()
        if verbose and matched_str != b'':
            print(""[Found string in: '"" + matched_str.decode('utf-8', errors='replace') + ""']"", end=' ')
        found = True
    return (found, matched_str)"%string.
Definition src_diff_test_interesting : string := "def interesting(cli_args: Optional[List[str]]=None, temp_prefix: Optional[str]=None) -> bool:
    args = parse_args(cli_args)
    binary = args.cmd_with_flags[:1]
    testcase = args.cmd_with_flags[1:]
    command_a = binary + args.a_args.split() + testcase
    log_prefix_a = f'{temp_prefix}-a' if temp_prefix else None
    a_run = timed_run(command_a, args.timeout, log_prefix_a)
    if a_run.status == ExitStatus.TIMEOUT:
        LOG.warning('Command A timed out!')
    command_b = binary + args.b_args.split() + testcase
    log_prefix_b = f'{temp_prefix}-b' if temp_prefix else None
    b_run = timed_run(command_b, args.timeout, log_prefix_b)
    if b_run.status == ExitStatus.TIMEOUT:
        LOG.warning('Command B timed out!')
    a_ret = a_run.return_code
    b_ret = b_run.return_code
    if a_ret != b_ret:
        LOG.info(f'[Interesting] Different return codes: {a_ret} vs {b_ret}')
        return True

    def cmp_out(a_data: Union[str, bytes], b_run: Union[str, bytes], is_file: bool=False) -> bool:
        if is_file:
            return not filecmp.cmp(a_data, b_run, shallow=False)
        return a_data != b_run
    if temp_prefix:
        if cmp_out(a_run.out, b_run.out, True) or cmp_out(a_run.err, b_run.err, True):
            LOG.info('[Interesting] Differences in output detected')
            return True
    elif cmp_out(a_run.out, b_run.out) or cmp_out(a_run.err, b_run.err):
        LOG.info('[Interesting] Differences in output detected')
        return True
    LOG.info('[Uninteresting] No differences detected')
    return False"%string.
Definition src_diff_test_parse_args : string := "def parse_args(argv: Optional[List[str]]=None) -> argparse.Namespace:
    parser = BaseParser(prog='diff_test', usage=""python -m lithium.interestingness.diff -a '--fuzzing-safe' -b='' binary testcase.js"")
    parser.add_argument('-a', dest='a_args', help='Set of extra arguments given to first run.', required=True)
    parser.add_argument('-b', dest='b_args', help='Set of extra arguments given to second run.', required=True)
    args = parser.parse_args(argv)
    if not args.cmd_with_flags:
        parser.error('Must specify command to evaluate.')
    return args"%string.
Definition src_repeat_interesting : string := "def interesting(cli_args: List[str], temp_prefix: str) -> bool:
    parser = argparse.ArgumentParser()
    parser.add_argument('-n', '--REPEATNUM', default='REPEATNUM', dest='repeat_num', help=""Set the cookie that is to be altered in the testcase. Defaults to '%(default)s'."")
    parser.add_argument('cmd_with_flags', nargs=argparse.REMAINDER)
    args = parser.parse_args(cli_args)
    log = logging.getLogger(__name__)
    loop_num = int(args.cmd_with_flags[0])
    assert loop_num > 0, 'Minimum number of iterations should be at least 1'
    condition_script = rel_or_abs_import(args.cmd_with_flags[1])
    condition_args = args.cmd_with_flags[2:]
    if hasattr(condition_script, 'init'):
        cast(Any, condition_script).init(condition_args)
    for i in range(1, loop_num + 1):
        replaced_condition_args = [s.replace(args.repeat_num, str(i)) for s in condition_args]
        log.info('Repeat number %d:', i)
        if cast(Any, condition_script).interesting(replaced_condition_args, temp_prefix):
            return True
    return False"%string.
Definition src_strategies_ReplacePropertiesByGlobals_reduce : string := "@ReductionIterator.wrap
def reduce(self, iterator: ReductionIterator) -> Iterator[Testcase]:
    chunk_size = min(self.minimize_max, 2 * largest_power_of_two_smaller_than(len(iterator.testcase.parts)))
    final_chunk_size = max(self.minimize_min, 1)
    orig_num_chars = 0
    for line in iterator.testcase.parts:
        orig_num_chars += len(line)
    num_chars = orig_num_chars
    while True:
        num_removed_chars = 0
        for maybe_removed, testcase in self.try_making_globals(chunk_size, num_chars, iterator):
            yield testcase
            if iterator.last_feedback:
                num_removed_chars += maybe_removed
        num_chars -= num_removed_chars
        last = chunk_size <= final_chunk_size
        if num_removed_chars and (self.minimize_repeat == 'always' or (self.minimize_repeat == 'last' and last)):
            pass
        elif last:
            break
        else:
            chunk_size >>= 1
    LOG.info('  Initial size: %s', quantity(orig_num_chars, 'character'))
    LOG.info('  Final size: %s', quantity(num_chars, 'character'))
    if final_chunk_size == 1 and self.minimize_repeat != 'never':
        LOG.info('  Removing any single %s from the final file makes it uninteresting!', iterator.testcase.atom)"%string.
Definition src_strategies_ReplacePropertiesByGlobals_try_making_globals : string := "def try_making_globals(self, chunk_size: int, num_chars: int, iterator: ReductionIterator) -> Iterator[Tuple[int, Testcase]]:
    num_removed_chars = 0
    num_chunks = divide_rounding_up(len(iterator.testcase.parts), chunk_size)
    final_chunk_size = max(self.minimize_min, 1)
    words = {}
    for chunk, line in enumerate(iterator.testcase.parts):
        if not iterator.testcase.reducible[chunk]:
            continue
        for match in re.finditer(b'(?<=[\\w\\d_])\\.(\\w+)', line):
            word = match.group(1)
            if word not in words:
                words[word] = [chunk]
            else:
                words[word] += [chunk]
    if not words:
        return
    LOG.info('Starting a round with chunks of %s.', quantity(chunk_size, iterator.testcase.atom))
    summary = 'S' * num_chunks
    for word, chunks in list(words.items()):
        chunk_indexes = {}
        for chunk_start in chunks:
            chunk_idx = chunk_start // chunk_size
            if chunk_idx not in chunk_indexes:
                chunk_indexes[chunk_idx] = [chunk_start]
            else:
                chunk_indexes[chunk_idx] += [chunk_start]
        for chunk_idx, chunk_starts in chunk_indexes.items():
            if len(chunk_starts) == 1 and final_chunk_size != chunk_size:
                continue
            description = f""'{word.decode('utf-8', 'replace')}' in chunk #{chunk_idx} of {num_chunks} chunks of size {chunk_size}""
            maybe_removed = 0
            new_tc = iterator.testcase.copy()
            for chunk_start in chunk_starts:
                subst = re.sub(b'[\\w_.]+\\.' + word, word, new_tc.parts[chunk_start])
                maybe_removed += len(new_tc.parts[chunk_start]) - len(subst)
                new_tc.parts = new_tc.parts[:chunk_start] + [subst] + new_tc.parts[chunk_start + 1:]
                new_tc.reducible = new_tc.reducible[:chunk_start] + [True] + new_tc.reducible[chunk_start + 1:]
            for test in iterator.try_testcase(new_tc, 'Removing prefixes of ' + description):
                yield (maybe_removed, test)
                if iterator.last_feedback:
                    num_removed_chars += maybe_removed
                    summary = summary[:chunk_idx] + 's' + summary[chunk_idx + 1:]
                    words[word] = [c for c in chunks if c not in chunk_indexes]
                    if not words[word]:
                        del words[word]
    num_surviving_chars = num_chars - num_removed_chars
    printable_summary = ' '.join((summary[2 * i:min(2 * (i + 1), num_chunks + 1)] for i in range(num_chunks // 2 + num_chunks % 2)))
    LOG.info('')
    LOG.info('Done with a round of chunk size %d!', chunk_size)
    LOG.info('%s survived; %s shortened.', quantity(summary.count('S'), 'chunk'), quantity(summary.count('s'), 'chunk'))
    LOG.info('%s survived; %s removed.', quantity(num_surviving_chars, 'character'), quantity(num_removed_chars, 'character'))
    LOG.info('Which chunks survived: %s', printable_summary)
    LOG.info('')"%string.
Definition src_strategies_ReplaceArgumentsByGlobals_reduce : string := "@ReductionIterator.wrap
def reduce(self, iterator: ReductionIterator) -> Iterator[Testcase]:
    while True:
        num_removed_arguments = 0
        for maybe_removed, testcase in self.try_arguments_as_globals(iterator):
            yield testcase
            if iterator.last_feedback:
                num_removed_arguments += maybe_removed
        if num_removed_arguments and self.minimize_repeat in {'always', 'last'}:
            pass
        else:
            break"%string.
Definition src_strategies_ReplaceArgumentsByGlobals_try_arguments_as_globals : string := "@staticmethod
def try_arguments_as_globals(iterator: ReductionIterator) -> Iterator[Tuple[int, Testcase]]:
    num_moved_arguments = 0
    num_survived_arguments = 0
    functions: Dict[bytes, Dict[str, Any]] = {}
    anonymous_queue: List[Dict[str, Any]] = []
    anonymous_stack: List[Dict[str, Any]] = []
    args: List[bytes]
    for chunk, line in enumerate(iterator.testcase.parts):
        if not iterator.testcase.reducible[chunk]:
            continue
        for match in re.finditer(b'(?:function\\s+(\\w+)|(\\w+)\\s*=\\s*function)\\s*\\((\\s*\\w+\\s*(?:,\\s*\\w+\\s*)*)\\)', line):
            fun = match.group(1)
            if fun is None:
                fun = match.group(2)
            if match.group(3) == b'':
                args = []
            else:
                args = match.group(3).split(b',')
            if fun not in functions:
                functions[fun] = {'defs': args, 'args_pattern': match.group(3), 'chunk': chunk, 'uses': []}
            else:
                functions[fun]['defs'] = args
                functions[fun]['args_pattern'] = match.group(3)
                functions[fun]['chunk'] = chunk
        for match in re.finditer(b'\\(function\\s*\\w*\\s*\\(((?:\\s*\\w+\\s*(?:,\\s*\\w+\\s*)*)?)\\)\\s*{', line):
            if match.group(1) == b'':
                args = []
            else:
                args = match.group(1).split(b',')
            anonymous_stack += [{'defs': args, 'chunk': chunk, 'use': None, 'use_chunk': 0}]
        for match in re.finditer(b'}\\s*\\)\\s*\\(((?:[^()]|\\([^,()]*\\))*)\\)', line):
            if not anonymous_stack:
                continue
            anon = anonymous_stack[-1]
            anonymous_stack = anonymous_stack[:-1]
            if match.group(1) == b'' and (not anon['defs']):
                continue
            if match.group(1) == b'':
                args = []
            else:
                args = match.group(1).split(b',')
            anon['use'] = args
            anon['use_chunk'] = chunk
            anonymous_queue += [anon]
        for match in re.finditer(b'((\\w+)\\s*\\(((?:[^()]|\\([^,()]*\\))*)\\))', line):
            pattern = match.group(1)
            fun = match.group(2)
            if match.group(3) == b'':
                args = []
            else:
                args = match.group(3).split(b',')
            if fun not in functions:
                functions[fun] = {'uses': []}
            functions[fun]['uses'] += [{'values': args, 'chunk': chunk, 'pattern': pattern}]
    if not functions and (not anonymous_queue):
        return
    LOG.info('Starting removing function arguments.')
    for fun, args_map in functions.items():
        description = ""arguments of '"" + fun.decode('utf-8', 'replace') + ""'""
        if 'defs' not in args_map or not args_map['uses']:
            LOG.info(""Ignoring %s because it is 'uninteresting'."", description)
            continue
        maybe_moved_arguments = 0
        new_tc = iterator.testcase.copy()
        arg_defs = args_map['defs']
        def_chunk = args_map['chunk']
        subst = new_tc.parts[def_chunk].replace(args_map['args_pattern'], b'', 1)
        new_tc.parts = new_tc.parts[:def_chunk] + [subst] + new_tc.parts[def_chunk + 1:]
        new_tc.reducible = new_tc.reducible[:def_chunk] + [True] + new_tc.reducible[def_chunk + 1:]
        for arg_use in args_map['uses']:
            values = arg_use['values']
            chunk = arg_use['chunk']
            if chunk == def_chunk and values == arg_defs:
                continue
            while len(values) < len(arg_defs):
                values = values + [b'undefined']
            setters = b''.join((a + b' = ' + v + b';\n' for a, v in zip(arg_defs, values)))
            subst = setters + new_tc.parts[chunk]
            new_tc.parts = new_tc.parts[:chunk] + [subst] + new_tc.parts[chunk + 1:]
            new_tc.reducible = new_tc.reducible[:chunk] + [True] + new_tc.reducible[chunk + 1:]
        maybe_moved_arguments += len(arg_defs)
        for test in iterator.try_testcase(new_tc, 'Removing ' + description):
            yield (maybe_moved_arguments, test)
            if iterator.last_feedback:
                num_moved_arguments += maybe_moved_arguments
                break
        else:
            num_survived_arguments += maybe_moved_arguments
        for arg_use in args_map['uses']:
            chunk = arg_use['chunk']
            values = arg_use['values']
            if chunk == def_chunk and values == arg_defs:
                continue
            new_tc = iterator.testcase.copy()
            subst = new_tc.parts[chunk].replace(arg_use['pattern'], fun + b'()', 1)
            if new_tc.parts[chunk] == subst:
                continue
            new_tc.parts = new_tc.parts[:chunk] + [subst] + new_tc.parts[chunk + 1:]
            new_tc.reducible = new_tc.reducible[:chunk] + [True] + new_tc.reducible[chunk + 1:]
            maybe_moved_arguments = len(values)
            for test in iterator.try_testcase(new_tc, f'Removing {description} at {iterator.testcase.atom} #{chunk}'):
                yield (maybe_moved_arguments, test)
                if iterator.last_feedback:
                    num_moved_arguments += maybe_moved_arguments
                    break
            else:
                num_survived_arguments += maybe_moved_arguments
    for anon in anonymous_queue:
        noop_changes = 0
        maybe_moved_arguments = 0
        new_tc = iterator.testcase.copy()
        arg_defs = anon['defs']
        def_chunk = anon['chunk']
        values = anon['use']
        chunk = anon['use_chunk']
        description = f'arguments of anonymous function at #{iterator.testcase.atom} {def_chunk}'
        subst = new_tc.parts[def_chunk].replace(b','.join(arg_defs), b'', 1)
        if new_tc.parts[def_chunk] == subst:
            noop_changes += 1
        new_tc.parts = new_tc.parts[:def_chunk] + [subst] + new_tc.parts[def_chunk + 1:]
        new_tc.reducible = new_tc.reducible[:def_chunk] + [True] + new_tc.reducible[def_chunk + 1:]
        while len(values) < len(arg_defs):
            values = values + [b'undefined']
        setters = b''.join((b'var %s = %s;\n' % (a, v) for a, v in zip(arg_defs, values)))
        subst = new_tc.parts[def_chunk] + b'\n' + setters
        if new_tc.parts[def_chunk] == subst:
            noop_changes += 1
        new_tc.parts = new_tc.parts[:def_chunk] + [subst] + new_tc.parts[def_chunk + 1:]
        new_tc.reducible = new_tc.reducible[:def_chunk] + [True] + new_tc.reducible[def_chunk + 1:]
        subst = new_tc.parts[chunk].replace(b','.join(anon['use']), b'', 1)
        if new_tc.parts[chunk] == subst:
            noop_changes += 1
        new_tc.parts = new_tc.parts[:chunk] + [subst] + new_tc.parts[chunk + 1:]
        new_tc.reducible = new_tc.reducible[:chunk] + [True] + new_tc.reducible[chunk + 1:]
        maybe_moved_arguments += len(values)
        if noop_changes == 3:
            continue
        for test in iterator.try_testcase(new_tc, 'Removing ' + description):
            yield (maybe_moved_arguments, test)
            if iterator.last_feedback:
                num_moved_arguments += maybe_moved_arguments
                break
        else:
            num_survived_arguments += maybe_moved_arguments
    LOG.info('')
    LOG.info('Done with this round!')
    LOG.info('%s moved;', quantity(num_moved_arguments, 'argument'))
    LOG.info('%s survived.', quantity(num_survived_arguments, 'argument'))"%string.
End PinsSrc.
