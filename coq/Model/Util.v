(* Hand-written model of lithium/util.py (integer helpers).  Definitions only. *)
From Coq Require Import ZArith NArith List Bool.
From Lithium Require Import PyBase.
Import ListNotations.
Open Scope Z_scope.

Definition divide_rounding_up (numerator denominator : Z) : res Z :=
  v1 <- py_divmod numerator denominator ;;
  let '(quotient, remainder) := v1 in
  Ok (quotient + (if truthy_Z remainder then 1 else 0)).

Definition is_power_of_two (inp : Z) : bool :=
  py_shl 1 (Z.max (bit_length inp - 1) 0) =? inp.

Definition largest_power_of_two_smaller_than (inp : Z) : Z :=
  let result := py_shl 1 (Z.max (bit_length inp - 1) 0) in
  if (result =? inp) && (inp >? 1) then py_shr result 1 else result.
