(* Independent specifications used by the property theorems (no reference to the
   index-juggling of the implementation). Definitions only. *)
From Coq Require Import ZArith NArith List Bool.
From Lithium Require Import PyBase TcRecord.
Import ListNotations.
Open Scope Z_scope.

Definition zipped (t : tcase) : list (bytes * bool) := combine (tc_parts t) (tc_red t).

(* "delete the reducible atoms whose rank (0-based, counting reducible atoms only) lies in
   [lo,hi)"; r is the rank of the next reducible atom *)
Fixpoint spec_rm (lo hi r : Z) (l : list (bytes * bool)) : list (bytes * bool) :=
  match l with
  | [] => []
  | (p, true) :: l' =>
      if (lo <=? r) && (r <? hi) then spec_rm lo hi (r + 1) l'
      else (p, true) :: spec_rm lo hi (r + 1) l'
  | (p, false) :: l' => (p, false) :: spec_rm lo hi r l'
  end.

(* Python's rule for one slice bound against a sequence of length n *)
Definition py_clamp (n x : Z) : Z := if x <? 0 then Z.max (n + x) 0 else Z.min x n.

(* l' is l with zero or more REDUCIBLE atoms deleted and nothing else changed *)
Inductive subred : list (bytes * bool) -> list (bytes * bool) -> Prop :=
| sr_nil : subred [] []
| sr_keep : forall x l l', subred l l' -> subred (x :: l) (x :: l')
| sr_drop : forall p l l', subred l l' -> subred ((p, true) :: l) l'.

Definition sub_reducible (t t' : tcase) : Prop :=
  tc_before t' = tc_before t /\ tc_after t' = tc_after t /\ wf t' /\
  subred (zipped t) (zipped t').

(* number of reducible atoms, independently of tc_len *)
Definition n_reducible (l : list (bytes * bool)) : Z := zlen (filter snd l).
