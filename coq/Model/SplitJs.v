(* Model of testcases.TestcaseJsStr.split_parts.  The two regular expressions are rendered as
   direct scanners (tok_len for the token pattern, find_quote for the quote class); the pattern texts
   they were written from are pinned against the source in Gen/GenTables.v (GenEq/GenEqTables.v).
   Definitions only. *)
From Coq Require Import ZArith NArith List Bool Arith.
From Lithium Require Import PyBase TcRecord Markers.
Import ListNotations.
Local Open Scope N_scope.

Definition is_hex (b : N) : bool :=
  ((48 <=? b) && (b <=? 57)) || ((65 <=? b) && (b <=? 70)) || ((97 <=? b) && (b <=? 102)).

Fixpoint hexrun (l : bytes) : nat :=
  match l with b :: r => if is_hex b then S (hexrun r) else O | [] => O end.

Fixpoint hex_prefix (n : nat) (l : bytes) : bool :=
  match n with
  | O => true
  | S n' => match l with b :: r => is_hex b && hex_prefix n' r | [] => false end
  end.

(* \u{H+} after the "\u": "{" hex+ "}" *)
Definition braced (l : bytes) : option nat :=
  match l with
  | c :: r => if c =? 123 then
                let k := hexrun r in
                match k with
                | O => None
                | _ => match nth_error r k with
                       | Some e => if e =? 125 then Some (k + 2)%nat else None
                       | None => None
                       end
                end
              else None
  | [] => None
  end.

(* length of the match of
     (\\u[0-9A-Fa-f]{4}|\\x[0-9A-Fa-f]{2}|\\u\{[0-9A-Fa-f]+\}|\\.|.)   with re.DOTALL
   at the head of d (0 iff d is empty) *)
Definition tok_len (d : bytes) : nat :=
  match d with
  | [] => O
  | b0 :: r0 =>
      if b0 =? 92 then
        match r0 with
        | [] => 1%nat
        | b1 :: r1 =>
            if (b1 =? 117) && hex_prefix 4 r1 then 6%nat
            else if (b1 =? 120) && hex_prefix 2 r1 then 4%nat
            else if b1 =? 117 then
                   match braced r1 with Some n => (2 + n)%nat | None => 2%nat end
            else 2%nat
        end
      else 1%nat
  end.

Definition is_quote (b : N) : bool := (b =? 39) || (b =? 34).

(* re.search of the quote class in d: index of the first single or double quote *)
Fixpoint find_quote (d : bytes) : option nat :=
  match d with
  | [] => None
  | b :: r => if is_quote b then Some O else option_map S (find_quote r)
  end.

Fixpoint mem_nat (x : nat) (l : list nat) : bool :=
  match l with [] => false | y :: r => Nat.eqb x y || mem_nat x r end.

(* the inner `while True:` loop.  parts and chars are kept in order; returns the final
   (instr, parts, chars, unconsumed rest) *)
Fixpoint js_inner (fuel : nat) (instr : option N) (parts : list bytes) (chars : list nat)
         (d : bytes) : option N * list bytes * list nat * bytes :=
  match fuel with
  | O => (instr, parts, chars, d)
  | S f =>
      match instr with
      | Some q =>
          match d with
          | [] => (instr, parts, chars, d)
          | _ =>
              let n := tok_len d in
              let tok := firstn n d in
              if bytes_eqb tok [q]
              then js_inner f None (parts ++ [tok]) chars (skipn n d)
              else js_inner f instr (parts ++ [tok]) (chars ++ [length parts]) (skipn n d)
          end
      | None =>
          match find_quote d with
          | None => (instr, parts, chars, d)
          | Some i =>
              js_inner f (Some (nth i d 0)) (parts ++ [firstn (S i) d]) chars (skipn (S i) d)
          end
      end
  end.

Fixpoint ends_with_byte (q : N) (p : bytes) : bool :=
  match p with [] => false | [x] => x =? q | _ :: r => ends_with_byte q r end.

(* for idx in reversed(range(len(parts))): if parts[idx].endswith(instr) and idx not in chars *)
Fixpoint find_rewind (q : N) (chars : list nat) (rparts : list bytes) (idx : nat) : option nat :=
  match rparts with
  | [] => None
  | p :: r =>
      if ends_with_byte q p && negb (mem_nat idx chars) then Some idx
      else match idx with O => None | S i => find_rewind q chars r i end
  end.

(* the outer `while True:` loop *)
Fixpoint js_outer (fuel : nat) (parts : list bytes) (chars : list nat) (d : bytes)
  : res (list bytes * list nat) :=
  match fuel with
  | O => Err OutOfFuel
  | S f =>
      let '(instr, parts1, chars1, rest) := js_inner (S (length d)) None parts chars d in
      let parts2 := match rest with [] => parts1 | _ => parts1 ++ [rest] end in
      match instr with
      | None => Ok (parts2, chars1)
      | Some q =>
          match find_rewind q chars1 (rev parts2) (pred (length parts2)) with
          | None => Err RuntimeError
          | Some idx =>
              js_outer f (firstn (S idx) parts2)
                       (filter (fun c => Nat.ltb c idx) chars1)
                       (concat (skipn (S idx) parts2))
          end
      end
  end.

(* the gap-merging loop `for i in range(len(chars) - 1)` *)
Fixpoint js_gaps (fuel : nat) (i : nat) (parts : list bytes) (chars : list nat)
  : list bytes * list nat :=
  match fuel with
  | O => (parts, chars)
  | S f =>
      if Nat.ltb (S i) (length chars) then
        let c1 := nth i chars O in
        let c2 := nth (S i) chars O in
        if Nat.ltb 2 (c2 - c1) then
          let parts' := firstn (S c1) parts
                        ++ [concat (firstn (c2 - c1 - 1) (skipn (S c1) parts))]
                        ++ skipn c2 parts in
          let off := (c2 - c1 - 2)%nat in
          let chars' := firstn (S i) chars ++ map (fun c => (c - off)%nat) (skipn (S i) chars) in
          js_gaps f (S i) parts' chars'
        else js_gaps f (S i) parts chars
      else (parts, chars)
  end.

Definition split_jsstr : splitter := fun d =>
  v <- js_outer (S (length d)) [] [] d ;;
  let '(parts, chars) := v in
  (* header / footer go to before / after *)
  let '(before, parts, chars) :=
    match chars with
    | [] => ([], parts, chars)
    | c0 :: _ =>
        match c0 with
        | O => ([], parts, chars)
        | _ => (concat (firstn c0 parts), skipn c0 parts, map (fun c => (c - c0)%nat) chars)
        end
    end in
  let '(parts, after) :=
    match chars with
    | [] => (parts, [])
    | _ => let off := S (last chars O) in
           if Nat.ltb off (length parts)
           then (firstn off parts, concat (skipn off parts))
           else (parts, [])
    end in
  let '(parts, chars) := js_gaps (length chars) O parts chars in
  Ok {| sp_before := before; sp_parts := parts;
        sp_red := map (fun i => mem_nat i chars) (seq 0 (length parts));
        sp_after := after |}.

Definition load_jsstr (d : bytes) : res tcase := load split_jsstr d.
