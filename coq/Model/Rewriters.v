(* Abstract model of the OUTER loops of the two rewriting strategies
     ReplacePropertiesByGlobals.reduce  (strategies.py: chunk sizes, repeat while characters were removed)
     ReplaceArgumentsByGlobals.reduce   (repeat while arguments were removed)
   over an abstract pass (try_making_globals / try_arguments_as_globals are ~330 lines of
   regex-with-groups rewriting and are NOT modelled): a pass is a resumption that yields candidates
   together with their `maybe_removed` weight.  Definitions only. *)
From Coq Require Import ZArith NArith List Bool.
From Lithium Require Import PyBase TcRecord Util Testcase Driver Minimize.
Import ListNotations.
Open Scope Z_scope.

Section Rewriters.
  Variable PS : Type.
  (* start of a pass for a chunk size and the current best *)
  Variable pass_start : Z -> tcase -> PS.
  (* next candidate of the pass: (maybe_removed, candidate, continuation) or None when exhausted *)
  Variable pass_next : PS -> tcase -> option (Z * tcase * (outcome -> PS)).

  Record rstate := {
    r_chunk : Z;           (* chunk_size (unused by replace-arguments) *)
    r_final : Z;           (* final_chunk_size *)
    r_removed : Z;         (* num_removed_chars / num_removed_arguments of the current pass *)
    r_pass : option PS     (* None = about to start a pass *)
  }.

  Definition rep_ok (cfg : mcfg) (last : bool) : bool :=
    match c_repeat cfg with Always => true | Last => last | Never => false end.

  (* ---- replace-properties-by-globals ---- *)
  Definition props_start (cfg : mcfg) (tc : tcase) : rstate :=
    {| r_chunk := Z.min (c_max cfg) (2 * largest_power_of_two_smaller_than (zlen (tc_parts tc)));
       r_final := Z.max (c_min cfg) 1; r_removed := 0; r_pass := None |}.

  Fixpoint props_drive (fuel : nat) (cfg : mcfg) (s : rstate) (best : tcase) : step rstate :=
    match fuel with
    | O => Fail OutOfFuel
    | S f =>
        match r_pass s with
        | None =>
            props_drive f cfg {| r_chunk := r_chunk s; r_final := r_final s; r_removed := 0;
                                 r_pass := Some (pass_start (r_chunk s) best) |} best
        | Some ps =>
            match pass_next ps best with
            | Some (maybe, t, k) =>
                Propose t (fun o =>
                  {| r_chunk := r_chunk s; r_final := r_final s;
                     r_removed := match o with Tested true => r_removed s + maybe | _ => r_removed s end;
                     r_pass := Some (k o) |})
            | None =>
                let last := r_chunk s <=? r_final s in
                if truthy_Z (r_removed s) && rep_ok cfg last then
                  props_drive f cfg {| r_chunk := r_chunk s; r_final := r_final s; r_removed := 0;
                                       r_pass := None |} best
                else if last then Done
                else props_drive f cfg {| r_chunk := py_shr (r_chunk s) 1; r_final := r_final s;
                                          r_removed := 0; r_pass := None |} best
            end
        end
    end.

  Definition props_fuel (s : rstate) : nat := (2 * S (Z.to_nat (Z.log2 (Z.max 1 (r_chunk s)))) + 4)%nat.

  Definition replace_properties (cfg : mcfg) : strategy rstate :=
    {| s_start := props_start cfg;
       s_next := fun s best => props_drive (props_fuel s) cfg s best |}.

  (* ---- replace-arguments-by-globals ---- *)
  Definition args_start (tc : tcase) : rstate :=
    {| r_chunk := 1; r_final := 1; r_removed := 0; r_pass := None |}.

  Definition args_next (cfg : mcfg) (s : rstate) (best : tcase) : step rstate :=
    let s1 := match r_pass s with
              | Some _ => s
              | None => {| r_chunk := 1; r_final := 1; r_removed := 0; r_pass := Some (pass_start 1 best) |}
              end in
    match r_pass s1 with
    | None => Done
    | Some ps =>
        match pass_next ps best with
        | Some (maybe, t, k) =>
            Propose t (fun o =>
              {| r_chunk := 1; r_final := 1;
                 r_removed := match o with Tested true => r_removed s1 + maybe | _ => r_removed s1 end;
                 r_pass := Some (k o) |})
        | None =>
            if truthy_Z (r_removed s1) && rep_ok cfg true then
              (* `pass`: go round again *)
              let ps' := pass_start 1 best in
              match pass_next ps' best with
              | Some (maybe, t, k) =>
                  Propose t (fun o =>
                    {| r_chunk := 1; r_final := 1;
                       r_removed := match o with Tested true => maybe | _ => 0 end;
                       r_pass := Some (k o) |})
              | None => Done     (* an empty pass removes nothing: the loop ends *)
              end
            else Done
        end
    end.

  Definition replace_arguments (cfg : mcfg) : strategy rstate :=
    {| s_start := args_start; s_next := args_next cfg |}.

  (* interface facts about a pass, to be MONITORED on the implementation (they are not proved of it) *)
  (* (a) a pass yields at most K candidates whatever the feedback *)
  Inductive pass_le : nat -> PS -> Prop :=
  | pl_done : forall K ps, (forall best, pass_next ps best = None) -> pass_le K ps
  | pl_step : forall K ps,
      (forall best maybe t k, pass_next ps best = Some (maybe, t, k) -> forall o, pass_le K (k o)) ->
      pass_le (S K) ps.

  (* (b) an accepted candidate removes at least one byte per unit of `maybe_removed`, and at least one *)
  Definition chars (t : tcase) : Z := zlen (concat (tc_parts t)).
  Definition shrinking : Prop :=
    forall ps best maybe t k, pass_next ps best = Some (maybe, t, k) ->
      1 <= maybe /\ chars t + maybe <= chars best.
End Rewriters.
