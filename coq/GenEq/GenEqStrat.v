(* Tie T (tables): the constants / pattern texts / option tables regenerated from the source
   equal the pinned ones the hand-written models were made from. *)
From Coq Require Import ZArith NArith List Bool String.
From Lithium Require Import GenTables Pins.

Lemma pin_minimize_options : GenTables.minimize_options = Pins.minimize_options.
Proof. reflexivity. Qed.
Lemma pin_minimize_process_args : GenTables.minimize_process_args = Pins.minimize_process_args.
Proof. reflexivity. Qed.
Lemma pin_minimize_repeat_tests : GenTables.minimize_repeat_tests = Pins.minimize_repeat_tests.
Proof. reflexivity. Qed.
Lemma pin_collapse_re_calls : GenTables.collapse_re_calls = Pins.collapse_re_calls.
Proof. reflexivity. Qed.
Lemma pin_collapse_literals : GenTables.collapse_literals = Pins.collapse_literals.
Proof. reflexivity. Qed.
Lemma pin_strategy_methods : GenTables.strategy_methods = Pins.strategy_methods.
Proof. reflexivity. Qed.
