(* Tie T (source pins, group Run): the modelled functions are textually (modulo comments, layout,
   docstrings) the ones the hand-written model was made from. *)
From Coq Require Import String.
From Lithium Require Import GenSrc PinsSrc.

Lemma pin_src_timed_run_timed_run : GenSrc.src_timed_run_timed_run = PinsSrc.src_timed_run_timed_run.
Proof. reflexivity. Qed.
Lemma pin_src_crashes_interesting : GenSrc.src_crashes_interesting = PinsSrc.src_crashes_interesting.
Proof. reflexivity. Qed.
Lemma pin_src_hangs_interesting : GenSrc.src_hangs_interesting = PinsSrc.src_hangs_interesting.
Proof. reflexivity. Qed.
