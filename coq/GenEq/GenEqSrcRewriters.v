(* Tie T (source pins, group Rewriters): the rewriting strategies have no Coq model; the driver theorems cover them as
   'any strategy', under the assumption that they talk to the driver only through try_testcase / feedback and never
   modify a testcase after proposing it. Their text is pinned so that an edit is at least reported. *)
From Coq Require Import String.
From Lithium Require Import GenSrc PinsSrc.

Lemma pin_src_strategies_ReplacePropertiesByGlobals_reduce : GenSrc.src_strategies_ReplacePropertiesByGlobals_reduce = PinsSrc.src_strategies_ReplacePropertiesByGlobals_reduce.
Proof. reflexivity. Qed.
Lemma pin_src_strategies_ReplacePropertiesByGlobals_try_making_globals : GenSrc.src_strategies_ReplacePropertiesByGlobals_try_making_globals = PinsSrc.src_strategies_ReplacePropertiesByGlobals_try_making_globals.
Proof. reflexivity. Qed.
Lemma pin_src_strategies_ReplaceArgumentsByGlobals_reduce : GenSrc.src_strategies_ReplaceArgumentsByGlobals_reduce = PinsSrc.src_strategies_ReplaceArgumentsByGlobals_reduce.
Proof. reflexivity. Qed.
Lemma pin_src_strategies_ReplaceArgumentsByGlobals_try_arguments_as_globals : GenSrc.src_strategies_ReplaceArgumentsByGlobals_try_arguments_as_globals = PinsSrc.src_strategies_ReplaceArgumentsByGlobals_try_arguments_as_globals.
Proof. reflexivity. Qed.
