(* Tie T: the status chain regenerated from timed_run.py / crashes.py / hangs.py equals the model. *)
From Coq Require Import ZArith List Bool String.
From Lithium Require Import StatusTypes GenStatus Status.
Open Scope Z_scope.

Lemma gen_error_code : GenStatus.ERROR_CODE = ERROR_CODE.
Proof. reflexivity. Qed.

Lemma gen_classify : forall t rc, GenStatus.classify t rc = classify t rc.
Proof.
  intros t rc. unfold GenStatus.classify, classify, ERROR_CODE.
  destruct t; [reflexivity|]. destruct (rc =? 0); [reflexivity|].
  destruct (rc =? 77), (0 <? rc), (rc <? 2147483648); reflexivity.
Qed.

Lemma gen_reported_code : forall st rc, GenStatus.reported_code st rc = reported_code st rc.
Proof. reflexivity. Qed.

Lemma gen_crashes : forall st, crashes_verdict st = status_eqb st GenStatus.crashes_interesting_on.
Proof. reflexivity. Qed.

Lemma gen_hangs : forall st, hangs_verdict st = status_eqb st GenStatus.hangs_interesting_on.
Proof. reflexivity. Qed.

(* the TimeoutExpired handler kills, reaps (second communicate) and only then reports TIMEOUT *)
Lemma gen_timeout_handler :
  GenStatus.timeout_handler =
  "child.kill() ; stdout, stderr = child.communicate() ; status = ExitStatus.TIMEOUT"%string.
Proof. reflexivity. Qed.
