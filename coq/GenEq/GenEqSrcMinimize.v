(* Tie T (source pins, group Minimize): the modelled functions are textually (modulo comments, layout,
   docstrings) the ones the hand-written model was made from. *)
From Coq Require Import String.
From Lithium Require Import GenSrc PinsSrc.

Lemma pin_src_strategies_Minimize_init : GenSrc.src_strategies_Minimize_init = PinsSrc.src_strategies_Minimize_init.
Proof. reflexivity. Qed.
Lemma pin_src_strategies_Minimize_reduce : GenSrc.src_strategies_Minimize_reduce = PinsSrc.src_strategies_Minimize_reduce.
Proof. reflexivity. Qed.
Lemma pin_src_strategies_Minimize_post_round_cb : GenSrc.src_strategies_Minimize_post_round_cb = PinsSrc.src_strategies_Minimize_post_round_cb.
Proof. reflexivity. Qed.
