(* Tie T (tables): the constants / pattern texts / option tables regenerated from the source
   equal the pinned ones the hand-written models were made from. *)
From Coq Require Import ZArith NArith List Bool String.
From Lithium Require Import GenTables Pins.

Lemma pin_create_temp_dir_catches : GenTables.create_temp_dir_catches = Pins.create_temp_dir_catches.
Proof. reflexivity. Qed.
Lemma pin_create_temp_dir_body : GenTables.create_temp_dir_body = Pins.create_temp_dir_body.
Proof. reflexivity. Qed.
