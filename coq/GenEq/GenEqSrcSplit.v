(* Tie T (source pins, group Split): the modelled functions are textually (modulo comments, layout,
   docstrings) the ones the hand-written model was made from. *)
From Coq Require Import String.
From Lithium Require Import GenSrc PinsSrc.

Lemma pin_src_testcases_Testcase_init : GenSrc.src_testcases_Testcase_init = PinsSrc.src_testcases_Testcase_init.
Proof. reflexivity. Qed.
Lemma pin_src_testcases_Testcase_load : GenSrc.src_testcases_Testcase_load = PinsSrc.src_testcases_Testcase_load.
Proof. reflexivity. Qed.
Lemma pin_src_testcases_TestcaseLine_split_parts : GenSrc.src_testcases_TestcaseLine_split_parts = PinsSrc.src_testcases_TestcaseLine_split_parts.
Proof. reflexivity. Qed.
Lemma pin_src_testcases_TestcaseChar_load : GenSrc.src_testcases_TestcaseChar_load = PinsSrc.src_testcases_TestcaseChar_load.
Proof. reflexivity. Qed.
Lemma pin_src_testcases_TestcaseChar_split_parts : GenSrc.src_testcases_TestcaseChar_split_parts = PinsSrc.src_testcases_TestcaseChar_split_parts.
Proof. reflexivity. Qed.
Lemma pin_src_testcases_TestcaseJsStr_split_parts : GenSrc.src_testcases_TestcaseJsStr_split_parts = PinsSrc.src_testcases_TestcaseJsStr_split_parts.
Proof. reflexivity. Qed.
Lemma pin_src_testcases_TestcaseSymbol_init : GenSrc.src_testcases_TestcaseSymbol_init = PinsSrc.src_testcases_TestcaseSymbol_init.
Proof. reflexivity. Qed.
Lemma pin_src_testcases_TestcaseSymbol_copy : GenSrc.src_testcases_TestcaseSymbol_copy = PinsSrc.src_testcases_TestcaseSymbol_copy.
Proof. reflexivity. Qed.
Lemma pin_src_testcases_TestcaseSymbol_set_cut_chars : GenSrc.src_testcases_TestcaseSymbol_set_cut_chars = PinsSrc.src_testcases_TestcaseSymbol_set_cut_chars.
Proof. reflexivity. Qed.
Lemma pin_src_testcases_TestcaseSymbol_split_parts : GenSrc.src_testcases_TestcaseSymbol_split_parts = PinsSrc.src_testcases_TestcaseSymbol_split_parts.
Proof. reflexivity. Qed.
Lemma pin_src_testcases_TestcaseAttrs_split_parts : GenSrc.src_testcases_TestcaseAttrs_split_parts = PinsSrc.src_testcases_TestcaseAttrs_split_parts.
Proof. reflexivity. Qed.
