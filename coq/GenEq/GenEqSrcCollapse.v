(* Tie T (source pins, group Collapse): the modelled functions are textually (modulo comments, layout,
   docstrings) the ones the hand-written model was made from. *)
From Coq Require Import String.
From Lithium Require Import GenSrc PinsSrc.

Lemma pin_src_strategies_CollapseEmptyBraces_post_round_cb : GenSrc.src_strategies_CollapseEmptyBraces_post_round_cb = PinsSrc.src_strategies_CollapseEmptyBraces_post_round_cb.
Proof. reflexivity. Qed.
