(* Tie T (source pins, group Pairs): the modelled functions are textually (modulo comments, layout,
   docstrings) the ones the hand-written model was made from. *)
From Coq Require Import String.
From Lithium Require Import GenSrc PinsSrc.

Lemma pin_src_strategies_MinimizeSurroundingPairs_reduce : GenSrc.src_strategies_MinimizeSurroundingPairs_reduce = PinsSrc.src_strategies_MinimizeSurroundingPairs_reduce.
Proof. reflexivity. Qed.
Lemma pin_src_strategies_MinimizeSurroundingPairs_try_removing_chunks : GenSrc.src_strategies_MinimizeSurroundingPairs_try_removing_chunks = PinsSrc.src_strategies_MinimizeSurroundingPairs_try_removing_chunks.
Proof. reflexivity. Qed.
Lemma pin_src_strategies_MinimizeBalancedPairs_try_removing_chunks : GenSrc.src_strategies_MinimizeBalancedPairs_try_removing_chunks = PinsSrc.src_strategies_MinimizeBalancedPairs_try_removing_chunks.
Proof. reflexivity. Qed.
