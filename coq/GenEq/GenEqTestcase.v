(* Tie T: the definitions regenerated from class Testcase equal the model. *)
From Coq Require Import ZArith NArith List Bool.
From Lithium Require Import PyBase TcRecord GenTestcase Testcase.
Import ListNotations.
Open Scope Z_scope.

Lemma gen_tc_len : forall t, GenTestcase.tc_len t = Ok (tc_len t).
Proof. reflexivity. Qed.

Lemma gen_slice_xlat : forall t a b, GenTestcase.slice_xlat t a b = slice_xlat t a b.
Proof.
  intros t a b. unfold GenTestcase.slice_xlat, slice_xlat, GenTestcase.tc_len. cbn [bind].
  unfold clamp, tc_len.
  destruct a as [a|], b as [b|]; cbn [bind];
    repeat match goal with |- context [if ?c then Ok ?x else _] =>
       lazymatch c with (_ <? _) => destruct c | (_ >? _) => destruct c end; cbn [bind] end;
    reflexivity.
Qed.

Lemma gen_rmslice : forall t a b, GenTestcase.rmslice t a b = rmslice t a b.
Proof.
  intros t a b. unfold GenTestcase.rmslice, rmslice. rewrite gen_slice_xlat. reflexivity.
Qed.

Lemma gen_copy : forall t, GenTestcase.copy t = Ok (copy t).
Proof. reflexivity. Qed.
