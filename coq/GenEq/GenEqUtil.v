(* Tie T: the definitions regenerated from src/lithium/util.py equal the model. *)
From Coq Require Import ZArith NArith List Bool.
From Lithium Require Import PyBase GenUtil Util.
Open Scope Z_scope.

Lemma gen_divide_rounding_up : forall n d, GenUtil.divide_rounding_up n d = divide_rounding_up n d.
Proof. reflexivity. Qed.
Lemma gen_is_power_of_two : forall x, GenUtil.is_power_of_two x = Ok (is_power_of_two x).
Proof. reflexivity. Qed.
Lemma gen_largest_power_of_two_smaller_than :
  forall x, GenUtil.largest_power_of_two_smaller_than x = Ok (largest_power_of_two_smaller_than x).
Proof.
  intro x. unfold GenUtil.largest_power_of_two_smaller_than, largest_power_of_two_smaller_than.
  cbv zeta. destruct ((py_shl 1 (Z.max (bit_length x - 1) 0) =? x) && (x >? 1)); reflexivity.
Qed.
