(* Tie T (source pins, group Driver): the modelled functions are textually (modulo comments, layout,
   docstrings) the ones the hand-written model was made from. *)
From Coq Require Import String.
From Lithium Require Import GenSrc PinsSrc.

Lemma pin_src_reducer_Lithium_init : GenSrc.src_reducer_Lithium_init = PinsSrc.src_reducer_Lithium_init.
Proof. reflexivity. Qed.
Lemma pin_src_reducer_Lithium_run : GenSrc.src_reducer_Lithium_run = PinsSrc.src_reducer_Lithium_run.
Proof. reflexivity. Qed.
Lemma pin_src_reducer_Lithium_interesting : GenSrc.src_reducer_Lithium_interesting = PinsSrc.src_reducer_Lithium_interesting.
Proof. reflexivity. Qed.
Lemma pin_src_reducer_Lithium_testcase_temp_filename : GenSrc.src_reducer_Lithium_testcase_temp_filename = PinsSrc.src_reducer_Lithium_testcase_temp_filename.
Proof. reflexivity. Qed.
Lemma pin_src_strategies_Strategy_main : GenSrc.src_strategies_Strategy_main = PinsSrc.src_strategies_Strategy_main.
Proof. reflexivity. Qed.
Lemma pin_src_strategies_CheckOnly_main : GenSrc.src_strategies_CheckOnly_main = PinsSrc.src_strategies_CheckOnly_main.
Proof. reflexivity. Qed.
Lemma pin_src_strategies_CheckOnly_reduce : GenSrc.src_strategies_CheckOnly_reduce = PinsSrc.src_strategies_CheckOnly_reduce.
Proof. reflexivity. Qed.
Lemma pin_src_strategies_ReductionIterator_init : GenSrc.src_strategies_ReductionIterator_init = PinsSrc.src_strategies_ReductionIterator_init.
Proof. reflexivity. Qed.
Lemma pin_src_strategies_ReductionIterator_feedback : GenSrc.src_strategies_ReductionIterator_feedback = PinsSrc.src_strategies_ReductionIterator_feedback.
Proof. reflexivity. Qed.
Lemma pin_src_strategies_ReductionIterator_try_testcase : GenSrc.src_strategies_ReductionIterator_try_testcase = PinsSrc.src_strategies_ReductionIterator_try_testcase.
Proof. reflexivity. Qed.
Lemma pin_src_strategies_ReductionIterator_wrap : GenSrc.src_strategies_ReductionIterator_wrap = PinsSrc.src_strategies_ReductionIterator_wrap.
Proof. reflexivity. Qed.
Lemma pin_src_testcases_Testcase_dump : GenSrc.src_testcases_Testcase_dump = PinsSrc.src_testcases_Testcase_dump.
Proof. reflexivity. Qed.
