(* Tie T (source pins, group Interest): the modelled functions are textually (modulo comments, layout,
   docstrings) the ones the hand-written model was made from. *)
From Coq Require Import String.
From Lithium Require Import GenSrc PinsSrc.

Lemma pin_src_outputs_interesting : GenSrc.src_outputs_interesting = PinsSrc.src_outputs_interesting.
Proof. reflexivity. Qed.
Lemma pin_src_outputs_file_contains : GenSrc.src_outputs_file_contains = PinsSrc.src_outputs_file_contains.
Proof. reflexivity. Qed.
Lemma pin_src_utils_file_contains_str : GenSrc.src_utils_file_contains_str = PinsSrc.src_utils_file_contains_str.
Proof. reflexivity. Qed.
Lemma pin_src_utils_file_contains_regex : GenSrc.src_utils_file_contains_regex = PinsSrc.src_utils_file_contains_regex.
Proof. reflexivity. Qed.
Lemma pin_src_diff_test_interesting : GenSrc.src_diff_test_interesting = PinsSrc.src_diff_test_interesting.
Proof. reflexivity. Qed.
Lemma pin_src_diff_test_parse_args : GenSrc.src_diff_test_parse_args = PinsSrc.src_diff_test_parse_args.
Proof. reflexivity. Qed.
Lemma pin_src_repeat_interesting : GenSrc.src_repeat_interesting = PinsSrc.src_repeat_interesting.
Proof. reflexivity. Qed.
