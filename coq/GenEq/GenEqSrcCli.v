(* Tie T (source pins, group Cli): the modelled functions are textually (modulo comments, layout,
   docstrings) the ones the hand-written model was made from. *)
From Coq Require Import String.
From Lithium Require Import GenSrc PinsSrc.

Lemma pin_src_reducer_Lithium_main : GenSrc.src_reducer_Lithium_main = PinsSrc.src_reducer_Lithium_main.
Proof. reflexivity. Qed.
Lemma pin_src_reducer_Lithium_process_args : GenSrc.src_reducer_Lithium_process_args = PinsSrc.src_reducer_Lithium_process_args.
Proof. reflexivity. Qed.
Lemma pin_src_utils_rel_or_abs_import : GenSrc.src_utils_rel_or_abs_import = PinsSrc.src_utils_rel_or_abs_import.
Proof. reflexivity. Qed.
Lemma pin_src_strategies_Minimize_add_args : GenSrc.src_strategies_Minimize_add_args = PinsSrc.src_strategies_Minimize_add_args.
Proof. reflexivity. Qed.
Lemma pin_src_strategies_Minimize_process_args : GenSrc.src_strategies_Minimize_process_args = PinsSrc.src_strategies_Minimize_process_args.
Proof. reflexivity. Qed.
Lemma pin_src_strategies_MinimizeBalancedPairs_add_args : GenSrc.src_strategies_MinimizeBalancedPairs_add_args = PinsSrc.src_strategies_MinimizeBalancedPairs_add_args.
Proof. reflexivity. Qed.
Lemma pin_src_strategies_MinimizeBalancedPairs_process_args : GenSrc.src_strategies_MinimizeBalancedPairs_process_args = PinsSrc.src_strategies_MinimizeBalancedPairs_process_args.
Proof. reflexivity. Qed.
Lemma pin_src_testcases_TestcaseSymbol_add_arguments : GenSrc.src_testcases_TestcaseSymbol_add_arguments = PinsSrc.src_testcases_TestcaseSymbol_add_arguments.
Proof. reflexivity. Qed.
Lemma pin_src_testcases_TestcaseSymbol_handle_args : GenSrc.src_testcases_TestcaseSymbol_handle_args = PinsSrc.src_testcases_TestcaseSymbol_handle_args.
Proof. reflexivity. Qed.
