(* Tie T (tables): the constants / pattern texts / option tables regenerated from the source
   equal the pinned ones the hand-written models were made from. *)
From Coq Require Import ZArith NArith List Bool String.
From Lithium Require Import GenTables Pins.

Lemma pin_marker_finds : GenTables.marker_finds = Pins.marker_finds.
Proof. reflexivity. Qed.
Lemma pin_marker_find_subjects : GenTables.marker_find_subjects = Pins.marker_find_subjects.
Proof. reflexivity. Qed.
Lemma pin_load_splitlines_calls : GenTables.load_splitlines_calls = Pins.load_splitlines_calls.
Proof. reflexivity. Qed.
Lemma pin_char_load_body : GenTables.char_load_body = Pins.char_load_body.
Proof. reflexivity. Qed.
Lemma pin_DEFAULT_CUT_AFTER : GenTables.DEFAULT_CUT_AFTER = Pins.DEFAULT_CUT_AFTER.
Proof. reflexivity. Qed.
Lemma pin_DEFAULT_CUT_BEFORE : GenTables.DEFAULT_CUT_BEFORE = Pins.DEFAULT_CUT_BEFORE.
Proof. reflexivity. Qed.
Lemma pin_cutter_prelude : GenTables.cutter_prelude = Pins.cutter_prelude.
Proof. reflexivity. Qed.
Lemma pin_cutter_template : GenTables.cutter_template = Pins.cutter_template.
Proof. reflexivity. Qed.
Lemma pin_symbol_split_body : GenTables.symbol_split_body = Pins.symbol_split_body.
Proof. reflexivity. Qed.
Lemma pin_js_re_calls : GenTables.js_re_calls = Pins.js_re_calls.
Proof. reflexivity. Qed.
Lemma pin_TAG_PATTERN : GenTables.TAG_PATTERN = Pins.TAG_PATTERN.
Proof. reflexivity. Qed.
Lemma pin_ATTR_PATTERN : GenTables.ATTR_PATTERN = Pins.ATTR_PATTERN.
Proof. reflexivity. Qed.
Lemma pin_attrs_re_calls : GenTables.attrs_re_calls = Pins.attrs_re_calls.
Proof. reflexivity. Qed.
Lemma pin_testcase_methods : GenTables.testcase_methods = Pins.testcase_methods.
Proof. reflexivity. Qed.
