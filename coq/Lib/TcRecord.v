(* The testcase record shared by the generated and the hand-written model. *)
From Coq Require Import ZArith NArith List Bool.
From Lithium Require Import PyBase.
Import ListNotations.

Record tcase := { tc_before : bytes; tc_parts : list bytes; tc_red : list bool; tc_after : bytes }.

Definition content (t : tcase) : bytes := tc_before t ++ concat (tc_parts t) ++ tc_after t.
Definition wf (t : tcase) : Prop := length (tc_parts t) = length (tc_red t).
Definition wfb (t : tcase) : bool := Nat.eqb (length (tc_parts t)) (length (tc_red t)).
