(* ExitStatus of interestingness/timed_run.py *)
Inductive status := NORMAL | ABNORMAL | CRASH | TIMEOUT.
