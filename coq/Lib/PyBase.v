(* PyBase: the fragment of Python's list / int semantics that the models use.
   Definitions only (no proofs) so that the executable model never depends on a proof. *)
From Coq Require Import ZArith NArith List Bool.
Import ListNotations.
Open Scope Z_scope.

Definition bytes := list N.

(* exceptions as values *)
Inductive exn := IndexError | ValueError | TypeError | LithiumError | ZeroDivisionError
               | AssertionError | RuntimeError | OutOfFuel.

Inductive res (A : Type) := Ok (a : A) | Err (e : exn).
Arguments Ok {A} a.
Arguments Err {A} e.

Definition bind {A B} (m : res A) (f : A -> res B) : res B :=
  match m with Ok a => f a | Err e => Err e end.

Notation "x <- m ;; k" := (bind m (fun x => k))
  (at level 61, m at next level, right associativity).
Notation "' p <- m ;; k" := (bind m (fun p => k))
  (at level 61, p pattern, m at next level, right associativity).

Definition zlen {A} (l : list A) : Z := Z.of_nat (length l).

(* normalisation of one bound of l[a:b] (step 1) *)
Definition norm_bound (n : Z) (b : option Z) (dflt : Z) : Z :=
  match b with
  | None => dflt
  | Some x => if x <? 0 then Z.max (n + x) 0 else Z.min x n
  end.

Definition py_slice {A} (l : list A) (a b : option Z) : list A :=
  let n := zlen l in
  let lo := norm_bound n a 0 in
  let hi := norm_bound n b n in
  firstn (Z.to_nat (hi - lo)) (skipn (Z.to_nat lo) l).

(* l[i]  (IndexError when out of range; negative counts from the end) *)
Definition py_index {A} (l : list A) (i : Z) : res A :=
  let n := zlen l in
  let j := if i <? 0 then n + i else i in
  if (j <? 0) || (n <=? j) then Err IndexError
  else match nth_error l (Z.to_nat j) with Some x => Ok x | None => Err IndexError end.

Definition py_range (n : Z) : list Z := map Z.of_nat (seq 0 (Z.to_nat n)).

Fixpoint py_enumerate_from {A} (k : Z) (l : list A) : list (Z * A) :=
  match l with [] => [] | x :: r => (k, x) :: py_enumerate_from (k + 1) r end.
Definition py_enumerate {A} (l : list A) := py_enumerate_from 0 l.

(* [e for x in it if c]  with effects (indexing) allowed in c and e *)
Fixpoint flat_mapM {A B} (f : A -> res (list B)) (l : list A) : res (list B) :=
  match l with
  | [] => Ok []
  | x :: r => ys <- f x ;; zs <- flat_mapM f r ;; Ok (ys ++ zs)
  end.

Definition bit_length (x : Z) : Z := if x =? 0 then 0 else Z.log2 (Z.abs x) + 1.
Definition py_shl (a b : Z) : Z := Z.shiftl a b.
Definition py_shr (a b : Z) : Z := Z.shiftr a b.
Definition py_divmod (a b : Z) : res (Z * Z) :=
  if b =? 0 then Err ZeroDivisionError else Ok (a / b, a mod b).
Definition truthy_Z (x : Z) : bool := negb (x =? 0).
Definition py_repeat {A} (x : A) (n : Z) : list A := repeat x (Z.to_nat n).
Definition count_false (l : list bool) : Z := zlen (filter negb l).

Fixpoint bytes_eqb (a b : bytes) : bool :=
  match a, b with
  | [], [] => true
  | x :: a', y :: b' => N.eqb x y && bytes_eqb a' b'
  | _, _ => false
  end.
