(* Extraction of the executable model. ExtrOcamlBasic only: bool, option, list, prod, unit,
   sumbool map to OCaml's; N, Z, positive, nat stay the extracted inductive types. *)
From Coq Require Import Extraction ExtrOcamlBasic.
From Coq Require Import ZArith NArith List.
From Lithium Require Import PyBase TcRecord Util Testcase Driver Minimize PyLines Markers Splitters SplitJs SplitAttrs StatusTypes Status Pairs Interest TempDir Cli Collapse Rewriters ReplaceProps PairsMove.
Extraction Language OCaml.
Extraction "model.ml"
  Util.divide_rounding_up Util.is_power_of_two Util.largest_power_of_two_smaller_than
  Testcase.tc_len Testcase.slice_xlat Testcase.rmslice Testcase.copy
  TcRecord.content
  Driver.run Driver.run_check_only Driver.replay
  PyLines.splitlines Markers.find_markers Splitters.load_line Splitters.load_char Splitters.load_symbol
  Splitters.DEFAULT_CUT_AFTER Splitters.DEFAULT_CUT_BEFORE SplitJs.load_jsstr SplitAttrs.load_attrs
  Pairs.pairs Interest.outputs_mem Interest.outputs_file Interest.diff_mem Interest.diff_file Interest.repeat_loop
  TempDir.create_temp_dir TempDir.run_sched TempDir.results TempDir.proc0
  Splitters.split_line Splitters.split_char Splitters.split_symbol SplitJs.split_jsstr SplitAttrs.split_attrs
  Collapse.collapse_brace Collapse.collapse Cli.process_args Cli.early_table Cli.old_early_table
  Status.classify Status.reported_code Status.crashes_verdict Status.hangs_verdict Minimize.minimize Minimize.no_post
  ReplaceProps.replace_properties_concrete ReplaceProps.props_of ReplaceProps.sub_word
  PairsMove.pairs_move.
