(* Line-oriented driver around the extracted model (model.ml).
   One case per input line: "<op> <arg> <arg> ..."; one result line per case.
   Encodings: ints decimal ("N" = None); bytes hex ("." = empty); list of bytes =
   comma-separated ("-" = empty list); bool list = string of T/F ("-" = empty). *)
open Model

let rec pos_of_int n = if n = 1 then XH else
  if n land 1 = 1 then XI (pos_of_int (n lsr 1)) else XO (pos_of_int (n lsr 1))
let rec int_of_pos = function XH -> 1 | XO p -> 2 * int_of_pos p | XI p -> 2 * int_of_pos p + 1
let z_of_int n = if n = 0 then Z0 else if n > 0 then Zpos (pos_of_int n) else Zneg (pos_of_int (-n))
let int_of_z = function Z0 -> 0 | Zpos p -> int_of_pos p | Zneg p -> - (int_of_pos p)
let n_of_int n = if n = 0 then N0 else Npos (pos_of_int n)
let int_of_n = function N0 -> 0 | Npos p -> int_of_pos p
let rec nat_of_int n = if n <= 0 then O else S (nat_of_int (n - 1))
let rec int_of_nat = function O -> 0 | S n -> 1 + int_of_nat n

let bytes_of_hex s =
  if s = "." then [] else
  let n = String.length s / 2 in
  List.init n (fun i -> n_of_int (int_of_string ("0x" ^ String.sub s (2 * i) 2)))
let hex_of_bytes b =
  if b = [] then "." else String.concat "" (List.map (fun x -> Printf.sprintf "%02x" (int_of_n x)) b)
let parts_of s = if s = "-" then [] else List.map bytes_of_hex (String.split_on_char ',' s)
let str_of_parts p = if p = [] then "-" else String.concat "," (List.map hex_of_bytes p)
let bools_of s = if s = "-" then [] else List.init (String.length s) (fun i -> s.[i] = 'T')
let str_of_bools b = if b = [] then "-" else String.concat "" (List.map (fun x -> if x then "T" else "F") b)
let zopt_of s = if s = "N" then None else Some (z_of_int (int_of_string s))
let z_of s = z_of_int (int_of_string s)
let zs_of s = if s = "-" then [] else List.map z_of (String.split_on_char ',' s)
let str_of_zs l = if l = [] then "-" else String.concat "," (List.map (fun z -> string_of_int (int_of_z z)) l)

let exn_name = function
  | IndexError -> "IndexError" | ValueError -> "ValueError" | TypeError -> "TypeError"
  | LithiumError -> "LithiumError" | ZeroDivisionError -> "ZeroDivisionError"
  | AssertionError -> "AssertionError" | RuntimeError -> "RuntimeError" | OutOfFuel -> "OutOfFuel"

let tc_of b p r a = { tc_before = bytes_of_hex b; tc_parts = parts_of p; tc_red = bools_of r; tc_after = bytes_of_hex a }
let str_of_tc t = Printf.sprintf "%s %s %s %s" (hex_of_bytes t.tc_before) (str_of_parts t.tc_parts)
    (str_of_bools t.tc_red) (hex_of_bytes t.tc_after)

let res f = function Ok x -> "ok " ^ f x | Err e -> "err " ^ exn_name e

(* ---- strategy runs ---- *)
let str_of_answer = function Yes -> "Y" | No -> "N" | Raise -> "R"
let str_of_tname = function
  | Original -> "original"
  | Numbered (k, i) -> Printf.sprintf "%d-%s" (int_of_z k) (if i then "interesting" else "boring")
let str_of_event = function
  | EInit -> "I" | ECleanup -> "X"
  | EWrite _ -> "W"
  | ETest (k, p, f, a) -> Printf.sprintf "T %d %d %s %s" (int_of_z k) (int_of_z p) (hex_of_bytes f) (str_of_answer a)
  | ECopy (n, _) -> "C " ^ str_of_tname n
let str_of_temp w =
  let seen = Hashtbl.create 16 in
  let l = List.filter_map (fun (n, b) ->
      let s = str_of_tname n in
      if Hashtbl.mem seen s then None else (Hashtbl.add seen s (); Some (s, b))) w.w_temp in
  let l = List.sort (fun (a, _) (b, _) -> compare a b) l in
  String.concat "," (List.map (fun (s, b) -> s ^ "=" ^ hex_of_bytes b) l)
let str_of_world w =
  Printf.sprintf "%s | file=%s tests=%d tfc=%d total=%d temp=%s"
    (String.concat ";" (List.rev_map str_of_event w.w_trace))
    (hex_of_bytes w.w_file) (int_of_z w.w_tests) (int_of_z w.w_tfc) (int_of_z w.w_total) (str_of_temp w)
let str_of_result = function
  | Finished (rc, w) -> Printf.sprintf "%s rc=%d" (str_of_world w) (int_of_z rc)
  | Aborted (None, w) -> Printf.sprintf "%s exc=test" (str_of_world w)
  | Aborted (Some e, w) -> Printf.sprintf "%s exc=%s" (str_of_world w) (exn_name e)
  | NoFuel w -> Printf.sprintf "%s nofuel" (str_of_world w)
let verdict_of s = fun k _file ->
  let i = int_of_z k - 1 in
  if i < 0 || i >= String.length s then No
  else match s.[i] with 'Y' -> Yes | 'R' -> Raise | _ -> No
let clock_of s =
  let a = Array.of_list (if s = "-" then [] else List.map int_of_string (String.split_on_char ',' s)) in
  fun n -> let i = int_of_nat n in
    if Array.length a = 0 then Z0 else z_of_int (if i < Array.length a then a.(i) else a.(Array.length a - 1))
let rep_of = function "always" -> Always | "last" -> Last | "never" -> Never | s -> failwith ("repeat " ^ s)
let cfg_of mn mx rp first limit =
  { c_min = z_of mn; c_max = z_of mx; c_repeat = rep_of rp; c_first = (first = "T"); c_limit = zopt_of limit }

let load_of atom = match String.split_on_char ':' atom with
  | ["line"] -> load_line
  | ["char"] -> load_char
  | ["jsstr"] -> load_jsstr
  | ["attrs"] -> load_attrs
  | ["symbol"] -> load_symbol dEFAULT_CUT_BEFORE dEFAULT_CUT_AFTER
  | ["symbol"; b; a] -> load_symbol (bytes_of_hex b) (bytes_of_hex a)
  | _ -> failwith ("atom " ^ atom)

let status_name = function NORMAL -> "NORMAL" | ABNORMAL -> "ABNORMAL" | CRASH -> "CRASH" | TIMEOUT -> "TIMEOUT"

let split_of atom = match String.split_on_char ':' atom with
  | ["line"] -> split_line
  | ["char"] -> split_char
  | ["jsstr"] -> split_jsstr
  | ["attrs"] -> split_attrs
  | ["symbol"] -> split_symbol dEFAULT_CUT_BEFORE dEFAULT_CUT_AFTER
  | ["symbol"; b; a] -> split_symbol (bytes_of_hex b) (bytes_of_hex a)
  | _ -> failwith ("atom " ^ atom)

let handle toks = match toks with
  | ["classify"; t; rc] ->
      let st = classify (t = "T") (z_of rc) in
      Printf.sprintf "%s %s crashes=%b hangs=%b" (status_name st)
        (match reported_code st (z_of rc) with None -> "None" | Some z -> string_of_int (int_of_z z))
        (crashes_verdict st) (hangs_verdict st)
  | ["outputs"; s; o; e] ->
      let nomatch _ _ = false in
      let m = outputs_mem nomatch false (bytes_of_hex s) (bytes_of_hex o) (bytes_of_hex e) in
      let f = outputs_file nomatch false (bytes_of_hex s) (bytes_of_hex o) (bytes_of_hex e) in
      if m = f then (if m then "T" else "F") else "modes-disagree"
  | ["diff"; ca; oa; ea; cb; ob; eb] ->
      let m = diff_mem (zopt_of ca) (zopt_of cb) (bytes_of_hex oa) (bytes_of_hex ea) (bytes_of_hex ob) (bytes_of_hex eb) in
      let f = diff_file (zopt_of ca) (zopt_of cb) (bytes_of_hex oa) (bytes_of_hex ea) (bytes_of_hex ob) (bytes_of_hex eb) in
      if m = f then (if m then "T" else "F") else "modes-disagree"
  | ["repeat"; n; seq; cookie; args] ->
      let inner i _ = let k = int_of_z i - 1 in k < String.length seq && seq.[k] = 'Y' in
      let (r, calls) = repeat_loop inner (bytes_of_hex cookie) (parts_of args) (z_of n) in
      (if r then "T" else "F") ^ " " ^ String.concat "|" (List.map (fun c -> String.concat "," (List.map hex_of_bytes c)) calls)
  | ["ctd"; existing; fault] ->
      let fs = zs_of existing in
      let fo = if fault = "-" then (fun _ -> None) else
          (match String.split_on_char ':' fault with
           | [i; e] -> let e' = (match e with "EACCES" -> EACCES | "ENOENT" -> ENOENT | "ENOTDIR" -> ENOTDIR
                                            | "EROFS" -> EROFS | "ENOSPC" -> ENOSPC | _ -> EOTHER) in
             (fun j -> if int_of_z j = int_of_string i then Some e' else None)
           | _ -> failwith "fault") in
      (match create_temp_dir (nat_of_int 100) fo fs with
       | Dir (n, _) -> Printf.sprintf "dir tmp%d" (int_of_z n)
       | Failed (e, _) -> "err " ^ (match e with EACCES -> "EACCES" | ENOENT -> "ENOENT" | ENOTDIR -> "ENOTDIR"
                                              | EROFS -> "EROFS" | ENOSPC -> "ENOSPC" | EOTHER -> "EOTHER")
       | Spinning -> "spin")
  | ["sched"; existing; k; sched] ->
      let fs = zs_of existing in
      let sc = if sched = "-" then [] else List.map (fun x -> nat_of_int (int_of_string x)) (String.split_on_char ',' sched) in
      let rec rep n = if n = 0 then [] else proc0 :: rep (n - 1) in
      let (_, procs) = run_sched sc fs (rep (int_of_string k)) in
      String.concat "," (List.sort compare (List.map (fun z -> string_of_int (int_of_z z)) (results procs)))
  | "cli" :: argv ->
      let str_of_bytes bs = String.concat "" (List.map (fun x -> String.make 1 (Char.chr (int_of_n x))) bs) in
      (match process_args early_table (List.map bytes_of_hex argv) with
       | Err _ -> "refused"
       | Ok p ->
         let c = p.pa_config in
         let sname = (match c.cf_strategy with SMinimize -> "minimize" | SAround -> "minimize-around"
             | SBalanced -> "minimize-balanced" | SCollapse -> "minimize-collapse-brace"
             | SReplaceProps -> "replace-properties-by-globals" | SReplaceArgs -> "replace-arguments-by-globals"
             | SCheckOnly -> "check-only") in
         let aname = (match c.cf_atom with ALine -> "TestcaseLine" | AChar -> "TestcaseChar" | AJs -> "TestcaseJsStr"
             | ASymbol -> "TestcaseSymbol" | AAttrs -> "TestcaseAttrs") in
         let check = (c.cf_strategy = SCheckOnly) in
         let optz = function None -> "None" | Some z -> string_of_int (int_of_z z) in
         Printf.sprintf "%s %s %s %s %s %s %s %s %s | %s" sname aname
           (if check then "None" else string_of_int (int_of_z c.cf_min))
           (if check then "None" else string_of_int (int_of_z c.cf_max))
           (if check then "None" else (match c.cf_repeat with RAlways -> "always" | RLast -> "last" | RNever -> "never"))
           (if check then "None" else (if c.cf_first then "True" else "False"))
           (if check then "None" else optz c.cf_limit)
           (match c.cf_tempdir with None -> "None" | Some t -> str_of_bytes t)
           (str_of_bytes p.pa_file)
           (String.concat " " (List.map str_of_bytes p.pa_test_args)))
  | ["load"; atom; d] -> res str_of_tc ((load_of atom) (bytes_of_hex d))
  | ["splitlines"; d] -> "ok " ^ str_of_parts (splitlines (bytes_of_hex d))
  | ["markers"; d] -> (match find_markers (bytes_of_hex d) with
      | NoMarkers w -> "none " ^ hex_of_bytes w
      | Marked (b, r, a) -> Printf.sprintf "marked %s %s %s" (hex_of_bytes b) (hex_of_bytes r) (hex_of_bytes a)
      | MarkerError -> "err LithiumError")
  | ["run"; "minimize"; mn; mx; rp; first; limit; clk; b; p; r; a; file0; verdicts; fuel] ->
      let strat = minimize (cfg_of mn mx rp first limit) (clock_of clk) no_post in
      str_of_result (run strat (verdict_of verdicts) (nat_of_int (int_of_string fuel)) (tc_of b p r a) (bytes_of_hex file0))
  | ["run"; ("minimize-around" | "minimize-balanced" as k); mn; mx; rp; first; limit; clk; b; p; r; a; file0; verdicts; fuel] ->
      let strat = pairs (if k = "minimize-around" then KAround else KBalanced) (cfg_of mn mx rp first limit) (clock_of clk) in
      str_of_result (run strat (verdict_of verdicts) (nat_of_int (int_of_string fuel)) (tc_of b p r a) (bytes_of_hex file0))
  | ["run"; "minimize-collapse-brace"; mn; mx; rp; first; limit; clk; atom; b; p; r; a; file0; verdicts; fuel] ->
      let strat = collapse_brace (cfg_of mn mx rp first limit) (clock_of clk) (split_of atom) in
      str_of_result (run strat (verdict_of verdicts) (nat_of_int (int_of_string fuel)) (tc_of b p r a) (bytes_of_hex file0))
  | ["run"; "minimize-balanced-move"; mn; mx; rp; first; limit; clk; b; p; r; a; file0; verdicts; fuel] ->
      let strat = pairs_move (cfg_of mn mx rp first limit) (clock_of clk) in
      str_of_result (run strat (verdict_of verdicts) (nat_of_int (int_of_string fuel)) (tc_of b p r a) (bytes_of_hex file0))
  | ["run"; "replace-properties-by-globals"; mn; mx; rp; first; limit; clk; b; p; r; a; file0; verdicts; fuel] ->
      let strat = replace_properties_concrete (cfg_of mn mx rp first limit) in
      str_of_result (run strat (verdict_of verdicts) (nat_of_int (int_of_string fuel)) (tc_of b p r a) (bytes_of_hex file0))
  | ["propsof"; d] -> "ok " ^ String.concat "," (List.map hex_of_bytes (props_of (bytes_of_hex d)))
  | ["subword"; w; d] -> "ok " ^ hex_of_bytes (sub_word (bytes_of_hex w) (bytes_of_hex d))
  | ["collapse"; d] -> "ok " ^ hex_of_bytes (collapse (bytes_of_hex d))
  | ["run"; "replay"; steps; b; p; r; a; file0; verdicts; fuel] ->
      let step_of s =
        let body = String.sub s 2 (String.length s - 2) in
        if s.[0] = 'F' then RFail (match body with
            | "AssertionError" -> AssertionError | "IndexError" -> IndexError | "ValueError" -> ValueError
            | "TypeError" -> TypeError | "LithiumError" -> LithiumError | "ZeroDivisionError" -> ZeroDivisionError
            | _ -> RuntimeError)
        else if s.[0] = 'W' then RRaw (bytes_of_hex body)
        else (match String.split_on_char '/' body with
            | [b; p; r; a] -> RProp (tc_of b p r a)
            | _ -> failwith "replay step") in
      let steps = if steps = "-" then [] else List.map step_of (String.split_on_char '+' steps) in
      str_of_result (run (replay steps) (verdict_of verdicts) (nat_of_int (int_of_string fuel)) (tc_of b p r a) (bytes_of_hex file0))
  | ["run"; "check-only"; b; p; r; a; file0; verdicts] ->
      str_of_result (run_check_only (verdict_of verdicts) (tc_of b p r a) (bytes_of_hex file0))
  | ["dru"; a; b] -> res (fun z -> string_of_int (int_of_z z)) (divide_rounding_up (z_of a) (z_of b))
  | ["ipo2"; a] -> if is_power_of_two (z_of a) then "ok T" else "ok F"
  | ["lpo2"; a] -> "ok " ^ string_of_int (int_of_z (largest_power_of_two_smaller_than (z_of a)))
  | ["len"; b; p; r; a] -> "ok " ^ string_of_int (int_of_z (tc_len (tc_of b p r a)))
  | ["xlat"; b; p; r; a; s; e] ->
      res (fun (i, j) -> Printf.sprintf "%d %d" (int_of_z i) (int_of_z j))
        (slice_xlat (tc_of b p r a) (zopt_of s) (zopt_of e))
  | ["rmslice"; b; p; r; a; s; e] ->
      let t = tc_of b p r a in
      res (fun t' -> Printf.sprintf "%s %d" (str_of_tc t') (int_of_z (tc_len t'))) (rmslice t (z_of s) (z_of e))
  | ["copy"; b; p; r; a] -> "ok " ^ str_of_tc (copy (tc_of b p r a))
  | _ -> "crash unknown-op"

let () =
  try
    while true do
      let line = input_line stdin in
      let toks = List.filter (fun s -> s <> "") (String.split_on_char ' ' line) in
      (match toks with
       | [] -> print_newline ()
       | _ -> print_endline (try handle toks with
                             | Stack_overflow -> "crash stack_overflow"
                             | Failure m -> "crash " ^ m
                             | Not_found -> "crash not_found"
                             | Invalid_argument m -> "crash " ^ m))
    done
  with End_of_file -> ()
